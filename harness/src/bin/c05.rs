//! C05 — crash at every instrumented write boundary of a workload, restart on the snapshot, follow-up
//! operations, independent oracle (whole-store replay, 0..n per stream, acknowledged frames exactly once,
//! numbering continues, reads equal with caches as found vs removed), and the per-crash-point comparison
//! with coq/Model/Crash.v (disk shape at the crash point and after the follow-ups).
use rip_kernel::{Event, EventKind, StreamKind};
use rip_log::EventLog;
use ripd::{
    CompactionAutoScheduleV1Request, CompactionAutoV1Request, CompactionCheckpointCumulativeV1Request, CompactionCutPointsV1Request, CompactionStatusV1Request,
    ContextSelectionStatusV1Request, ContinuityRunLink, ContinuityStore, ProviderCursorRotateV1Request, ProviderCursorStatusV1Request, ToolSideEffects,
};
use rv::sched::CrashRec;
use rv::*;
use serde_json::json;
use std::collections::{BTreeMap, HashMap, HashSet};
use std::path::{Path, PathBuf};
use std::sync::atomic::{AtomicU64, Ordering};
use std::sync::{Arc, Mutex};
use std::time::Instant;

// ------------------------------------------------------------------ wall-time accounting (printed at the end)
static T_SNAP: AtomicU64 = AtomicU64::new(0);
static T_COPY: AtomicU64 = AtomicU64::new(0);
static T_READS: AtomicU64 = AtomicU64::new(0);
static T_FOLLOW: AtomicU64 = AtomicU64::new(0);
static T_ORACLE: AtomicU64 = AtomicU64::new(0);
fn tick(c: &AtomicU64, t0: Instant) {
    c.fetch_add(t0.elapsed().as_micros() as u64, Ordering::Relaxed);
}

// ------------------------------------------------------------------ generic crash points: EVERY file-system effect
/// The rip_verif hook points name the crash boundaries somebody thought of.  An effect ADDED to a write path later
/// (an unlink before a rename, a second write, a truncate) has no hook point next to it.  So this binary also
/// DEFINES the libc entry points std's file-system calls end in (open / open64 / openat64 with O_CREAT|O_TRUNC,
/// write, writev, pwrite64, rename, renameat, unlink, unlinkat, rmdir, mkdir, link, linkat, symlink, ftruncate64,
/// truncate64; not copy_file_range / sendfile, which std reaches through weak symbols): std is linked statically into the binary, so the
/// linker binds its calls to these definitions, which forward to the kernel through `syscall(2)`.  While a
/// workload's capability call runs on the current thread (`arm`), every such effect on a path under the live store
/// is a crash boundary: when at least one effect happened since the last snapshot (hook point or effect), the
/// store is snapshotted BEFORE the effect is issued (= the process died between the previous effect and this one).
/// Boundaries that a hook point already covers are not snapshotted twice.
mod fsx {
    use libc::{c_char, c_int, c_void, mode_t, off_t, size_t, ssize_t};
    use std::cell::{Cell, RefCell};
    use std::ffi::CStr;

    thread_local! {
        static ARMED: Cell<bool> = const { Cell::new(false) };
        /// effects on the live store since the last snapshot
        static EFFECTS: Cell<u32> = const { Cell::new(0) };
        static ROOT: RefCell<Vec<u8>> = const { RefCell::new(Vec::new()) };
    }
    /// takes the snapshot: (name of the crash point, path of the effect about to be issued, relative to the root)
    pub static HANDLER: std::sync::OnceLock<Box<dyn Fn(&'static str, String) + Send + Sync>> = std::sync::OnceLock::new();
    pub static SEEN: std::sync::atomic::AtomicU64 = std::sync::atomic::AtomicU64::new(0);

    pub fn set_root(root: &std::path::Path) {
        use std::os::unix::ffi::OsStrExt;
        ROOT.with(|r| *r.borrow_mut() = root.as_os_str().as_bytes().to_vec());
    }
    /// arm(true) at the start of a capability call (the disk equals the previous `op.returned` snapshot)
    pub fn arm(on: bool) {
        ARMED.with(|a| a.set(on));
        if on {
            EFFECTS.with(|e| e.set(0));
        }
    }
    pub fn armed() -> bool {
        ARMED.with(|a| a.get())
    }

    fn fd_path(fd: c_int) -> Vec<u8> {
        let link = format!("/proc/self/fd/{fd}\0");
        let mut buf = vec![0u8; 4096];
        let n = unsafe { libc::readlink(link.as_ptr() as *const c_char, buf.as_mut_ptr() as *mut c_char, buf.len()) };
        if n <= 0 {
            return vec![];
        }
        buf.truncate(n as usize);
        buf
    }
    fn at_path(dirfd: c_int, path: *const c_char) -> Vec<u8> {
        let p = unsafe { CStr::from_ptr(path) }.to_bytes().to_vec();
        if p.first() == Some(&b'/') || dirfd == libc::AT_FDCWD {
            return p;
        }
        let mut d = fd_path(dirfd);
        d.push(b'/');
        d.extend_from_slice(&p);
        d
    }
    /// called before the effect `name` on `path` is issued; true = the path is under the live store
    fn boundary(name: &'static str, path: &[u8]) -> bool {
        let rel = ROOT.with(|r| {
            let r = r.borrow();
            if !r.is_empty() && path.len() > r.len() && path.starts_with(&r) && path[r.len()] == b'/' {
                Some(String::from_utf8_lossy(&path[r.len() + 1..]).to_string())
            } else {
                None
            }
        });
        let Some(rel) = rel else { return false };
        SEEN.fetch_add(1, std::sync::atomic::Ordering::Relaxed);
        if EFFECTS.with(|e| e.get()) > 0 {
            if let Some(h) = HANDLER.get() {
                ARMED.with(|a| a.set(false));
                h(name, rel);
                ARMED.with(|a| a.set(true));
            }
            EFFECTS.with(|e| e.set(0));
        }
        true
    }
    /// the effect was issued: it counts when it succeeded (a mkdir of an existing directory changes nothing)
    fn done(under: bool, ok: bool) {
        if under && ok {
            EFFECTS.with(|e| e.set(e.get() + 1));
        }
    }
    fn cpath(p: *const c_char) -> Vec<u8> {
        unsafe { CStr::from_ptr(p) }.to_bytes().to_vec()
    }
    const CREATING: c_int = libc::O_CREAT | libc::O_TRUNC;

    #[no_mangle]
    pub unsafe extern "C" fn open64(path: *const c_char, flags: c_int, mode: mode_t) -> c_int {
        // an effect when it truncates, or creates a file that is not there
        let under = armed() && flags & CREATING != 0 && (flags & libc::O_TRUNC != 0 || libc::access(path, libc::F_OK) != 0) && boundary("fs.before.open_create", &cpath(path));
        let r = libc::syscall(libc::SYS_open, path, flags, mode as c_int) as c_int;
        done(under, r >= 0);
        r
    }
    #[no_mangle]
    pub unsafe extern "C" fn open(path: *const c_char, flags: c_int, mode: mode_t) -> c_int {
        // an effect when it truncates, or creates a file that is not there
        let under = armed() && flags & CREATING != 0 && (flags & libc::O_TRUNC != 0 || libc::access(path, libc::F_OK) != 0) && boundary("fs.before.open_create", &cpath(path));
        let r = libc::syscall(libc::SYS_open, path, flags, mode as c_int) as c_int;
        done(under, r >= 0);
        r
    }
    #[no_mangle]
    pub unsafe extern "C" fn openat64(dirfd: c_int, path: *const c_char, flags: c_int, mode: mode_t) -> c_int {
        // an effect when it truncates, or creates a file that is not there
        let under = armed() && flags & CREATING != 0 && (flags & libc::O_TRUNC != 0 || libc::faccessat(dirfd, path, libc::F_OK, 0) != 0) && boundary("fs.before.open_create", &at_path(dirfd, path));
        let r = libc::syscall(libc::SYS_openat, dirfd, path, flags, mode as c_int) as c_int;
        done(under, r >= 0);
        r
    }
    #[no_mangle]
    pub unsafe extern "C" fn write(fd: c_int, buf: *const c_void, n: size_t) -> ssize_t {
        let under = armed() && fd > 2 && boundary("fs.before.write", &fd_path(fd));
        let r = libc::syscall(libc::SYS_write, fd, buf, n) as ssize_t;
        done(under, r > 0);
        r
    }
    #[no_mangle]
    pub unsafe extern "C" fn writev(fd: c_int, iov: *const libc::iovec, n: c_int) -> ssize_t {
        let under = armed() && fd > 2 && boundary("fs.before.writev", &fd_path(fd));
        let r = libc::syscall(libc::SYS_writev, fd, iov, n) as ssize_t;
        done(under, r > 0);
        r
    }
    #[no_mangle]
    pub unsafe extern "C" fn ftruncate64(fd: c_int, len: off_t) -> c_int {
        let under = armed() && boundary("fs.before.ftruncate", &fd_path(fd));
        let r = libc::syscall(libc::SYS_ftruncate, fd, len) as c_int;
        done(under, r >= 0);
        r
    }
    #[no_mangle]
    pub unsafe extern "C" fn rename(old: *const c_char, new: *const c_char) -> c_int {
        let under = armed() && boundary("fs.before.rename", &cpath(new));
        let r = libc::syscall(libc::SYS_rename, old, new) as c_int;
        done(under, r >= 0);
        r
    }
    #[no_mangle]
    pub unsafe extern "C" fn unlink(path: *const c_char) -> c_int {
        let under = armed() && boundary("fs.before.unlink", &cpath(path));
        let r = libc::syscall(libc::SYS_unlink, path) as c_int;
        done(under, r >= 0);
        r
    }
    #[no_mangle]
    pub unsafe extern "C" fn unlinkat(dirfd: c_int, path: *const c_char, flags: c_int) -> c_int {
        let under = armed() && boundary("fs.before.unlink", &at_path(dirfd, path));
        let r = libc::syscall(libc::SYS_unlinkat, dirfd, path, flags) as c_int;
        done(under, r >= 0);
        r
    }
    // entry points today's rip / std do not reach on this platform (kept so that code that starts using them is covered)
    #[no_mangle]
    pub unsafe extern "C" fn pwrite64(fd: c_int, buf: *const c_void, n: size_t, off: off_t) -> ssize_t {
        let under = armed() && fd > 2 && boundary("fs.before.pwrite", &fd_path(fd));
        let r = libc::syscall(libc::SYS_pwrite64, fd, buf, n, off) as ssize_t;
        done(under, r > 0);
        r
    }
    #[no_mangle]
    pub unsafe extern "C" fn renameat(olddir: c_int, old: *const c_char, newdir: c_int, new: *const c_char) -> c_int {
        let under = armed() && boundary("fs.before.rename", &at_path(newdir, new));
        let r = libc::syscall(libc::SYS_renameat, olddir, old, newdir, new) as c_int;
        done(under, r >= 0);
        r
    }
    #[no_mangle]
    pub unsafe extern "C" fn linkat(olddir: c_int, old: *const c_char, newdir: c_int, new: *const c_char, flags: c_int) -> c_int {
        let under = armed() && boundary("fs.before.link", &at_path(newdir, new));
        let r = libc::syscall(libc::SYS_linkat, olddir, old, newdir, new, flags) as c_int;
        done(under, r >= 0);
        r
    }
    #[no_mangle]
    pub unsafe extern "C" fn link(old: *const c_char, new: *const c_char) -> c_int {
        let under = armed() && boundary("fs.before.link", &cpath(new));
        let r = libc::syscall(libc::SYS_link, old, new) as c_int;
        done(under, r >= 0);
        r
    }
    #[no_mangle]
    pub unsafe extern "C" fn symlink(target: *const c_char, path: *const c_char) -> c_int {
        let under = armed() && boundary("fs.before.symlink", &cpath(path));
        let r = libc::syscall(libc::SYS_symlink, target, path) as c_int;
        done(under, r >= 0);
        r
    }
    #[no_mangle]
    pub unsafe extern "C" fn rmdir(path: *const c_char) -> c_int {
        let under = armed() && boundary("fs.before.rmdir", &cpath(path));
        let r = libc::syscall(libc::SYS_rmdir, path) as c_int;
        done(under, r >= 0);
        r
    }
    #[no_mangle]
    pub unsafe extern "C" fn truncate64(path: *const c_char, len: off_t) -> c_int {
        let under = armed() && boundary("fs.before.truncate", &cpath(path));
        let r = libc::syscall(libc::SYS_truncate, path, len) as c_int;
        done(under, r >= 0);
        r
    }
    #[no_mangle]
    pub unsafe extern "C" fn mkdir(path: *const c_char, mode: mode_t) -> c_int {
        let under = armed() && boundary("fs.before.mkdir", &cpath(path));
        let r = libc::syscall(libc::SYS_mkdir, path, mode as c_int) as c_int;
        done(under, r >= 0);
        r
    }
}

// ------------------------------------------------------------------ copies of a store
/// How a copy of a store is made.  `Full`: byte copy of everything (a crash-point snapshot that will be
/// restarted and written to).  `ReadsAsFound` / `ReadsNoCaches`: a private tree for read-only capability
/// calls: events.jsonl is HARD-LINKED (no read path may write the truth log; the caller checks its length
/// afterwards), everything else is byte-copied (reads may rebuild caches in place); `ReadsNoCaches` leaves
/// `data/continuity_streams/` out instead of copying and deleting it.
#[derive(Clone, Copy, PartialEq)]
enum CopyMode {
    Full,
    ReadsAsFound,
    ReadsNoCaches,
}
fn copy_store(src: &Path, dst: &Path, mode: CopyMode) -> std::io::Result<()> {
    fn walk(src: &Path, dst: &Path, rel: &Path, mode: CopyMode) -> std::io::Result<()> {
        std::fs::create_dir_all(dst.join(rel))?;
        for e in std::fs::read_dir(src.join(rel))? {
            let e = e?;
            let ft = e.file_type()?;
            let r = rel.join(e.file_name());
            if ft.is_dir() {
                if mode == CopyMode::ReadsNoCaches && r == Path::new("data/continuity_streams") {
                    continue;
                }
                walk(src, dst, &r, mode)?;
            } else if ft.is_file() {
                if mode != CopyMode::Full && r == Path::new("data/events.jsonl") {
                    std::fs::hard_link(src.join(&r), dst.join(&r))?;
                } else {
                    std::fs::copy(src.join(&r), dst.join(&r))?;
                }
            }
        }
        Ok(())
    }
    walk(src, dst, Path::new(""), mode)
}

/// Makes the tree `dst` byte-identical to `src` again (same files, same contents) while writing as little as
/// possible: a file of `dst` that still begins with the bytes of its `src` counterpart (an append-only file that
/// grew) is truncated back, an unchanged file is left alone, anything else is copied again / deleted.
fn reset_store(src: &Path, dst: &Path) -> std::io::Result<()> {
    fn walk(src: &Path, dst: &Path, rel: &Path) -> std::io::Result<()> {
        let (s, d) = (src.join(rel), dst.join(rel));
        // entries of dst that src does not have
        for e in std::fs::read_dir(&d)? {
            let e = e?;
            let sp = s.join(e.file_name());
            let ft = e.file_type()?;
            if ft.is_dir() {
                if !sp.is_dir() {
                    std::fs::remove_dir_all(e.path())?;
                }
            } else if !sp.is_file() {
                std::fs::remove_file(e.path())?;
            }
        }
        for e in std::fs::read_dir(&s)? {
            let e = e?;
            let ft = e.file_type()?;
            let r = rel.join(e.file_name());
            let dp = dst.join(&r);
            if ft.is_dir() {
                std::fs::create_dir_all(&dp)?;
                walk(src, dst, &r)?;
            } else if ft.is_file() {
                let want = std::fs::read(e.path())?;
                match std::fs::read(&dp) {
                    Ok(have) if have == want => {}
                    Ok(have) if have.len() > want.len() && have[..want.len()] == want[..] => {
                        std::fs::OpenOptions::new().write(true).open(&dp)?.set_len(want.len() as u64)?;
                    }
                    _ => {
                        std::fs::copy(e.path(), &dp)?;
                    }
                }
            }
        }
        Ok(())
    }
    walk(src, dst, Path::new(""))
}

// ------------------------------------------------------------------ workload
#[derive(Clone, Debug, PartialEq)]
enum Op {
    /// ensure_default (creates the default thread + index.json, or finds it)
    Ensure,
    /// append_message; the truth line is padded to `len` bytes when len > 0
    Msg { t: usize, len: u64 },
    RunSpawned { t: usize },
    RunEnded { t: usize },
    Cursor { t: usize },
    SideFx { t: usize },
    /// append_context_selection_decided / append_context_compiled (what a run's context compile records on its thread)
    Selection { t: usize },
    Compiled { t: usize },
    /// compaction_checkpoint_cumulative_v1 at the last message (artifact write, then frame)
    Checkpoint { t: usize },
    Branch { t: usize },
    Handoff { t: usize },
    /// a session / task stream frame written straight through EventLog::append (seq kept by the harness, as the
    /// run task and the task pumps do).  k = frame kind: 0 output_text_delta, 1 tool_stdout, 2 tool_stderr
    /// (session streams), 3 tool_task_output_delta (a task stream: use a stream index of its own)
    Sess { s: usize, len: u64, k: u8 },
    /// cache loss + public read: remove the thread's full sidecar, then replay_events (rebuild_best_effort)
    DropSideRead { t: usize },
    /// rip_log::write_snapshot(<data>/snapshots, stream id, the stream's frames) as the end of a session / task does
    /// (session.rs, tasks/mod.rs finalize_snapshot); no frame is appended to the stream afterwards
    Snapshot { s: usize },
}

fn op_json(o: &Op) -> serde_json::Value {
    json!(format!("{:?}", o))
}

const NO_THREAD: &str = "00000000-0000-4000-8000-000000000000";

struct World {
    root: PathBuf,
    log: Arc<EventLog>,
    store: ContinuityStore,
    threads: Vec<String>,
    last_msg: BTreeMap<usize, String>,
    sess_ids: Vec<String>,
    sess_seq: Vec<u64>,
    /// the frames appended to each session / task stream (what the run task keeps in memory for the snapshot)
    sess_events: Vec<Vec<Event>>,
    /// ids of the frames the last successful call said it appended (the id the API returned)
    returned: Vec<String>,
    /// what the last ensure_default returned
    ensured: Option<String>,
}

fn data_dir(root: &Path) -> PathBuf {
    root.join("data")
}
fn ws_dir(root: &Path) -> PathBuf {
    root.join("ws")
}
fn truth_path(root: &Path) -> PathBuf {
    data_dir(root).join("events.jsonl")
}
fn snapshots_dir(root: &Path) -> PathBuf {
    data_dir(root).join("snapshots")
}
fn side_path(root: &Path, id: &str) -> PathBuf {
    data_dir(root).join("continuity_streams").join(format!("{id}.jsonl"))
}

impl World {
    fn open(root: &Path, threads: Vec<String>, last_msg: BTreeMap<usize, String>, sess_ids: Vec<String>) -> World {
        std::fs::create_dir_all(data_dir(root)).unwrap();
        std::fs::create_dir_all(ws_dir(root)).unwrap();
        let log = Arc::new(EventLog::new(truth_path(root)).expect("event log"));
        let store = ContinuityStore::new(data_dir(root), ws_dir(root), log.clone()).expect("store");
        let n = sess_ids.len();
        World { root: root.to_path_buf(), log, store, threads, last_msg, sess_ids, sess_seq: vec![0; n], sess_events: vec![vec![]; n], returned: vec![], ensured: None }
    }
    fn tid(&self, t: usize) -> String {
        self.threads.get(t).cloned().unwrap_or_else(|| NO_THREAD.to_string())
    }
    fn stream_count(&self, id: &str) -> u64 {
        read_bodies(&truth_path(&self.root)).iter().flatten().filter(|b| b.stream == id).count() as u64
    }
    fn link(&self, t: usize) -> (String, String) {
        (self.tid(t), self.last_msg.get(&t).cloned().unwrap_or_else(|| uuid::Uuid::new_v4().to_string()))
    }
    /// Runs one operation on the real store; Ok(()) iff the capability returned Ok.
    fn exec(&mut self, op: &Op) -> Result<(), String> {
        self.returned.clear();
        match op {
            Op::Ensure => {
                let id = self.store.ensure_default()?;
                self.ensured = Some(id.clone());
                if !self.threads.contains(&id) {
                    self.threads.push(id);
                }
                Ok(())
            }
            Op::Msg { t, len } => {
                let tid = self.tid(*t);
                let content = if *len == 0 {
                    "hi".to_string()
                } else {
                    let seq = self.stream_count(&tid);
                    let tmpl = Event {
                        id: uuid::Uuid::new_v4().to_string(),
                        session_id: tid.clone(),
                        timestamp_ms: 1_790_000_000_000,
                        seq,
                        kind: EventKind::ContinuityMessageAppended { actor_id: "user".into(), origin: "rv".into(), content: String::new() },
                    };
                    let base = serde_json::to_string(&tmpl).unwrap().len() as u64;
                    "x".repeat(len.saturating_sub(base) as usize)
                };
                let mid = self.store.append_message(&tid, "user".into(), "rv".into(), content)?;
                self.returned.push(mid.clone());
                self.last_msg.insert(*t, mid);
                Ok(())
            }
            Op::RunSpawned { t } => {
                let (tid, mid) = self.link(*t);
                self.store.append_run_spawned(&tid, &mid, "sess-run", "user".into(), "rv".into()).map(|id| self.returned.push(id))
            }
            Op::RunEnded { t } => {
                let (tid, mid) = self.link(*t);
                self.store.append_run_ended(&tid, &mid, "sess-run", "done".into(), "user".into(), "rv".into()).map(|id| self.returned.push(id))
            }
            Op::Cursor { t } => {
                let tid = self.tid(*t);
                ripd::verif::append_provider_cursor_updated(
                    &self.store,
                    &tid,
                    "openresponses".into(),
                    Some("http://e".into()),
                    Some("m".into()),
                    Some(json!({"previous_response_id": "r1"})),
                    "set".into(),
                    Some("sess-run".into()),
                    "user".into(),
                    "rv".into(),
                )
                .map(|_| ())
            }
            Op::Selection { t } => {
                let (tid, mid) = self.link(*t);
                ripd::verif::append_context_selection_decided(&self.store, &tid, "sess-run".into(), mid, "recent_messages_v1".into(), vec![], "user".into(), "rv".into()).map(|id| self.returned.push(id))
            }
            Op::Compiled { t } => {
                let (tid, mid) = self.link(*t);
                // the compiled bundle is an artifact the frame names: the run writes it first (here: the harness does)
                let art = format!("rv{}{}", uuid::Uuid::new_v4().simple(), uuid::Uuid::new_v4().simple());
                let blobs = ws_dir(&self.root).join(".rip").join("artifacts").join("blobs");
                std::fs::create_dir_all(&blobs).map_err(|e| e.to_string())?;
                std::fs::write(blobs.join(&art), b"{}").map_err(|e| e.to_string())?;
                ripd::verif::append_context_compiled(&self.store, &tid, "sess-run".into(), art, "recent_messages_v1".into(), 0, Some(mid), "user".into(), "rv".into())
                    .map(|id| self.returned.push(id))
            }
            Op::SideFx { t } => {
                let (tid, mid) = self.link(*t);
                let run = ContinuityRunLink { continuity_id: tid, message_id: mid, actor_id: "user".into(), origin: "rv".into() };
                self.store
                    .append_tool_side_effects(&run, "sess-run", ToolSideEffects { tool_id: "t1".into(), tool_name: "write".into(), affected_paths: Some(vec!["a.txt".into()]), checkpoint_id: None })
                    .map(|_| ())
            }
            Op::Checkpoint { t } => {
                let (tid, mid) = self.link(*t);
                self.store
                    .compaction_checkpoint_cumulative_v1(
                        &tid,
                        CompactionCheckpointCumulativeV1Request {
                            summary_markdown: Some("summary".into()),
                            summary_artifact_id: None,
                            to_message_id: Some(mid),
                            to_seq: None,
                            stride_messages: None,
                            actor_id: "user".into(),
                            origin: "rv".into(),
                        },
                    )
                    .map(|_| ())
            }
            Op::Branch { t } => {
                let tid = self.tid(*t);
                let (child, _, _) = self.store.branch(&tid, Some("b".into()), None, None, "user".into(), "rv".into())?;
                self.threads.push(child);
                Ok(())
            }
            Op::Handoff { t } => {
                let tid = self.tid(*t);
                let (child, _, _) = self.store.handoff(&tid, Some("h".into()), (Some("handoff summary".into()), None), None, None, ("user".into(), "rv".into()))?;
                self.threads.push(child);
                Ok(())
            }
            Op::Sess { s, len, k } => {
                while self.sess_ids.len() <= *s {
                    self.sess_ids.push(uuid::Uuid::new_v4().to_string());
                    self.sess_seq.push(0);
                    self.sess_events.push(vec![]);
                }
                let sid = self.sess_ids[*s].clone();
                let seq = self.sess_seq[*s];
                let kind = |text: String| match *k {
                    1 => EventKind::ToolStdout { tool_id: "t1".into(), chunk: text },
                    2 => EventKind::ToolStderr { tool_id: "t1".into(), chunk: text },
                    3 => EventKind::ToolTaskOutputDelta { task_id: "task1".into(), stream: rip_kernel::ToolTaskStream::Stdout, chunk: text, artifacts: None },
                    _ => EventKind::OutputTextDelta { delta: text },
                };
                let mut ev = Event { id: uuid::Uuid::new_v4().to_string(), session_id: sid, timestamp_ms: 1_790_000_000_000, seq, kind: kind(String::new()) };
                if *len > 0 {
                    let base = serde_json::to_string(&ev).unwrap().len() as u64;
                    ev.kind = kind("y".repeat(len.saturating_sub(base) as usize));
                }
                self.log.append(&ev).map_err(|e| e.to_string())?;
                self.returned.push(ev.id.clone());
                self.sess_seq[*s] += 1;
                self.sess_events[*s].push(ev);
                Ok(())
            }
            Op::Snapshot { s } => {
                let Some(sid) = self.sess_ids.get(*s).cloned() else { return Err("no such stream".into()) };
                let evs = self.sess_events[*s].clone();
                if evs.is_empty() {
                    return Err("nothing to snapshot".into());
                }
                rip_log::write_snapshot(snapshots_dir(&self.root), &sid, &evs).map(|_| ()).map_err(|e| e.to_string())
            }
            Op::DropSideRead { t } => {
                let tid = self.tid(*t);
                let _ = std::fs::remove_file(side_path(&self.root, &tid));
                self.store.replay_events(&tid).map(|_| ()).map_err(|e| e.to_string())
            }
        }
    }
}

// ------------------------------------------------------------------ raw file observation
#[derive(Clone, Debug)]
struct Body {
    stream: String,
    continuity: bool,
    session: bool,
    seq: u64,
    id: String,
    len: u64,
    ok: bool,
    kind: String,
}
/// Every line of a JSONL file as the list of JSON bodies found on it (a concatenated line has two).
fn read_bodies(path: &Path) -> Vec<Vec<Body>> {
    let Ok(bytes) = std::fs::read(path) else { return vec![] };
    split_bodies(&bytes).0
}
fn split_bodies(bytes: &[u8]) -> (Vec<Vec<Body>>, bool) {
    let mut lines = vec![];
    let torn = !bytes.is_empty() && *bytes.last().unwrap() != b'\n';
    let mut parts: Vec<&[u8]> = bytes.split(|b| *b == b'\n').collect();
    if let Some(last) = parts.last() {
        if last.is_empty() {
            parts.pop();
        }
    }
    for p in parts {
        let mut bodies = vec![];
        let text = String::from_utf8_lossy(p).to_string();
        let mut de = serde_json::Deserializer::from_str(&text).into_iter::<serde_json::Value>();
        let mut start = 0usize;
        loop {
            match de.next() {
                None => break,
                Some(Ok(v)) => {
                    let end = de.byte_offset();
                    let kind = v.get("type").and_then(|t| t.as_str()).unwrap_or("").to_string();
                    match serde_json::from_value::<Event>(v) {
                        Ok(e) => bodies.push(Body {
                            stream: e.stream_id().to_string(),
                            continuity: e.stream_kind() == StreamKind::Continuity,
                            session: e.stream_kind() == StreamKind::Session,
                            seq: e.seq,
                            id: e.id.clone(),
                            len: (end - start) as u64,
                            ok: true,
                            kind,
                        }),
                        Err(_) => bodies.push(Body { stream: String::new(), continuity: false, session: false, seq: 0, id: String::new(), len: 0, ok: false, kind: String::new() }),
                    }
                    start = end;
                }
                Some(Err(_)) => {
                    bodies.push(Body { stream: String::new(), continuity: false, session: false, seq: 0, id: String::new(), len: 0, ok: false, kind: String::new() });
                    break;
                }
            }
        }
        lines.push(bodies);
    }
    (lines, torn)
}

struct Ids<'a> {
    threads: &'a [String],
    sess: &'a [String],
    fids: &'a HashMap<String, u64>,
}
impl Ids<'_> {
    fn sid(&self, b: &Body) -> u64 {
        if !b.ok {
            return 7_777_777;
        }
        if b.continuity {
            if let Some(i) = self.threads.iter().position(|t| *t == b.stream) {
                return 2 * i as u64;
            }
        } else if let Some(i) = self.sess.iter().position(|t| *t == b.stream) {
            return 2 * i as u64 + 1;
        }
        8_888_888
    }
    fn fid(&self, b: &Body) -> u64 {
        *self.fids.get(&b.id).unwrap_or(&999_999)
    }
}
fn enc_file(out: &mut Vec<u64>, path: &Path, ids: &Ids) {
    let bytes = std::fs::read(path).unwrap_or_default();
    let (lines, torn) = split_bodies(&bytes);
    out.push(lines.len() as u64);
    for l in &lines {
        out.push(l.len() as u64);
        for b in l {
            out.push(ids.sid(b));
            out.push(b.seq);
            out.push(ids.fid(b));
        }
    }
    out.push(torn as u64);
}
/// index.json / index.json.tmp as the model sees it: present?, default thread + 1 (0 = none), per thread: listed?
/// (a file that does not parse is encoded as 2: the model has no such state)
fn enc_idx(out: &mut Vec<u64>, path: &Path, ids: &Ids, nthreads: usize) {
    let Ok(bytes) = std::fs::read(path) else {
        out.push(0);
        return;
    };
    let Ok(v) = serde_json::from_slice::<serde_json::Value>(&bytes) else {
        out.push(2);
        return;
    };
    out.push(1);
    let dflt = v["workspaces"].as_object().and_then(|m| m.values().next().and_then(|x| x.as_str().map(|x| x.to_string())));
    out.push(match dflt {
        None => 0,
        Some(d) => ids.threads.iter().position(|t| *t == d).map(|i| i as u64 + 1).unwrap_or(9_999_999),
    });
    for t in 0..nthreads {
        let listed = ids.threads.get(t).map(|id| v["continuities"].get(id).is_some()).unwrap_or(false);
        out.push(listed as u64);
    }
}
fn enc_disk(out: &mut Vec<u64>, root: &Path, ids: &Ids, nthreads: usize) {
    enc_file(out, &truth_path(root), ids);
    for t in 0..nthreads {
        let p = ids.threads.get(t).map(|id| side_path(root, id));
        match p {
            Some(p) if p.exists() => {
                out.push(1);
                enc_file(out, &p, ids);
            }
            _ => out.push(0),
        }
    }
    enc_idx(out, &index_json_path(root), ids, nthreads);
    enc_idx(out, &index_json_path(root).with_extension("json.tmp"), ids, nthreads);
    // artifact store: number of complete blobs, number of <id>.tmp files
    let (mut blobs, mut tmps) = (0u64, 0u64);
    for e in std::fs::read_dir(ws_dir(root).join(".rip").join("artifacts").join("blobs")).into_iter().flatten().flatten() {
        let name = e.file_name().to_string_lossy().to_string();
        if name.starts_with("rv") {
            continue; // written by the harness itself (the bundle an Op::Compiled frame names)
        }
        if name.ends_with(".tmp") {
            tmps += 1;
        } else {
            blobs += 1;
        }
    }
    out.push(blobs);
    out.push(tmps);
}

// ------------------------------------------------------------------ reads (C04 comparison on the recovered store)
fn reads(root: &Path, threads: &[String]) -> serde_json::Value {
    let log = Arc::new(EventLog::new(truth_path(root)).expect("log"));
    let store = ContinuityStore::new(data_dir(root), ws_dir(root), log).expect("store");
    let mut out = vec![];
    fn j<T: serde::Serialize>(r: Result<T, String>) -> serde_json::Value {
        match r {
            Ok(v) => serde_json::to_value(v).unwrap(),
            Err(_) => json!({"err": true}),
        }
    }
    for t in threads {
        let ev = store.replay_events(t).map(|v| v.iter().map(|e| (e.seq, e.id.clone())).collect::<Vec<_>>()).map_err(|e| e.to_string());
        out.push(json!({"replay": j(ev)}));
        out.push(json!({"cut": j(store.compaction_cut_points_v1(t, CompactionCutPointsV1Request { stride_messages: Some(2), limit: Some(8) }))}));
        out.push(json!({"status": j(store.compaction_status_v1(t, CompactionStatusV1Request { stride_messages: Some(2) }))}));
        out.push(json!({"cursor": j(store.provider_cursor_status_v1(t, ProviderCursorStatusV1Request {}))}));
        out.push(json!({"sel": j(store.context_selection_status_v1(t, ContextSelectionStatusV1Request { limit: Some(10) }))}));
        out.push(json!({"get": store.get(t).map(|m| (m.continuity_id, m.archived))}));
    }
    json!(out)
}
/// reads with the caches as found vs with `continuity_streams/` removed.  The caches-removed side always runs
/// on a private tree; the as-found side runs on a private tree too, or (in_place: the store is discarded
/// afterwards) on `root` itself.  events.jsonl is shared by hard link: Err = a read path changed its length.
/// One differing read: (thread index, which read, description).
type ReadDiff = (usize, String, String);
fn reads_differ(root: &Path, threads: &[String], scratch: &Path, tag: &str, in_place: bool) -> Result<Vec<ReadDiff>, String> {
    let a = scratch.join(format!("{tag}-a"));
    let b = scratch.join(format!("{tag}-b"));
    let len0 = truth_len(root);
    let t0 = Instant::now();
    if !in_place {
        copy_store(root, &a, CopyMode::ReadsAsFound).unwrap();
    }
    copy_store(root, &b, CopyMode::ReadsNoCaches).unwrap();
    tick(&T_COPY, t0);
    let t0 = Instant::now();
    let ra = reads(if in_place { root } else { &a }, threads);
    let rb = reads(&b, threads);
    tick(&T_READS, t0);
    let t0 = Instant::now();
    let _ = std::fs::remove_dir_all(&a);
    let _ = std::fs::remove_dir_all(&b);
    tick(&T_COPY, t0);
    if truth_len(root) != len0 {
        return Err(format!("a read-only capability changed the length of events.jsonl ({len0} -> {})", truth_len(root)));
    }
    if ra == rb {
        return Ok(vec![]);
    }
    // EVERY differing read is reported and classified on its own (a known finding on one read must not hide another)
    let (xa, xb) = (ra.as_array().unwrap(), rb.as_array().unwrap());
    let mut out = vec![];
    for (i, (p, q)) in xa.iter().zip(xb.iter()).enumerate() {
        if p != q {
            let key = p.as_object().and_then(|o| o.keys().next().cloned()).unwrap_or_default();
            out.push((i / 6, key.clone(), format!("thread#{} {key}: as-found {} vs caches-removed {}", i / 6, trunc(&p.to_string()), trunc(&q.to_string()))));
        }
    }
    if out.is_empty() {
        out.push((usize::MAX, String::new(), "reads differ".into()));
    }
    Ok(out)
}
/// Executable class of a "reads differ with caches as found vs removed" violation.  A class of an OPEN finding is
/// keyed by the file state AND by the fault that produces that state on today's code (the crash window of the
/// in-flight call + whether the thread has had its first append since the restart); a state the unchanged tree
/// does not produce through that fault gets a class of its own and is reported (table in notes/crash4.md):
/// * S3-read `full_sidecar_wellformed_stale_prefix`: the full sidecar is NON-EMPTY, one frame per line, seqs 0..m-1,
///   a proper prefix of the thread's stream lacking ONLY frames of the crashed call; fault = crash of an appending
///   call between its log write and its sidecar write (FULL_WINDOW); only on the store AS FOUND (the thread's first
///   append after the restart re-syncs: /repo 0b0d2b0).  A crash inside rebuild_best_effort no longer leaves a
///   prefix (temp + rename, /repo fb2d1ab).
/// * S4 `derived_sidecar_wellformed_not_projection`: the mr / comp sidecar HOLDS DATA (>= 1 line; a zero-length
///   derived sidecar is a lost one on today's code, /repo e409d9d: rebuilt from the full sidecar), one frame per
///   line, = the projection of the stream minus >= 1 frames of the crashed call only, while the full sidecar is
///   the complete stream; fault = crash after the full-sidecar line is on disk and before that file's own flush.
/// * S4-index `derived_index_wellformed_not_projection`: the full sidecar is the complete stream, every derived
///   sidecar that exists holds data and is the exact projection; fault = crash of a call that appended a frame,
///   after a mr / comp sidecar line is on disk and before its index entries are (INDEX_WINDOW); shows only after
///   follow-up appends have been indexed behind the hole.
/// `key` = which read differs: replay / cursor / selection / get are answered from the full sidecar only; the
/// mr / comp sidecars and the indexes explain differences of the cut-point and compaction-status reads only.
/// `inflight` = ids of the frames the crashed call appended in the live run.
const FULL_WINDOW: &[&str] = &["log.body_written", "log.nl_written", "log.flushed", "cont.logged", "cache.side.opened", "cache.side.body", "cache.side.nl"];
/// after the full-sidecar line can be on disk (a line of BufWriter capacity or more is on disk right after its
/// single write: the window then opens at .body), before the mr sidecar's flush
const MR_WINDOW: &[&str] = &["cache.side.body", "cache.side.nl", "cache.side.flushed", "cache.side.indexed", "cache.mr.opened", "cache.mr.body", "cache.mr.nl"];
/// .. before the comp sidecar's flush (the mr part returns at once for a checkpoint frame)
const COMP_WINDOW: &[&str] = &["cache.side.body", "cache.side.nl", "cache.side.flushed", "cache.side.indexed", "cache.mr.done", "cache.comp.opened", "cache.comp.body", "cache.comp.nl"];
const INDEX_WINDOW: &[&str] = &["cache.mr.body", "cache.mr.nl", "cache.mr.flushed", "cache.mr.seek", "cache.mr.msgidx", "cache.comp.body", "cache.comp.nl", "cache.comp.flushed"];
fn in_index_writer(point: &str) -> bool {
    point.starts_with("msgidx.") || point.starts_with("seekidx.") || point.starts_with("ordidx.") || point.starts_with("compidx.")
}
fn classify_cache_state(root: &Path, id: &str, point: &str, key: &str, inflight: &[String], default: &str) -> String {
    let after_followups = default.ends_with("followups");
    let truth: Vec<Body> = read_bodies(&truth_path(root)).into_iter().flatten().filter(|b| b.ok && b.continuity && b.stream == id).collect();
    let dir = data_dir(root).join("continuity_streams");
    let wellformed = |p: &Path| -> Option<Vec<Body>> {
        if !p.exists() {
            return None;
        }
        let ls = read_bodies(p);
        if ls.iter().any(|l| l.len() != 1 || !l[0].ok || l[0].stream != id) {
            return None;
        }
        Some(ls.into_iter().flatten().collect())
    };
    let full = wellformed(&side_path(root, id));
    let full_complete = full.as_ref().map(|f| f.len() == truth.len() && f.iter().zip(truth.iter()).all(|(a, b)| a.id == b.id && a.seq == b.seq)).unwrap_or(false);
    if let Some(f) = &full {
        let contiguous = f.iter().enumerate().all(|(i, b)| b.seq == i as u64);
        if !f.is_empty() && contiguous && f.len() < truth.len() && f.iter().zip(truth.iter()).all(|(a, b)| a.id == b.id) {
            if !truth[f.len()..].iter().all(|b| inflight.contains(&b.id)) {
                return "full_sidecar_stale_beyond_inflight_frames".into();
            }
            if !FULL_WINDOW.contains(&point) {
                return "full_sidecar_stale_outside_append_window".into();
            }
            if after_followups {
                return "full_sidecar_stale_after_first_append".into();
            }
            return "full_sidecar_wellformed_stale_prefix".into();
        }
    }
    if !matches!(key, "cut" | "status") {
        return default.to_string();
    }
    let proj = |kinds: &[&str]| -> Vec<String> { truth.iter().filter(|b| kinds.contains(&b.kind.as_str())).map(|b| b.id.clone()).collect() };
    for (file, kinds, window, idx_prefixes) in [
        (format!("{id}.mr.v1.jsonl"), &["continuity_message_appended", "continuity_run_ended"][..], MR_WINDOW, &["seekidx.", "msgidx."][..]),
        (format!("{id}.comp.v1.jsonl"), &["continuity_compaction_checkpoint_created"][..], COMP_WINDOW, &["seekidx."][..]),
    ] {
        match wellformed(&dir.join(&file)) {
            Some(m) => {
                let ids: Vec<String> = m.iter().map(|b| b.id.clone()).collect();
                let want = proj(kinds);
                if ids.is_empty() {
                    // today's code never serves a zero-length derived sidecar (it is rebuilt from the full sidecar):
                    // a differing cut-point / status read next to one is not a known finding
                    if !want.is_empty() {
                        return "derived_sidecar_zero_length_served".into();
                    }
                    continue;
                }
                if ids != want {
                    let missing: Vec<&String> = want.iter().filter(|x| !ids.contains(x)).collect();
                    let rest: Vec<String> = want.iter().filter(|x| ids.contains(x)).cloned().collect();
                    if missing.is_empty() || !missing.iter().all(|x| inflight.contains(x)) || rest != ids {
                        return "derived_sidecar_differs_beyond_inflight_frames".into();
                    }
                    if !full_complete {
                        return "derived_sidecar_short_next_to_incomplete_full_sidecar".into();
                    }
                    if !(window.contains(&point) || idx_prefixes.iter().any(|p| point.starts_with(p))) {
                        return "derived_sidecar_short_outside_its_crash_window".into();
                    }
                    return "derived_sidecar_wellformed_not_projection".into();
                }
            }
            // a line that is not one frame (torn by a crash between body and newline, the next append glued on)
            None if dir.join(&file).exists() => return "derived_sidecar_malformed_not_ignored".into(),
            None => {}
        }
    }
    // (the known index finding: an entry of a frame of the crashed call is missing; it shows once follow-up appends
    // have been indexed behind the hole - never on the recovered store as found, never without an in-flight frame)
    if (INDEX_WINDOW.contains(&point) || in_index_writer(point)) && !inflight.is_empty() && after_followups && full_complete {
        return "derived_index_wellformed_not_projection".into();
    }
    default.to_string()
}

/// Artifact ids referenced by frames of the truth log (any key ending in `artifact_id`) that have no blob
/// under <workspace>/.rip/artifacts/blobs: the artifact must be durable before the frame that names it.
fn missing_artifacts(root: &Path) -> Vec<String> {
    fn collect(v: &serde_json::Value, out: &mut Vec<String>) {
        match v {
            serde_json::Value::Object(m) => {
                for (k, x) in m {
                    if k.ends_with("artifact_id") {
                        if let Some(id) = x.as_str() {
                            out.push(id.to_string());
                        }
                    }
                    collect(x, out);
                }
            }
            serde_json::Value::Array(a) => a.iter().for_each(|x| collect(x, out)),
            _ => {}
        }
    }
    let text = std::fs::read_to_string(truth_path(root)).unwrap_or_default();
    let mut ids = vec![];
    for line in text.lines() {
        if let Ok(v) = serde_json::from_str::<serde_json::Value>(line) {
            collect(&v, &mut ids);
        }
    }
    let blobs = ws_dir(root).join(".rip").join("artifacts").join("blobs");
    ids.sort();
    ids.dedup();
    ids.into_iter().filter(|id| !blobs.join(id).is_file()).collect()
}

fn snapshot_oracle(root: &Path, acked: &IdxAck, ctx: &str, violations: &mut Vec<(String, String)>) {
    let dir = snapshots_dir(root);
    let log = EventLog::new(truth_path(root)).expect("log");
    let mut found = vec![];
    for e in std::fs::read_dir(&dir).into_iter().flatten().flatten() {
        let p = e.path();
        let sid = p.file_stem().map(|x| x.to_string_lossy().to_string()).unwrap_or_default();
        if p.extension().map(|x| x == "json").unwrap_or(false) {
            found.push(sid.clone());
        }
        match rip_log::read_snapshot(&p) {
            Err(_) => {
                if acked.snapshots.contains(&sid) {
                    violations.push((format!("{ctx} the snapshot of stream {sid}, whose write had returned Ok, no longer reads"), "acked_snapshot_unreadable_after_crash".into()));
                }
            }
            Ok(_) => {
                if let Err(err) = rip_log::verify_snapshot(&log, &p) {
                    violations.push((format!("{ctx} the snapshot of stream {sid} parses but is not its stream in the log: {err}"), "snapshot_readable_but_not_the_log".into()));
                }
            }
        }
    }
    for sid in &acked.snapshots {
        if !found.contains(sid) {
            violations.push((format!("{ctx} the snapshot of stream {sid}, whose write had returned Ok, is gone"), "acked_snapshot_unreadable_after_crash".into()));
        }
    }
}

fn trunc(s: &str) -> String {
    s.chars().take(160).collect()
}

// ------------------------------------------------------------------ Coq terms
/// Code of a crash point the model has an `IPt` for; 0 = a point inside the derived caches (mr / comp
/// sidecars, seek / message / ordinal / checkpoint indexes, snapshots): checked by the oracle only.
fn point_code(name: &str) -> u64 {
    match name {
        "log.before_lock" => 1,
        "log.locked" => 2,
        "log.body_written" => 3,
        "log.nl_written" => 4,
        "log.flushed" => 5,
        "cont.before_lock" => 11,
        "cont.locked" => 12,
        "cont.logged" => 13,
        "cont.sidecar" => 14,
        "cont.bcast" => 15,
        "cont.advanced" => 16,
        "cont.before_setnext" => 17,
        "cont.setnext" => 18,
        "cont.index_saved" => 19,
        "cache.side.opened" => 21,
        "cache.side.body" => 22,
        "cache.side.nl" => 23,
        "cache.side.flushed" => 24,
        "idx.before_tmp" => 51,
        "idx.tmp_written" => 52,
        "idx.renamed" => 53,
        "art.before_tmp" => 54,
        "art.tmp_written" => 55,
        "art.renamed" => 56,
        "cache.rebuild.created" => 61,
        "cache.rebuild.body" => 62,
        "cache.rebuild.nl" => 63,
        "cache.rebuild.flushed" => 64,
        // not a rip_verif point: the harness snapshots the store right after the capability call returned
        "op.returned" => 99,
        _ => 0,
    }
}

/// One executed op as the model sees it.
#[derive(Clone, Debug)]
struct MOp {
    term: String,
}
fn model_op(op: &Op, lens: &[u64], new_thread: u64, art: u64) -> MOp {
    let l = |i: usize| lens.get(i).cloned().unwrap_or(0);
    let term = match op {
        Op::Ensure => format!("OEnsure {} {}", new_thread, l(0)),
        Op::Msg { t, .. } | Op::RunSpawned { t } | Op::RunEnded { t } | Op::Cursor { t } | Op::SideFx { t } | Op::Selection { t } | Op::Compiled { t } => format!("OAppend {} {}", t, l(0)),
        Op::Sess { s, .. } => format!("OSess {} {}", s, l(0)),
        Op::Checkpoint { t } => format!("OCheckpoint {} {art} {} {}", t, if lens.is_empty() { "false" } else { "true" }, l(0)),
        Op::Branch { t } => format!("OBranch {} {} {} {}", t, new_thread, l(0), l(1)),
        Op::Handoff { t } => format!("OHandoff {} {} {art} {} {}", t, new_thread, l(0), l(1)),
        Op::DropSideRead { t } => format!("ODropRead {}", t),
        // snapshots are not in the model: for the modelled files the op is a no-op (= the read of a thread that does
        // not exist: no sidecar to drop, no stream to rebuild); its crash points are oracle-only
        Op::Snapshot { .. } => "ODropRead 999999".to_string(),
    };
    MOp { term }
}

// ------------------------------------------------------------------ one workload with crash points
/// What had been acknowledged about the thread index (continuities/index.json) when the process died.
#[derive(Clone, Default)]
struct IdxAck {
    /// index.json existed when the in-flight call started (it is only ever replaced: it must still exist and parse)
    existed: bool,
    /// the default thread an acknowledged ensure_default returned
    default: Option<String>,
    /// stream ids whose snapshot had been written by a call that returned Ok
    snapshots: Vec<String>,
}
fn index_json_path(root: &Path) -> PathBuf {
    data_dir(root).join("continuities").join("index.json")
}

struct Snap {
    name: &'static str,
    dir: PathBuf,
    /// the last rip_verif hook point reached before this snapshot in the same call (= `name` for a hook point):
    /// the window a generic `fs.before.*` crash point lies in
    after: &'static str,
    /// generic crash point: the path (relative to the store) of the effect that was about to be issued
    detail: String,
}

struct OpRec {
    op: Op,
    ok: bool,
    lens: Vec<u64>,
    new_thread: u64,
}

struct CaseOut {
    term: String,
    json: serde_json::Value,
    violations: Vec<(String, String)>, // (what, class)
    tag: String,
}

fn supported_by_model(_op: &Op) -> bool {
    true
}

/// Follow-up operations after the restart.  `bulk`: first BULK_FRAMES frames of BULK_LEN bytes on a new session
/// stream (other streams' traffic, > 1 MiB), so that the crashed thread's last frame is far from the end of
/// the log when the thread gets its first append.
const BULK_LEN: u64 = 400_000;
const BULK_FRAMES: usize = 3;
fn followups(nthreads: usize, nsess: usize, bulk: bool) -> Vec<Op> {
    let mut v = vec![];
    if bulk {
        for _ in 0..BULK_FRAMES {
            v.push(Op::Sess { s: nsess, len: BULK_LEN, k: 0 });
        }
    }
    for t in 0..nthreads {
        v.push(Op::Msg { t, len: 0 });
    }
    v.push(Op::Sess { s: nsess, len: 0, k: 0 });
    v.push(Op::Ensure);
    v.push(Op::Msg { t: 0, len: 0 });
    v
}

/// Records which frames an op added to the truth log (ids and line lengths), assigns model frame ids.
fn diff_frames(root: &Path, before_bytes: u64) -> Vec<Body> {
    use std::io::{Read, Seek, SeekFrom};
    let mut tail = vec![];
    if let Ok(mut f) = std::fs::File::open(truth_path(root)) {
        let len = f.metadata().map(|m| m.len()).unwrap_or(0);
        if f.seek(SeekFrom::Start(before_bytes.min(len))).is_ok() {
            let _ = f.read_to_end(&mut tail);
        }
    }
    split_bodies(&tail).0.into_iter().flatten().collect()
}
fn truth_len(root: &Path) -> u64 {
    std::fs::metadata(truth_path(root)).map(|m| m.len()).unwrap_or(0)
}

/// `bulk`: every crash point is restarted a second time (from a second copy of the snapshot) with the
/// bulk-traffic-first follow-ups.
/// Workloads run on several threads (each with its own scratch tree); the crash recorder is one global hook
/// that snapshots the store of the workload running on the CURRENT thread (points are only delivered to the
/// thread that armed the recorder, i.e. the one executing the capability call).
struct RecCtx {
    root: PathBuf,
    scratch: PathBuf,
    snaps: Vec<Snap>,
    last_hook: &'static str,
    nfs: usize,
}
thread_local! {
    static REC: std::cell::RefCell<Option<RecCtx>> = const { std::cell::RefCell::new(None) };
}
fn install_recorder() {
    CrashRec::install(move |name, k| {
        CrashRec::arm(false);
        let was = fsx::armed();
        fsx::arm(false);
        REC.with(|c| {
            if let Some(ctx) = c.borrow_mut().as_mut() {
                let dir = ctx.scratch.join(format!("snap-{k}"));
                let _ = std::fs::remove_dir_all(&dir);
                let t0 = Instant::now();
                copy_store(&ctx.root, &dir, CopyMode::Full).expect("snapshot copy");
                tick(&T_SNAP, t0);
                ctx.last_hook = name;
                ctx.snaps.push(Snap { name, dir, after: name, detail: String::new() });
            }
        });
        if was {
            fsx::arm(true); // (also: no effect since this snapshot)
        }
        CrashRec::arm(true);
    });
    // generic crash points (fsx): the store as it is right before an effect that follows another effect with no
    // hook point in between
    let _ = fsx::HANDLER.set(Box::new(|name, rel| {
        REC.with(|c| {
            if let Some(ctx) = c.borrow_mut().as_mut() {
                let dir = ctx.scratch.join(format!("snap-fs-{}", ctx.nfs));
                ctx.nfs += 1;
                let _ = std::fs::remove_dir_all(&dir);
                let t0 = Instant::now();
                copy_store(&ctx.root, &dir, CopyMode::Full).expect("snapshot copy");
                tick(&T_SNAP, t0);
                ctx.snaps.push(Snap { name, dir, after: ctx.last_hook, detail: rel });
            }
        });
    }));
}
/// arm / disarm both recorders around a capability call of a workload
fn arm_all(on: bool) {
    CrashRec::arm(on);
    fsx::arm(on);
}
fn run_workload(ops: &[Op], scratch: &Path, wl_json: serde_json::Value, with_model: bool, bulk: bool, sweep: bool, bumps: &mut Vec<String>) -> Vec<CaseOut> {
    std::fs::create_dir_all(scratch).expect("scratch");
    let t_wl = Instant::now();
    let root = scratch.join("live");
    let _ = std::fs::remove_dir_all(&root);
    let mut w = World::open(&root, vec![], BTreeMap::new(), vec![]);
    REC.with(|c| *c.borrow_mut() = Some(RecCtx { root: root.clone(), scratch: scratch.to_path_buf(), snaps: vec![], last_hook: "op.start", nfs: 0 }));
    fsx::set_root(&root);
    let mut fids: HashMap<String, u64> = HashMap::new();
    let mut recs: Vec<OpRec> = vec![];
    let mut acked: Vec<String> = vec![]; // frame ids of ops that returned Ok
    let mut snaps_acked: Vec<String> = vec![];
    let mut out = vec![];
    let mut point_ordinal = 0usize;
    let mut seen_states: HashSet<u64> = HashSet::new();
    for (i, op) in ops.iter().enumerate() {
        if matches!(op, Op::Ensure | Op::Branch { .. } | Op::Handoff { .. }) {
            std::thread::sleep(std::time::Duration::from_millis(2)); // distinct created_at timestamps
        }
        let before = truth_len(&root);
        let threads_before = w.threads.len();
        let idx_before = IdxAck { existed: index_json_path(&root).exists(), default: w.ensured.clone(), snapshots: snaps_acked.clone() };
        REC.with(|c| c.borrow_mut().as_mut().unwrap().last_hook = "op.start");
        arm_all(true);
        let r = w.exec(op);
        arm_all(false);
        if let (Op::Snapshot { s }, Ok(())) = (op, &r) {
            snaps_acked.push(w.sess_ids[*s].clone());
        }
        let idx_after = IdxAck { existed: index_json_path(&root).exists(), default: if r.is_ok() { w.ensured.clone() } else { idx_before.default.clone() }, snapshots: snaps_acked.clone() };
        let frames = diff_frames(&root, before);
        for (j, b) in frames.iter().enumerate() {
            fids.insert(b.id.clone(), 4 * i as u64 + j as u64);
        }
        let rec = OpRec { op: op.clone(), ok: r.is_ok(), lens: frames.iter().map(|b| b.len).collect(), new_thread: threads_before as u64 };
        bumps.push(format!("op={}", format!("{:?}", op).split(|c| c == ' ' || c == '{').next().unwrap_or("")));
        if !rec.ok {
            bumps.push("op-returned-err".into());
        }
        recs.push(rec);
        // analyse the crash points of this op (ids of its frames are known now)
        let taken: Vec<Snap> = REC.with(|c| std::mem::take(&mut c.borrow_mut().as_mut().unwrap().snaps));
        let mut mine: Vec<(Snap, usize)> = taken.into_iter().map(|s| (s, threads_before)).collect();
        // one more crash point: right after the capability call returned (its acknowledgements count)
        {
            let dir = scratch.join("snap-ret");
            let _ = std::fs::remove_dir_all(&dir);
            let t0 = Instant::now();
            copy_store(&root, &dir, CopyMode::Full).expect("snapshot copy");
            tick(&T_SNAP, t0);
            mine.push((Snap { name: "op.returned", dir, after: "op.returned", detail: String::new() }, w.threads.len()));
        }
        let mut acked_now = acked.clone();
        if r.is_ok() {
            acked_now.extend(frames.iter().map(|b| b.id.clone()));
            for id in &w.returned {
                if !acked_now.contains(id) {
                    acked_now.push(id.clone());
                }
            }
        }
        for (s, threads_acked) in mine {
            // the snapshot is restarted AT THE PATH OF THE LIVE STORE (the workspace path is the key of
            // index.json and of continuity_created frames): park the live tree, move the snapshot in
            let parked = scratch.join("parked");
            let second = scratch.join("snap-bulk");
            std::fs::rename(&root, &parked).expect("park live store");
            std::fs::rename(&s.dir, &root).expect("move snapshot in");
            // ---- every kind of first append, once per distinct recovered store of this workload
            if sweep && seen_states.insert(state_hash(&root)) {
                let t0 = Instant::now();
                let pristine = scratch.join("snap-pristine");
                let _ = std::fs::remove_dir_all(&pristine);
                std::fs::rename(&root, &pristine).expect("keep the snapshot");
                let acks = if s.name == "op.returned" { &acked_now } else { &acked };
                bumps.push("first-append-sweep-stores".into());
                let last_msg = last_msgs_in_log(&pristine, &w.threads);
                for (n, kind) in FIRST_KINDS.into_iter().enumerate() {
                    let tc = Instant::now();
                    if n == 0 {
                        copy_store(&pristine, &root, CopyMode::Full).expect("sweep copy");
                    } else {
                        reset_store(&pristine, &root).expect("sweep reset");
                    }
                    tick(&T_SWEEP_COPY, tc);
                    let ctx = format!("after a crash at {} (op {i}, after {}) and restart", s.name, s.after);
                    let vs = first_append_restart(&root, kind, &w, &last_msg, threads_acked, acks, &ctx, bumps);
                    if !vs.is_empty() {
                        let cj = json!({"workload": wl_json, "crash_op": i, "crash_point": s.name, "after_point": s.after, "before_effect_on": s.detail, "point_ordinal": point_ordinal, "bulk_first": false,
                            "first_append_kind_on_every_thread": format!("{kind:?}"), "then": "a message on every thread; oracle: streams 0,1,2,.., replay_validated, acknowledged frames once, replay_events = log"});
                        out.push(CaseOut { term: String::new(), json: cj, violations: vs, tag: format!("first={kind:?}@{}", s.name) });
                    }
                }
                let tc = Instant::now();
                let _ = std::fs::remove_dir_all(&root);
                tick(&T_SWEEP_COPY, tc);
                std::fs::rename(&pristine, &root).expect("snapshot back");
                tick(&T_SWEEP, t0);
            }
            if bulk {
                let t0 = Instant::now();
                let _ = std::fs::remove_dir_all(&second);
                copy_store(&root, &second, CopyMode::Full).expect("second snapshot copy");
                tick(&T_SNAP, t0);
            }
            let modelled = point_code(s.name) != 0;
            let acks = if s.name == "op.returned" { &acked_now } else { &acked };
            let idx = if s.name == "op.returned" { idx_after.clone() } else { idx_before.clone() };
            let c = analyse(&s, &root, i, point_ordinal, &w, &recs, acks, &fids, ops, scratch, &wl_json, with_model && modelled, threads_acked, false, &idx);
            out.push(c);
            let _ = std::fs::remove_dir_all(&root);
            if bulk {
                std::fs::rename(&second, &root).expect("move second snapshot in");
                let c = analyse(&s, &root, i, point_ordinal, &w, &recs, acks, &fids, ops, scratch, &wl_json, with_model && modelled, threads_acked, true, &idx);
                out.push(c);
                let _ = std::fs::remove_dir_all(&root);
            }
            if modelled {
                point_ordinal += 1;
            }
            std::fs::rename(&parked, &root).expect("unpark live store");
        }
        acked = acked_now;
    }
    REC.with(|c| *c.borrow_mut() = None);
    drop(w);
    let _ = std::fs::remove_dir_all(scratch);
    if std::env::var("RV_C05_TIMES").is_ok() {
        eprintln!("c05 workload {}: {} ops, {} cases, {} distinct stores, {} ms", wl_json["index"], ops.len(), out.len(), seen_states.len(), t_wl.elapsed().as_millis());
    }
    out
}

#[allow(clippy::too_many_arguments)]
fn analyse(
    s: &Snap,
    root: &Path,
    op_index: usize,
    point_ordinal: usize,
    w: &World,
    recs: &[OpRec],
    acked: &[String],
    fids: &HashMap<String, u64>,
    ops: &[Op],
    scratch: &Path,
    wl_json: &serde_json::Value,
    with_model: bool,
    threads_acked: usize,
    bulk: bool,
    idx: &IdxAck,
) -> CaseOut {
    let mut violations: Vec<(String, String)> = vec![];
    // the window of hook points a generic crash point lies in (classification of the known cache findings)
    let win: &str = if s.name.starts_with("fs.") { s.after } else { s.name };
    let threads0 = w.threads.clone();
    let nthreads0 = threads0.len();
    let mut fids = fids.clone();
    // ---- disk at the crash point
    let mut obs = vec![point_code(s.name)];
    {
        let ids = Ids { threads: &threads0, sess: &w.sess_ids, fids: &fids };
        enc_disk(&mut obs, root, &ids, nthreads0);
    }
    // facts used to classify a violation (executable class)
    let inflight_stream = match &ops[op_index] {
        Op::Msg { t, .. } | Op::RunSpawned { t } | Op::RunEnded { t } | Op::Cursor { t } | Op::SideFx { t } | Op::Selection { t } | Op::Compiled { t } | Op::Checkpoint { t } => threads0.get(*t).cloned(),
        Op::Branch { .. } | Op::Handoff { .. } => threads0.last().cloned(),
        _ => None,
    };
    // ids of the frames the in-flight call appended in the live run (frame identity 4 * op index + j)
    let inflight_ids: Vec<String> = fids.iter().filter(|(_, f)| **f / 4 == op_index as u64).map(|(id, _)| id.clone()).collect();
    let truth_snap = read_bodies(&truth_path(root));
    let stale_window = inflight_stream.as_ref().map(|x| {
        let n = truth_snap.iter().flatten().filter(|b| b.continuity && b.stream == *x).count();
        let sp = side_path(root, x);
        let m = read_bodies(&sp).iter().flatten().count();
        sp.exists() && m >= 1 && n == m + 1 && matches!(win, "log.body_written" | "log.nl_written" | "log.flushed" | "cont.logged" | "cache.side.opened" | "cache.side.body" | "cache.side.nl")
    });
    let torn_at_snap = std::fs::read(truth_path(root)).map(|b| !b.is_empty() && *b.last().unwrap() != b'\n').unwrap_or(false);
    // class of a numbering / duplicate / replay violation
    let classify = |streams: &[String], default: &str| -> String {
        if torn_at_snap {
            return "crash_between_truth_body_and_newline".into();
        }
        if stale_window == Some(true) && !streams.is_empty() && streams.iter().all(|x| Some(x) == inflight_stream.as_ref()) {
            return "crash_between_truth_flush_and_sidecar_append".into();
        }
        default.to_string()
    };
    // ---- artifact before frame: every artifact a frame of the recovered log names is on disk
    let miss = missing_artifacts(root);
    if !miss.is_empty() {
        violations.push((format!("after a crash at {} (op {op_index}) the log holds frame(s) naming {} artifact(s) that are not on disk (first {})", s.name, miss.len(), miss[0]), "frame_references_missing_artifact".into()));
    }
    // ---- the thread index: temp + rename means a crash leaves the old or the new index.json, never none / half a
    // file; every thread whose creation had been acknowledged is still listed by a restarted store
    {
        let p = index_json_path(root);
        let parsed = std::fs::read(&p).ok().map(|b| serde_json::from_slice::<serde_json::Value>(&b).is_ok());
        match parsed {
            None if idx.existed => violations.push((
                format!("after a crash at {} (op {op_index}, after {}, before the effect on {:?}) continuities/index.json is gone: it existed before the call", s.name, s.after, s.detail),
                "index_json_lost_by_crash".into(),
            )),
            Some(false) => violations.push((format!("after a crash at {} (op {op_index}) continuities/index.json does not parse", s.name), "index_json_torn_by_crash".into())),
            _ => {}
        }
        let log = Arc::new(EventLog::new(truth_path(root)).expect("log"));
        let store = ContinuityStore::new(data_dir(root), ws_dir(root), log).expect("store");
        let listed: Vec<String> = store.list().into_iter().map(|m| m.continuity_id).collect();
        let lost: Vec<usize> = (0..threads_acked.min(threads0.len())).filter(|t| !listed.contains(&threads0[*t]) || store.get(&threads0[*t]).is_none()).collect();
        if !lost.is_empty() {
            violations.push((
                format!("after a crash at {} (op {op_index}, after {}) and restart, list() / get() no longer know thread(s) {:?} whose creation had been acknowledged ({} listed)", s.name, s.after, lost, listed.len()),
                "acked_thread_not_listed_after_restart".into(),
            ));
        }
    }
    // ---- snapshots: what a restarted authority finds under snapshots/ is either unreadable (read_snapshot fails: the
    // readers fall back to the log - allowed only for a snapshot whose write had not returned) or equal to its
    // stream in the log (verify_snapshot)
    snapshot_oracle(root, idx, &format!("after a crash at {} (op {op_index}, after {})", s.name, s.after), &mut violations);
    // ---- reads on the recovered store before any further write
    // (the bulk variant restarts the same on-disk state: its first reads would repeat those of the plain variant)
    let r0 = if bulk { Ok(vec![]) } else { reads_differ(root, &threads0, scratch, "r0", false) };
    if let Err(e) = &r0 {
        violations.push((format!("after restart at {} (op {op_index}): {e}", s.name), "read_wrote_truth_log".into()));
    }
    for (t, key, d) in r0.unwrap_or_default() {
        let class = match threads0.get(t) {
            Some(id) => classify_cache_state(root, id, win, &key, &inflight_ids, "reads_differ_after_restart"),
            None => "reads_differ_after_restart".into(),
        };
        violations.push((format!("after restart at {} (op {op_index}): {d}", s.name), class));
    }
    // ---- restart + follow-up operations
    let fids_before: HashSet<String> = truth_snap.iter().flatten().filter(|b| b.ok).map(|b| b.id.clone()).collect();
    let more = followups(nthreads0, w.sess_ids.len(), bulk);
    let t_follow = Instant::now();
    let mut w2 = World::open(root, threads0.clone(), w.last_msg.clone(), w.sess_ids.clone());
    let mut more_recs: Vec<OpRec> = vec![];
    let mut acked2: Vec<String> = acked.to_vec();
    let nprim = ops.len();
    for (j, op) in more.iter().enumerate() {
        let before = truth_len(root);
        let tb = w2.threads.len();
        let r = std::panic::catch_unwind(std::panic::AssertUnwindSafe(|| w2.exec(op)));
        let r = match r {
            Ok(r) => r,
            Err(_) => {
                violations.push((format!("follow-up {:?} panicked after a crash at {}", op, s.name), "panic".into()));
                Err("panic".into())
            }
        };
        // availability: ensure_default, and an append to a thread whose creation had been acknowledged before the
        // crash or that ensure_default has just returned, must not be refused
        let must_succeed = match op {
            Op::Ensure => true,
            Op::Msg { t, .. } => *t < threads_acked || w2.ensured.as_deref() == Some(w2.tid(*t).as_str()),
            _ => false,
        };
        if let (Op::Ensure, Ok(()), Some(d)) = (op, &r, &idx.default) {
            if w2.ensured.as_ref() != Some(d) {
                violations.push((
                    format!(
                        "after a crash at {} (op {op_index}, after {}) and restart ensure_default returns thread {:?}, the acknowledged default was thread {:?}",
                        s.name,
                        s.after,
                        w2.ensured.as_ref().and_then(|x| w2.threads.iter().position(|t| t == x)),
                        threads0.iter().position(|t| t == d)
                    ),
                    "default_thread_changed_after_crash".into(),
                ));
            }
        }
        if must_succeed && r.is_err() {
            violations.push((
                format!("after a crash at {} (op {op_index}) and restart the follow-up {:?} was refused: {}", s.name, op, r.as_ref().err().unwrap()),
                classify(&[], "followup_refused"),
            ));
        }
        let frames = diff_frames(root, before);
        for (k, b) in frames.iter().enumerate() {
            if b.ok {
                fids.entry(b.id.clone()).or_insert(4 * (nprim + j) as u64 + k as u64);
            }
        }
        if r.is_ok() {
            acked2.extend(frames.iter().filter(|b| b.ok).map(|b| b.id.clone()));
            for id in &w2.returned {
                if !acked2.contains(id) {
                    acked2.push(id.clone());
                }
            }
            // numbering continues: the new frame's seq is the number of earlier frames of its stream
            let all: Vec<Body> = read_bodies(&truth_path(root)).into_iter().flatten().collect();
            for b in frames.iter().filter(|b| b.ok) {
                let pos = all.iter().position(|x| x.id == b.id).unwrap_or(0);
                let earlier = all[..pos].iter().filter(|x| x.ok && x.stream == b.stream && x.continuity == b.continuity && x.session == b.session).count() as u64;
                if b.seq != earlier {
                    violations.push((
                        format!("after a crash at {} (op {op_index}) the follow-up {:?} was numbered {} but the stream already holds {} frames", s.name, op, b.seq, earlier),
                        classify(&[b.stream.clone()], "numbering_does_not_continue"),
                    ));
                }
            }
        }
        more_recs.push(OpRec { op: op.clone(), ok: r.is_ok(), lens: frames.iter().map(|b| b.len).collect(), new_thread: tb as u64 });
    }
    let threads1 = w2.threads.clone();
    let sess1 = w2.sess_ids.clone();
    drop(w2);
    tick(&T_FOLLOW, t_follow);
    let t_oracle = Instant::now();
    // ---- oracle on the final store
    let fresh = EventLog::new(truth_path(root)).expect("log");
    let lines = read_bodies(&truth_path(root));
    let mut bad_lines = 0;
    let mut counters: HashMap<(bool, bool, String), u64> = HashMap::new();
    let mut bad_streams: Vec<String> = vec![];
    for l in &lines {
        if l.len() != 1 || !l[0].ok {
            bad_lines += 1;
            continue;
        }
        let b = &l[0];
        let e = counters.entry((b.continuity, b.session, b.stream.clone())).or_insert(0);
        if b.seq != *e {
            if !bad_streams.contains(&b.stream) {
                bad_streams.push(b.stream.clone());
            }
        } else {
            *e += 1;
        }
    }
    let replay = fresh.replay_validated();
    if bad_lines > 0 {
        violations.push((format!("after a crash at {} (op {op_index}) and restart, events.jsonl holds {bad_lines} line(s) that are not one frame", s.name), classify(&[], "unparseable_truth_line")));
    }
    if !bad_streams.is_empty() {
        violations.push((
            format!("after a crash at {} (op {op_index}), restart and follow-up appends, stream(s) {:?} are not 0,1,2,..", s.name, bad_streams.iter().map(|x| threads1.iter().position(|t| t == x)).collect::<Vec<_>>()),
            classify(&bad_streams, "stream_not_gap_free"),
        ));
    }
    if replay.is_err() && bad_lines == 0 && bad_streams.is_empty() {
        violations.push((format!("replay_validated fails after a crash at {}: {}", s.name, replay.as_ref().err().unwrap()), "replay_fails".into()));
    }
    if replay.is_ok() && (bad_lines > 0 || !bad_streams.is_empty()) {
        violations.push(("replay_validated accepts a store the line-level oracle rejects".into(), "validator_disagrees".into()));
    }
    let flat: Vec<&Body> = lines.iter().flatten().collect();
    for id in &acked2 {
        let n = flat.iter().filter(|b| b.id == *id).count();
        if n != 1 {
            violations.push((format!("acknowledged frame {} occurs {n} times after a crash at {} (op {op_index})", fids.get(id).cloned().unwrap_or(0), s.name), classify(&[], "acked_not_exactly_once")));
        }
    }
    snapshot_oracle(root, idx, &format!("after a crash at {} (op {op_index}), restart and follow-ups", s.name), &mut violations);
    // ---- the first append after a restart reconciles the thread's full sidecar with the log (load_next_seq_for, /repo
    // 0b0d2b0): after the follow-ups the sidecar of every thread that got an append IS the thread's stream
    for (t, id) in threads1.iter().enumerate() {
        if !flat.iter().any(|b| b.ok && b.continuity && b.stream == *id && !fids_before.contains(&b.id)) {
            continue;
        }
        let want: Vec<(u64, &str)> = flat.iter().filter(|b| b.ok && b.continuity && b.stream == *id).map(|b| (b.seq, b.id.as_str())).collect();
        let side = read_bodies(&side_path(root, id));
        let have: Vec<(u64, &str)> = side.iter().flatten().map(|b| (b.seq, b.id.as_str())).collect();
        if have != want && bad_lines == 0 && bad_streams.is_empty() {
            violations.push((
                format!(
                    "after a crash at {} (op {op_index}), restart and follow-up appends the full sidecar of thread#{t} is not the thread's stream in the log (sidecar seqs {:?}, log holds {} frames): the restart's first append did not reconcile it",
                    s.name,
                    have.iter().map(|x| x.0).collect::<Vec<_>>(),
                    want.len()
                ),
                "first_append_leaves_full_sidecar_off_the_log".into(),
            ));
        }
    }
    // ---- model case
    for r in &more_recs {
        obs.push(r.ok as u64);
    }
    {
        let ids = Ids { threads: &threads1, sess: &sess1, fids: &fids };
        enc_disk(&mut obs, root, &ids, threads1.len());
    }
    obs.push((replay.is_ok()) as u64);
    tick(&T_ORACLE, t_oracle);
    // ---- reads after the follow-ups (on private trees: the classifier below looks at the caches as the follow-ups left them)
    let r1 = reads_differ(root, &threads1, scratch, "r1", false);
    if let Err(e) = &r1 {
        violations.push((format!("after crash at {} (op {op_index}), restart and follow-ups: {e}", s.name), "read_wrote_truth_log".into()));
    }
    for (t, key, d) in r1.unwrap_or_default() {
        let class = match threads1.get(t) {
            Some(id) => classify_cache_state(root, id, win, &key, &inflight_ids, "reads_differ_after_followups"),
            None => "reads_differ_after_followups".into(),
        };
        violations.push((format!("after crash at {} (op {op_index}), restart and follow-ups: {d}", s.name), class));
    }
    let modelled = with_model && ops.iter().all(supported_by_model);
    let _ = torn_at_snap;
    // (the artifact an op writes is named after the op's index: unique, as the fresh ids of the implementation)
    let hist: Vec<String> = recs.iter().enumerate().map(|(i, r)| model_op(&r.op, &r.lens, r.new_thread, i as u64).term).collect();
    // ops of the workload that have not run yet are irrelevant to the crash point: the model gets hist = ops up to and including the in-flight one
    let more_t: Vec<String> = more_recs.iter().enumerate().map(|(j, r)| model_op(&r.op, &r.lens, r.new_thread, (nprim + j) as u64).term).collect();
    let term = if modelled {
        format!(
            "{{| c_hist := [{}]; c_more_base := {}; c_point := {}%nat; c_more := [{}]; c_nthreads0 := {}%nat; c_nthreads1 := {}%nat; c_expect := {} |}}",
            hist.join("; "),
            nprim,
            point_ordinal,
            more_t.join("; "),
            nthreads0,
            threads1.len(),
            coq_list_n(&obs)
        )
    } else {
        String::new()
    };
    let cj = json!({"workload": wl_json, "crash_op": op_index, "crash_point": s.name, "after_point": s.after, "before_effect_on": s.detail, "point_ordinal": point_ordinal, "bulk_first": bulk,
        "followups": more.iter().map(op_json).collect::<Vec<_>>(), "followup_ok": more_recs.iter().map(|r| r.ok).collect::<Vec<_>>(),
        "replay_validated_ok": replay.is_ok()});
    CaseOut { term, json: cj, violations, tag: format!("{}@{:?}", s.name, ops[op_index]).chars().take(60).collect() }
}

// ------------------------------------------------------------------ EVERY kind of first append after the restart
/// A restart forgets every in-memory counter: the FIRST append of each writer on a thread has to find its seq
/// on disk, and every writer has its own code for that.  So each distinct recovered store is restarted once per
/// kind of writer, with that kind as the first append on EVERY thread (then a message on every thread: the counter
/// the cold start cached must be right, too).  Oracle-only (no model case): every line one frame, every stream
/// 0,1,2,.. in file order, replay_validated passes, every acknowledged frame exactly once, replay_events of a
/// fresh store = the log's stream for every thread that got an append.
#[derive(Clone, Copy, Debug, PartialEq)]
#[allow(dead_code)]
enum First {
    RunSpawned,
    RunEnded,
    SideFx,
    Selection,
    Compiled,
    Cursor,
    /// provider_cursor_rotate_v1 (appends when the thread has a cursor)
    Rotate,
    /// compaction_checkpoint_cumulative_v1 at the newest message the store knows (stride 1)
    Checkpoint,
    /// compaction_auto_v1 (job_spawned, checkpoint_created, job_ended)
    Auto,
    /// compaction_auto_schedule_v1 with execute (schedule_decided first)
    Schedule,
    Branch,
    Handoff,
    /// (the primary follow-ups already start with a message on every thread; kept so the sweep is self-contained)
    Msg,
}
const FIRST_KINDS: [First; 12] = [
    First::Checkpoint,
    First::Auto,
    First::Schedule,
    First::Rotate,
    First::RunSpawned,
    First::RunEnded,
    First::SideFx,
    First::Selection,
    First::Compiled,
    First::Cursor,
    First::Branch,
    First::Handoff,
    // (First::Msg: the primary follow-ups of every crash point start with a message on every thread)
];
impl First {
    /// plain locked appends: never refused on a thread whose creation had been acknowledged
    fn plain(self) -> bool {
        matches!(self, First::Msg | First::RunSpawned | First::RunEnded | First::SideFx | First::Selection | First::Compiled | First::Cursor)
    }
}
impl World {
    fn exec_first(&mut self, k: First, t: usize) -> Result<(), String> {
        let tid = self.tid(t);
        match k {
            First::Msg => self.exec(&Op::Msg { t, len: 0 }),
            First::RunSpawned => self.exec(&Op::RunSpawned { t }),
            First::RunEnded => self.exec(&Op::RunEnded { t }),
            First::SideFx => self.exec(&Op::SideFx { t }),
            First::Selection => self.exec(&Op::Selection { t }),
            First::Compiled => self.exec(&Op::Compiled { t }),
            First::Cursor => self.exec(&Op::Cursor { t }),
            First::Branch => self.exec(&Op::Branch { t }),
            First::Handoff => self.exec(&Op::Handoff { t }),
            First::Rotate => {
                self.returned.clear();
                self.store
                    .provider_cursor_rotate_v1(&tid, ProviderCursorRotateV1Request { provider: None, endpoint: None, model: None, reason: Some("rv".into()), actor_id: "user".into(), origin: "rv".into() })
                    .map(|_| ())
            }
            First::Checkpoint => {
                self.returned.clear();
                self.store
                    .compaction_checkpoint_cumulative_v1(
                        &tid,
                        CompactionCheckpointCumulativeV1Request {
                            summary_markdown: Some("summary".into()),
                            summary_artifact_id: None,
                            to_message_id: None,
                            to_seq: None,
                            stride_messages: Some(1),
                            actor_id: "user".into(),
                            origin: "rv".into(),
                        },
                    )
                    .map(|_| ())
            }
            First::Auto => {
                self.returned.clear();
                self.store
                    .compaction_auto_v1(&tid, CompactionAutoV1Request { stride_messages: Some(1), max_new_checkpoints: Some(1), dry_run: Some(false), actor_id: "user".into(), origin: "rv".into() })
                    .and_then(|r| if r.status == "failed" { Err(format!("auto compaction failed: {:?}", r.error)) } else { Ok(()) })
            }
            First::Schedule => {
                self.returned.clear();
                self.store
                    .compaction_auto_schedule_v1(
                        &tid,
                        CompactionAutoScheduleV1Request {
                            stride_messages: Some(1),
                            max_new_checkpoints: Some(1),
                            block_on_inflight: Some(false),
                            execute: Some(true),
                            dry_run: Some(false),
                            actor_id: "user".into(),
                            origin: "rv".into(),
                        },
                    )
                    .and_then(|r| if r.decision == "failed" { Err(format!("scheduled compaction failed: {:?}", r.error)) } else { Ok(()) })
            }
        }
    }
}
/// content hash of a store (relative path + bytes of every file): two crash points with the same hash are the same
/// recovered store
fn state_hash(root: &Path) -> u64 {
    use std::hash::{Hash, Hasher};
    fn walk(dir: &Path, rel: &Path, out: &mut Vec<(PathBuf, PathBuf)>) {
        for e in std::fs::read_dir(dir).into_iter().flatten().flatten() {
            let r = rel.join(e.file_name());
            match e.file_type() {
                Ok(ft) if ft.is_dir() => walk(&e.path(), &r, out),
                Ok(ft) if ft.is_file() => out.push((r, e.path())),
                _ => {}
            }
        }
    }
    let mut files = vec![];
    walk(root, Path::new(""), &mut files);
    files.sort();
    let mut h = std::collections::hash_map::DefaultHasher::new();
    for (r, p) in files {
        r.hash(&mut h);
        std::fs::read(&p).unwrap_or_default().hash(&mut h);
    }
    h.finish()
}
/// the newest message of every thread AS THE LOG OF THIS STORE HAS IT (the live run's `last_msg` may name a message
/// the crash lost)
fn last_msgs_in_log(root: &Path, threads: &[String]) -> BTreeMap<usize, String> {
    let mut m = BTreeMap::new();
    for b in read_bodies(&truth_path(root)).into_iter().flatten() {
        if b.ok && b.continuity && b.kind == "continuity_message_appended" {
            if let Some(t) = threads.iter().position(|x| *x == b.stream) {
                m.insert(t, b.id.clone());
            }
        }
    }
    m
}
static T_SWEEP: AtomicU64 = AtomicU64::new(0);
static T_SWEEP_COPY: AtomicU64 = AtomicU64::new(0);
static T_SWEEP_EXEC: AtomicU64 = AtomicU64::new(0);
/// One restart of the store at `root` with `kind` as the first append on every thread.  (what, class) per violation.
#[allow(clippy::too_many_arguments)]
fn first_append_restart(root: &Path, kind: First, w: &World, last_msg: &BTreeMap<usize, String>, threads_acked: usize, acked: &[String], ctx: &str, bumps: &mut Vec<String>) -> Vec<(String, String)> {
    let mut violations: Vec<(String, String)> = vec![];
    let threads0 = w.threads.clone();
    let te = Instant::now();
    let mut w2 = World::open(root, threads0.clone(), last_msg.clone(), w.sess_ids.clone());
    let mut acked2: Vec<String> = acked.to_vec();
    let mut appended: HashSet<String> = HashSet::new();
    let mut any = false;
    let mut step = |w2: &mut World, label: String, must: bool, f: &mut dyn FnMut(&mut World) -> Result<(), String>, violations: &mut Vec<(String, String)>| {
        let before = truth_len(root);
        let r = std::panic::catch_unwind(std::panic::AssertUnwindSafe(|| f(w2)));
        let r = match r {
            Ok(r) => r,
            Err(_) => {
                violations.push((format!("{ctx}: {label} panicked"), "panic".into()));
                Err("panic".into())
            }
        };
        if must && r.is_err() {
            violations.push((format!("{ctx}: {label} on a thread whose creation had been acknowledged was refused: {}", r.as_ref().err().unwrap()), "first_append_refused".into()));
        }
        let frames = diff_frames(root, before);
        for b in frames.iter().filter(|b| b.ok) {
            appended.insert(b.stream.clone());
        }
        if r.is_ok() {
            acked2.extend(frames.iter().filter(|b| b.ok).map(|b| b.id.clone()));
            for id in &w2.returned {
                if !acked2.contains(id) {
                    acked2.push(id.clone());
                }
            }
        }
        !frames.is_empty()
    };
    for t in 0..threads0.len() {
        let must = kind.plain() && t < threads_acked;
        any |= step(&mut w2, format!("first append {kind:?} on thread#{t}"), must, &mut |w2| w2.exec_first(kind, t), &mut violations);
    }
    // the counters the cold starts cached are used now (children of Branch / Handoff included)
    for t in 0..w2.threads.len() {
        step(&mut w2, format!("message on thread#{t} after the first appends ({kind:?})"), t < threads_acked, &mut |w2| w2.exec(&Op::Msg { t, len: 0 }), &mut violations);
    }
    bumps.push(format!("first-append={kind:?}"));
    if any {
        bumps.push(format!("first-append-wrote-frames={kind:?}"));
    }
    let threads1 = w2.threads.clone();
    drop(w2);
    tick(&T_SWEEP_EXEC, te);
    // ---- oracle
    let lines = read_bodies(&truth_path(root));
    let mut bad_lines = 0;
    let mut counters: HashMap<(bool, bool, String), u64> = HashMap::new();
    let mut bad: Vec<String> = vec![];
    for l in &lines {
        if l.len() != 1 || !l[0].ok {
            bad_lines += 1;
            continue;
        }
        let b = &l[0];
        let e = counters.entry((b.continuity, b.session, b.stream.clone())).or_insert(0);
        if b.seq != *e {
            if bad.is_empty() {
                bad.push(format!("thread#{:?} ({}) carries seq {} where {} is due", threads1.iter().position(|t| *t == b.stream), b.kind, b.seq, *e));
            }
        } else {
            *e += 1;
        }
    }
    if bad_lines > 0 {
        violations.push((format!("{ctx}: with {kind:?} as the first append on every thread, events.jsonl holds {bad_lines} line(s) that are not one frame"), "first_append_unparseable_truth_line".into()));
    }
    if let Some(b) = bad.first() {
        violations.push((format!("{ctx}: with {kind:?} as the first append on every thread a stream is not 0,1,2,..: {b}"), "first_append_breaks_numbering".into()));
    }
    let log = Arc::new(EventLog::new(truth_path(root)).expect("log"));
    if let Err(e) = log.replay_validated() {
        if bad_lines == 0 && bad.is_empty() {
            violations.push((format!("{ctx}: with {kind:?} as the first append on every thread replay_validated fails: {e}"), "first_append_replay_fails".into()));
        }
    } else if bad_lines > 0 || !bad.is_empty() {
        violations.push(("replay_validated accepts a store the line-level oracle rejects".into(), "validator_disagrees".into()));
    }
    let flat: Vec<&Body> = lines.iter().flatten().collect();
    let mut count: HashMap<&str, usize> = HashMap::new();
    for b in &flat {
        *count.entry(b.id.as_str()).or_insert(0) += 1;
    }
    for id in &acked2 {
        let n = count.get(id.as_str()).cloned().unwrap_or(0);
        if n != 1 {
            violations.push((format!("{ctx}: with {kind:?} as the first append on every thread an acknowledged frame occurs {n} times"), "first_append_acked_not_exactly_once".into()));
            break;
        }
    }
    // reads = truth, for every thread that got an append (its full sidecar has been re-synced or extended)
    let store = ContinuityStore::new(data_dir(root), ws_dir(root), log).expect("store");
    for (t, id) in threads1.iter().enumerate() {
        if !appended.contains(id) {
            continue;
        }
        let want: Vec<(u64, String)> = flat.iter().filter(|b| b.ok && b.continuity && b.stream == *id).map(|b| (b.seq, b.id.clone())).collect();
        // .. at the level of the file every reader starts from: the first append after a restart reconciles the
        // thread's full sidecar with the log (whatever the writer), so after it the sidecar IS the thread's stream
        let side: Vec<(u64, String)> = read_bodies(&side_path(root, id)).into_iter().flatten().map(|b| (b.seq, b.id.clone())).collect();
        if side != want {
            violations.push((
                format!(
                    "{ctx}: with {kind:?} as the first append on every thread, the full sidecar of thread#{t} is not the thread's stream in the log afterwards (sidecar seqs {:?}, log holds {} frames): the restart's first append did not reconcile it",
                    side.iter().map(|x| x.0).collect::<Vec<_>>(),
                    want.len()
                ),
                "first_append_leaves_full_sidecar_off_the_log".into(),
            ));
        }
        let got = store.replay_events(id).map(|v| v.iter().map(|e| (e.seq, e.id.clone())).collect::<Vec<_>>());
        if got.as_ref().ok() != Some(&want) {
            let desc = match &got {
                Ok(g) => format!("{} frames (seqs {:?})", g.len(), g.iter().map(|x| x.0).collect::<Vec<_>>()),
                Err(e) => format!("error {e}"),
            };
            violations.push((
                format!("{ctx}: with {kind:?} as the first append on every thread, replay_events of thread#{t} after a second restart answers {desc}, the log holds {} frames", want.len()),
                "first_append_reads_differ_from_log".into(),
            ));
        }
    }
    violations
}

// ------------------------------------------------------------------ workloads
fn thin_workload() -> Vec<Op> {
    vec![
        Op::Ensure,
        Op::Msg { t: 0, len: 0 },
        Op::Sess { s: 0, len: 0, k: 0 },
        Op::Msg { t: 0, len: 8192 },
        Op::RunSpawned { t: 0 },
        // tool output chunks (session stream) and a task output delta (task stream): acknowledged when append returns
        Op::Sess { s: 0, len: 0, k: 1 },
        Op::Sess { s: 0, len: 300, k: 2 },
        Op::Sess { s: 1, len: 0, k: 3 },
        Op::Msg { t: 0, len: 100_000 },
        // end of the session and of the task: their snapshots (small payloads: one write at flush)
        Op::Snapshot { s: 0 },
        Op::Snapshot { s: 1 },
    ]
}
fn boundary_workload() -> Vec<Op> {
    vec![
        Op::Ensure,
        Op::Msg { t: 0, len: 8190 },
        Op::Msg { t: 0, len: 8191 },
        Op::Sess { s: 0, len: 8191, k: 0 },
        Op::Msg { t: 0, len: 8192 },
        Op::Msg { t: 0, len: 8193 },
        Op::Sess { s: 0, len: 8192, k: 1 },
        Op::Msg { t: 1, len: 0 },
        Op::RunEnded { t: 0 },
        Op::Cursor { t: 0 },
        Op::SideFx { t: 0 },
        Op::Selection { t: 0 },
        Op::Compiled { t: 0 },
        Op::Sess { s: 1, len: 100_000, k: 3 },
        Op::Msg { t: 0, len: 0 },
        // payloads above the BufWriter capacity: written straight to the file by write_all
        Op::Snapshot { s: 0 },
        Op::Snapshot { s: 1 },
    ]
}
/// corpus/C05/*.json: {"ops": [{"op": "Msg", "t": 0, "len": 8192}, ..]} — regression workloads (fixed findings)
fn corpus_workloads() -> Vec<Vec<Op>> {
    let dir = Path::new(env!("CARGO_MANIFEST_DIR")).join("../corpus/C05");
    let mut files: Vec<PathBuf> = std::fs::read_dir(&dir).map(|d| d.flatten().map(|e| e.path()).filter(|p| p.extension().map(|x| x == "json").unwrap_or(false)).collect()).unwrap_or_default();
    files.sort();
    let mut out = vec![];
    for f in files {
        let Ok(v) = serde_json::from_slice::<serde_json::Value>(&std::fs::read(&f).unwrap_or_default()) else { continue };
        let mut ops = vec![];
        for o in v["ops"].as_array().cloned().unwrap_or_default() {
            let t = o["t"].as_u64().unwrap_or(0) as usize;
            let s = o["s"].as_u64().unwrap_or(0) as usize;
            let len = o["len"].as_u64().unwrap_or(0);
            ops.push(match o["op"].as_str().unwrap_or("") {
                "Ensure" => Op::Ensure,
                "Msg" => Op::Msg { t, len },
                "RunSpawned" => Op::RunSpawned { t },
                "RunEnded" => Op::RunEnded { t },
                "Cursor" => Op::Cursor { t },
                "SideFx" => Op::SideFx { t },
                "Selection" => Op::Selection { t },
                "Compiled" => Op::Compiled { t },
                "Checkpoint" => Op::Checkpoint { t },
                "Branch" => Op::Branch { t },
                "Handoff" => Op::Handoff { t },
                "Sess" => Op::Sess { s, len, k: o["k"].as_u64().unwrap_or(0) as u8 },
                "DropSideRead" => Op::DropSideRead { t },
                "Snapshot" => Op::Snapshot { s },
                _ => continue,
            });
        }
        if !ops.is_empty() {
            out.push(ops);
        }
    }
    out
}
/// every kind of operation, deterministic (oracle only): artifact-before-frame, children, crash inside rebuild_best_effort
fn rich_workload() -> Vec<Op> {
    vec![
        Op::Ensure,
        Op::Msg { t: 0, len: 0 },
        Op::Msg { t: 0, len: 8192 },
        Op::Checkpoint { t: 0 },
        Op::Branch { t: 0 },
        Op::Msg { t: 1, len: 0 },
        Op::Handoff { t: 0 },
        Op::DropSideRead { t: 0 },
        Op::Msg { t: 0, len: 0 },
        Op::Checkpoint { t: 0 },
        Op::Msg { t: 2, len: 300 },
    ]
}
const N_MODEL_QUICK: usize = 3;
const N_RICH_QUICK: usize = 2;
fn gen_workload(r: &mut Rng, n: usize, rich: bool) -> Vec<Op> {
    let mut ops = vec![Op::Ensure];
    let mut nthreads = 1usize;
    // slot -> stream index in use, does it hold frames; a snapshot closes the stream (the slot moves to a new one)
    let mut slot = [0usize, 1, 2];
    let mut has = [false; 3];
    let lens = [0u64, 0, 0, 0, 300, 8190, 8191, 8192, 8193, 20_000, 100_000];
    for _ in 1..n {
        let t = r.below(nthreads as u64) as usize;
        let k = r.below(if rich { 17 } else { 12 });
        let op = match k {
            0..=3 => Op::Msg { t, len: *r.pick(&lens) },
            4 => Op::RunSpawned { t },
            5 => Op::RunEnded { t },
            6 => match r.below(2) {
                0 => Op::Cursor { t },
                _ => Op::Selection { t },
            },
            7 => match r.below(2) {
                0 => Op::SideFx { t },
                _ => Op::Compiled { t },
            },
            8 | 9 => {
                let s = r.below(3) as usize;
                has[s] = true;
                Op::Sess { s: slot[s], len: *r.pick(&lens), k: if s == 2 { 3 } else { r.below(3) as u8 } }
            }
            11 if !rich => {
                // end of a session / task: its snapshot
                let s = r.below(3) as usize;
                if has[s] {
                    has[s] = false;
                    slot[s] += 3;
                    Op::Snapshot { s: slot[s] - 3 }
                } else {
                    has[s] = true;
                    Op::Sess { s: slot[s], len: *r.pick(&lens), k: if s == 2 { 3 } else { 0 } }
                }
            }
            16 => {
                let s = r.below(3) as usize;
                if has[s] {
                    has[s] = false;
                    slot[s] += 3;
                    Op::Snapshot { s: slot[s] - 3 }
                } else {
                    has[s] = true;
                    Op::Sess { s: slot[s], len: *r.pick(&lens), k: if s == 2 { 3 } else { 0 } }
                }
            }
            10 => {
                if r.chance(1, 3) {
                    Op::Msg { t: nthreads + 3, len: 0 }
                } else {
                    Op::Ensure
                }
            }
            11 | 12 => Op::Checkpoint { t },
            13 => {
                nthreads += 1;
                Op::Branch { t }
            }
            14 => {
                nthreads += 1;
                Op::Handoff { t }
            }
            _ => Op::DropSideRead { t },
        };
        ops.push(op);
    }
    ops
}

fn main() {
    let a = parse_args();
    let mut res = RunResult::new("C05", &a);
    res.rule = "case = (workload, crash point): the real store runs a workload with a crash recorder snapshotting data dir + workspace at every rip_verif point; each snapshot is restarted (fresh EventLog + ContinuityStore), follow-up ops run, the oracle checks whole-store replay / 0..n per stream / acknowledged frames exactly once / numbering continues / reads equal with caches as found vs removed; the model must predict the disk shape (every line of events.jsonl and of each full sidecar as (stream, seq, frame)) at the crash point and after the follow-ups; non-trivial = crash point inside an operation that writes; in addition every DISTINCT recovered store is restarted once per kind of writer (manual / auto / scheduled compaction, cursor rotate, run_spawned, run_ended, tool side effects, selection, compiled, cursor, branch, handoff) with that kind as the first append on every thread, then a message on every thread (oracle only: streams 0,1,2,.., replay_validated, acknowledged frames once, full sidecar and replay_events of a fresh store = the log for every thread that got an append); the classes of the open cache findings are keyed by file state AND crash window (notes/crash4.md)".into();
    let scratch = Scratch::new("c05");
    let mut w = CaseWriter::new(&a.out, "Model.Crash", "check_case", "model_obs", 60);
    let mut distinct = Distinct::default();
    // (workload, second restart of every crash point with bulk traffic first).  quick: the corpus and the thin
    // workload get the second restart; thorough: every workload does
    let th = a.thorough();
    let mut workloads: Vec<(Vec<Op>, bool)> = corpus_workloads().into_iter().map(|w| (w, true)).collect();
    workloads.push((thin_workload(), true));
    workloads.push((boundary_workload(), th));
    workloads.push((rich_workload(), th));
    let mut r = Rng::new(a.seed);
    let (n_model, n_rich) = if th { (24, 16) } else { (N_MODEL_QUICK, N_RICH_QUICK) };
    for _ in 0..n_model {
        let n = r.range(8, 16) as usize;
        workloads.push((gen_workload(&mut r, n, false), th));
    }
    for _ in 0..n_rich {
        let n = r.range(10, 18) as usize;
        workloads.push((gen_workload(&mut r, n, true), th));
    }
    // run the workloads on a few threads, collect in workload order
    install_recorder();
    // self-test of the generic crash points: std's fs calls on this thread must go through the entry points defined
    // in `fsx` (a toolchain that issued raw syscalls instead would silently lose every generic crash point)
    {
        let probe = scratch.path().join("fsx-probe");
        std::fs::create_dir_all(&probe).unwrap();
        fsx::set_root(&probe);
        let n0 = fsx::SEEN.load(Ordering::SeqCst);
        fsx::arm(true);
        std::fs::write(probe.join("a.tmp"), b"x").unwrap();
        std::fs::rename(probe.join("a.tmp"), probe.join("a")).unwrap();
        std::fs::remove_file(probe.join("a")).unwrap();
        fsx::arm(false);
        let seen = fsx::SEEN.load(Ordering::SeqCst) - n0;
        assert!(seen >= 4, "c05: file-system interposition inactive (saw {seen} of the 4 probe effects: create, write, rename, unlink)");
        let _ = std::fs::remove_dir_all(&probe);
    }
    // heaviest workloads first (the wall time is the longest chain): crash points ~ ops, doubled by the bulk-first
    // second restart, and the ops with many effects (checkpoint, branch, handoff, rebuild) weigh more
    let mut order: Vec<usize> = (0..workloads.len()).collect();
    let weight = |wi: usize| -> usize {
        let (ops, bulk) = &workloads[wi];
        let w: usize = ops.iter().map(|o| match o {
            Op::Checkpoint { .. } | Op::Branch { .. } | Op::Handoff { .. } | Op::DropSideRead { .. } => 4,
            Op::Msg { .. } => 3,
            Op::Sess { .. } | Op::Snapshot { .. } => 1,
            _ => 2,
        }).sum();
        w * if *bulk { 2 } else { 1 }
    };
    order.sort_by_key(|wi| std::cmp::Reverse(weight(*wi)));
    let nworkers = std::thread::available_parallelism().map(|n| n.get()).unwrap_or(4).clamp(2, 12).min(workloads.len().max(1));
    let next = std::sync::atomic::AtomicUsize::new(0);
    type Done = (Vec<CaseOut>, Vec<String>);
    let done: Vec<Mutex<Option<Done>>> = workloads.iter().map(|_| Mutex::new(None)).collect();
    let with_model = !a.oracle_only();
    std::thread::scope(|sc| {
        for _ in 0..nworkers {
            sc.spawn(|| loop {
                let k = next.fetch_add(1, Ordering::SeqCst);
                if k >= workloads.len() {
                    break;
                }
                let wi = order[k];
                let (ops, bulk) = &workloads[wi];
                let wl_json = json!({"index": wi, "ops": ops.iter().map(op_json).collect::<Vec<_>>()});
                let mut bumps = vec![];
                let cases = run_workload(ops, &scratch.path().join(format!("w{wi}")), wl_json, with_model, *bulk, true, &mut bumps);
                *done[wi].lock().unwrap() = Some((cases, bumps));
            });
        }
    });
    CrashRec::uninstall();
    for (wi, slot) in done.iter().enumerate() {
        let (cases, bumps) = slot.lock().unwrap().take().expect("workload result");
        for b in bumps {
            res.bump(&b);
        }
        for c in cases {
            res.evaluations += 1;
            res.oracle_checks += 8;
            res.bump(&format!("point={}", c.json["crash_point"].as_str().unwrap_or("")));
            distinct.add(&format!("{wi}/{}/{}", c.json["point_ordinal"], c.json["bulk_first"]));
            if c.json["bulk_first"] == json!(true) {
                res.bump("restart-with-bulk-traffic-first");
            }
            let mut case_id: i64 = -1;
            if !c.term.is_empty() {
                let id = w.push(c.term.clone());
                case_id = id as i64;
                if res.case_index.len() < 4000 {
                    res.case_index.insert(id.to_string(), c.json.clone());
                }
            } else {
                res.bump("oracle-only-cases");
            }
            let mut seen = vec![];
            for (what, class) in c.violations {
                if seen.contains(&class) {
                    continue;
                }
                seen.push(class.clone());
                res.bump(&format!("violation={class}"));
                res.oracle_violations.push(OracleViolation { case_id, what, class, replay: c.json.clone() });
            }
            if res.samples.len() < 3 && c.tag.starts_with("cont.logged") {
                res.samples.push(c.json.clone());
            }
        }
    }
    w.flush();
    res.distinct_nontrivial = distinct.count();
    res.case_files = w.files.iter().map(|p| p.display().to_string()).collect();
    res.write(&a.out);
    println!("c05: {} crash points, {} oracle violations", res.evaluations, res.oracle_violations.len());
    let ms = |c: &AtomicU64| c.load(Ordering::Relaxed) / 1000;
    println!("c05 wall (ms): snapshots {} copies-for-reads {} reads {} follow-ups {} oracle {} first-append-sweep {} (copies {} restarts+appends {})", ms(&T_SNAP), ms(&T_COPY), ms(&T_READS), ms(&T_FOLLOW), ms(&T_ORACLE), ms(&T_SWEEP), ms(&T_SWEEP_COPY), ms(&T_SWEEP_EXEC));
    for v in res.oracle_violations.iter().take(12) {
        println!("  [{}] {}", v.class, v.what);
    }
}
