//! C01 — the numbering of session streams under EVERY configuration switch `session.rs` branches on.
//!
//! A provider-backed run numbers its frames itself: a dozen "build from the counter, emit, bump" sites, most behind a
//! switch (request capture RIP_OPENRESPONSES_DUMP_REQUEST and its max-bytes, stateless / stateful, tool_choice, follow-up
//! message, parallel tool calls) or a provider outcome.  Every configuration of the shared matrix (`session_matrix::runs`:
//! sub06c's `agent::confs` + capture side-write failure + explicit max-bytes values) is one run of the real
//! `SessionEngine` against the local scripted provider on a store of its own.  Oracle (model-free): EVERY stream of the
//! store (the session, the thread a run was started from) is numbered 0,1,2,.. in FILE order, and
//! `EventLog::replay_validated` accepts the store.  Compared with the model: the session stream against the session
//! actor (`check_case_sg`: frame at the run-local counter, counter + 1), and the head of every provider request
//! (capture frame?, request_started) against Model/WireRun.v's run of the statement list regenerated from
//! `stream_openresponses_request` (`check_head`).
use super::contlib::*;
use super::session_matrix::{self as sm, seq_types};
use super::Ctx;
use rip_kernel::{Event, EventKind, StreamKind};
use rv::{coq_bool, coq_list_n, coq_n, CaseWriter, OracleViolation};
use serde_json::json;
use std::panic::{catch_unwind, AssertUnwindSafe};

fn heads(v: &[Event]) -> Vec<(u64, Vec<(u64, u64)>)> {
    let mut out: Vec<(u64, Vec<(u64, u64)>)> = vec![];
    let mut cur: Option<(u64, Vec<(u64, u64)>)> = None;
    for (i, e) in v.iter().enumerate() {
        let slot = match e.kind {
            EventKind::OpenResponsesRequest { .. } => Some(0),
            EventKind::OpenResponsesRequestStarted { .. } => Some(1),
            _ => None,
        };
        match slot {
            Some(s) => cur.get_or_insert((i as u64, vec![])).1.push((s, e.seq)),
            None => {
                if let Some(c) = cur.take() {
                    out.push(c);
                }
            }
        }
    }
    if let Some(c) = cur.take() {
        out.push(c);
    }
    out
}

/// first frame of any stream that does not carry the number due in file order
fn first_file_order_violation(all: &[(StreamKind, String, u64, String)]) -> Option<String> {
    let mut due: std::collections::HashMap<(u64, String), u64> = Default::default();
    for (i, (k, id, seq, ty)) in all.iter().enumerate() {
        let e = due.entry((kind_code(*k), id.clone())).or_insert(0);
        if *seq != *e {
            let stream: Vec<String> = all.iter().filter(|x| x.0 == *k && x.1 == *id).map(|x| format!("{}:{}", x.2, x.3)).collect();
            return Some(format!("stream {k:?}/{id}: line {i} of events.jsonl ({ty}) carries seq {seq} where {} is due; the stream in file order: {stream:?}", *e));
        }
        *e += 1;
    }
    None
}

pub fn config_matrix(ctx: &mut Ctx, wsg: &mut CaseWriter, whd: &mut CaseWriter, seed: u64, thorough: bool) {
    let rt = match tokio::runtime::Builder::new_multi_thread().worker_threads(4).enable_all().build() {
        Ok(rt) => rt,
        Err(_) => return,
    };
    // the matrix sets HOME-independent switches only; RIP_CONFIG_HOME (set by main) stays
    let mut runs = sm::runs(thorough);
    let k = (seed as usize) % runs.len().max(1);
    runs.rotate_left(k);
    let mut with_capture = 0u64;
    let mut heads_n = 0u64;
    for (conf, extra) in runs.iter() {
        let label = format!("{}{}", conf.label(), extra.label());
        let replay = json!({"kind": "config_matrix", "conf_bits": conf.bits(), "conf": format!("{conf:?}"), "label": label, "extra": extra.json(),
            "how": "one SessionEngine on a fresh store; environment set from the configuration (RIP_OPENRESPONSES_DUMP_REQUEST / _MAX_BYTES), OpenResponsesConfig from the configuration, the local scripted provider serves session_matrix::agent::script(conf); after the run read events.jsonl with a fresh handle: every stream 0,1,2,.. in file order, replay_validated"});
        let res = catch_unwind(AssertUnwindSafe(|| rt.block_on(sm::run_conf(*conf, extra, "c01m"))));
        sm::apply_env(None);
        ctx.res.evaluations += 1;
        ctx.leaves += 1;
        ctx.res.bump("kind=config_matrix_run");
        let r = match res {
            Err(p) => {
                let msg = p.downcast_ref::<String>().cloned().or_else(|| p.downcast_ref::<&str>().map(|s| s.to_string())).unwrap_or_default();
                ctx.res.impl_panics += 1;
                ctx.res.oracle_violations.push(OracleViolation { case_id: -1, what: format!("configuration {label}: panic: {msg}"), class: "panic".into(), replay });
                continue;
            }
            Ok(Err(e)) => {
                ctx.res.notes.push(format!("configuration {label}: not run: {e}"));
                continue;
            }
            Ok(Ok(r)) => r,
        };
        if !r.finished || r.lagged > 0 {
            ctx.res.bump("config_matrix_run_not_finished_in_time");
            continue;
        }
        ctx.res.oracle_checks += 2;
        ctx.res.bump_by("config_matrix_frames", r.all.len() as u64);
        let log_events: Vec<Event> = r.log.as_ref().map(|v| v.iter().map(|(_, e)| e.clone()).collect()).unwrap_or_default();
        let (cap, _started) = sm::capture_frames(&log_events);
        if cap > 0 {
            with_capture += 1;
        }
        let what = match (&r.log, first_file_order_violation(&r.all), &r.replay_validated) {
            (Err(e), _, _) => Some(format!("configuration {label}: events.jsonl cannot be read back: {e}")),
            (_, Some(v), _) => Some(format!("configuration {label}: {v}")),
            (_, None, Err(e)) => Some(format!("configuration {label}: validated replay of the store fails: {e}; session stream in file order: {:?}", seq_types(&log_events))),
            _ => None,
        };
        if let Some(what) = what {
            if ctx.res.oracle_violations.len() < 20 {
                let mut rp = replay.clone();
                rp["session_stream_in_file_order"] = json!(seq_types(&log_events));
                ctx.res.oracle_violations.push(OracleViolation { case_id: -1, what, class: "config_stream_file_order".into(), replay: rp });
            }
            ctx.res.bump("violation=config_stream_file_order");
        }
        if ctx.oracle_only {
            continue;
        }
        // the session stream against the session actor of the model: kinds from the file, numbering the model's
        let in_order = log_events.iter().enumerate().all(|(i, e)| e.seq == i as u64);
        let codes: Vec<u64> = log_events.iter().map(|e| etype_code(&e.kind)).collect();
        if !codes.is_empty() && codes.iter().all(|c| *c != 999) {
            let mut obs = vec![1, in_order as u64];
            for (e, c) in log_events.iter().zip(codes.iter()) {
                obs.extend([0, e.seq, *c]);
            }
            let id = wsg.push(format!("{{| sg_n := 1; sg_ts := [{}]; sg_sched := [0]; sg_expect := {} |}}", codes.iter().map(|c| coq_etype(*c)).collect::<Vec<_>>().join("; "), coq_list_n(&obs)));
            ctx.res.case_index.insert(id.to_string(), replay.clone());
        }
        let capture_on = (r.conf.capture > 0 || r.extra.blocked_artifacts) && !r.extra.blocked_artifacts;
        for (base, h) in heads(&log_events) {
            heads_n += 1;
            let id = whd.push(format!(
                "{{| hc_capture := {}; hc_base := {}; hc_frames := [{}] |}}",
                coq_bool(capture_on),
                coq_n(base),
                h.iter().map(|(s, q)| format!("({}, {})", coq_n(*s), coq_n(*q))).collect::<Vec<_>>().join("; ")
            ));
            if ctx.res.case_index.len() < 3400 {
                let mut rp = replay.clone();
                rp["head"] = json!({"base": base, "frames": h});
                ctx.res.case_index.insert(id.to_string(), rp);
            }
        }
    }
    ctx.res.bump_by("config_matrix_runs_with_capture_frames", with_capture);
    ctx.res.bump_by("config_matrix_request_heads", heads_n);
    if with_capture == 0 {
        ctx.res.notes.push("configuration matrix: NO run produced a capture frame (openresponses_request): the switch is not live in this harness".into());
    }
    for (n, how) in sm::agent::switches_in_source(&rv::parse_args().repo()) {
        ctx.res.notes.push(match how {
            Some(h) => format!("switch {n}: {h}"),
            None => format!("switch {n}: NOT in the harness's table (no case drives it)"),
        });
    }
    ctx.mark("config_matrix");
}
