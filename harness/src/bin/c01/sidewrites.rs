//! C01 — the STORE's side write fails around a creating call, the process goes on, the caller retries.
//!
//! `create_continuity_locked` appends the new thread's `continuity_created` frame (fixed seq 0) to the truth log, THEN saves
//! `continuities/index.json`.  When the save is what fails the call answers Err and the seq-0 frame is already in the log:
//! whatever the caller (or the store itself) does next must not write that thread's seq 0 a second time, and must not
//! leave its counter anywhere but at the number of frames the thread has.  Histories on ONE authority (real
//! `ContinuityStore` on a scratch data dir), sequential:
//!   fault ON (the index cannot be written) -> a creating call (`ensure_default` on a workspace without a thread - also
//!   after a restart with index.json gone: the backfill save -, `branch`, `handoff`) -> the retry in the same process with
//!   the fault still on -> fault OFF -> the retry again -> a message on the default thread and on the newest thread ->
//!   restart -> `ensure_default` -> a message.
//! Faults (all through the file system, nothing injected into the code): `continuities` is a plain file (the case of the
//! repository's own test `ensure_default_errors_when_index_parent_is_file`), `index.json` is a non-empty directory (the rename
//! fails), `index.json.tmp` is a directory (the write fails), the directory is read-only (skipped when the harness runs as
//! root: the probe write succeeds).
//! Oracle after EVERY call: every stream 0,1,2,.. in file order; `ensure_default` that answers Ok answers a thread whose
//! `continuity_created` frame is in the log; at the end `replay_validated`.  Compared with the model call by call
//! (`check_case_sw`, Model/SeqCreate.v: log02c's `ensure` / `lineage` + the creation whose save fails).
use super::*;
use std::path::PathBuf;

#[derive(Clone, Copy, Debug, PartialEq, Eq)]
pub enum IdxFault {
    DirIsFile,
    TargetIsDir,
    TmpIsDir,
    DirReadOnly,
}
pub const FAULTS: [IdxFault; 4] = [IdxFault::DirIsFile, IdxFault::TargetIsDir, IdxFault::TmpIsDir, IdxFault::DirReadOnly];

#[derive(Clone, Copy, Debug, PartialEq, Eq)]
pub enum SwCall {
    Ensure,
    Branch(usize),
    Handoff(usize),
    Msg(usize),
    Restart,
    /// continuities/index.json is removed (a lost cache)
    DropIndex,
}
#[derive(Clone, Copy, Debug, PartialEq, Eq)]
pub struct SwStep {
    pub call: SwCall,
    pub fault: Option<IdxFault>,
}

fn idx_dir(env: &Env) -> PathBuf {
    env.data_dir.join("continuities")
}

/// puts the fault in place; false = it cannot be produced here (root ignores permissions)
fn fault_on(env: &Env, f: IdxFault) -> bool {
    let dir = idx_dir(env);
    match f {
        IdxFault::DirIsFile => {
            if dir.is_dir() {
                let _ = std::fs::rename(&dir, env.data_dir.join("continuities.aside"));
            }
            std::fs::write(&dir, b"not a directory\n").is_ok()
        }
        IdxFault::TargetIsDir => {
            let _ = std::fs::create_dir_all(&dir);
            let t = dir.join("index.json");
            if t.is_file() {
                let _ = std::fs::rename(&t, dir.join("index.json.aside"));
            }
            std::fs::create_dir_all(t.join("occupied")).is_ok()
        }
        IdxFault::TmpIsDir => std::fs::create_dir_all(dir.join("index.json.tmp")).is_ok(),
        IdxFault::DirReadOnly => {
            use std::os::unix::fs::PermissionsExt;
            let _ = std::fs::create_dir_all(&dir);
            let _ = std::fs::set_permissions(&dir, std::fs::Permissions::from_mode(0o555));
            let probe = dir.join("probe");
            if std::fs::write(&probe, b"x").is_ok() {
                let _ = std::fs::remove_file(&probe);
                let _ = std::fs::set_permissions(&dir, std::fs::Permissions::from_mode(0o755));
                return false;
            }
            true
        }
    }
}
fn fault_off(env: &Env, f: IdxFault) {
    let dir = idx_dir(env);
    match f {
        IdxFault::DirIsFile => {
            let _ = std::fs::remove_file(&dir);
            let aside = env.data_dir.join("continuities.aside");
            if aside.is_dir() {
                let _ = std::fs::rename(&aside, &dir);
            }
        }
        IdxFault::TargetIsDir => {
            let _ = std::fs::remove_dir_all(dir.join("index.json"));
            let aside = dir.join("index.json.aside");
            if aside.is_file() {
                let _ = std::fs::rename(&aside, dir.join("index.json"));
            }
        }
        IdxFault::TmpIsDir => {
            let _ = std::fs::remove_dir_all(dir.join("index.json.tmp"));
        }
        IdxFault::DirReadOnly => {
            use std::os::unix::fs::PermissionsExt;
            let _ = std::fs::set_permissions(&dir, std::fs::Permissions::from_mode(0o755));
        }
    }
}

pub struct SwOutcome {
    pub calls: Vec<String>,
    pub obs: Vec<u64>,
    pub violation: Option<(String, &'static str)>,
    pub faults_hit: u64,
    pub skipped_fault: bool,
}

/// runs one history on a fresh authority
pub fn run_history(steps: &[SwStep]) -> SwOutcome {
    let scratch = Scratch::new("c01w");
    let mut env = Env::open(scratch.path());
    let mut out = SwOutcome { calls: vec![], obs: vec![], violation: None, faults_hit: 0, skipped_fault: false };
    let (a, o) = ("user".to_string(), "harness".to_string());
    for (si, st) in steps.iter().enumerate() {
        let before = parse_log(&env.log_bytes()).unwrap_or_default();
        let ids = created_ids(&before);
        let mut fault = st.fault;
        if let Some(f) = fault {
            if !fault_on(&env, f) {
                fault_off(&env, f);
                fault = None;
                out.skipped_fault = true;
            }
        }
        // answer: 0 = Ok(id) and id has no continuity_created frame in the log, 1 = Ok (ensure: the id is a thread of the log), 2 = Err, 9 = no answer
        let mut code = 9u64;
        let mut answered: Option<String> = None;
        let store = env.store.clone();
        let res = std::panic::catch_unwind(std::panic::AssertUnwindSafe(|| match st.call {
            SwCall::Ensure => Some(store.ensure_default()),
            SwCall::Branch(th) => Some(store.branch(&id_at(&ids, th % ids.len().max(1)), None, None, None, a.clone(), o.clone()).map(|x| x.0)),
            SwCall::Handoff(th) => Some(store.handoff(&id_at(&ids, th % ids.len().max(1)), None, (Some("# s".into()), None), None, None, (a.clone(), o.clone())).map(|x| x.0)),
            SwCall::Msg(th) => {
                let _ = store.append_message(&id_at(&ids, th % ids.len().max(1)), a.clone(), o.clone(), format!("msg {si}"));
                None
            }
            SwCall::Restart | SwCall::DropIndex => None,
        }));
        if let Some(f) = fault {
            fault_off(&env, f);
        }
        match st.call {
            SwCall::Restart => env.restart(),
            SwCall::DropIndex => {
                let _ = std::fs::remove_file(idx_dir(&env).join("index.json"));
            }
            _ => {}
        }
        let after = match parse_log(&env.log_bytes()) {
            Ok(h) => h,
            Err(e) => {
                out.violation.get_or_insert((format!("step {si} ({:?}): {e}", st.call), "partial_frame"));
                break;
            }
        };
        let new = after.len().saturating_sub(before.len());
        match res {
            Err(_) => {
                out.violation.get_or_insert((format!("step {si} ({:?}): panic", st.call), "panic"));
            }
            Ok(Some(Ok(id))) => {
                code = 1;
                if st.call == SwCall::Ensure && !created_ids(&after).contains(&id) {
                    code = 0;
                }
                answered = Some(id);
            }
            Ok(Some(Err(_))) => code = 2,
            Ok(None) => {}
        }
        if fault.is_some() && code == 2 {
            out.faults_hit += 1;
        }
        let th_of = |th: usize| coq_nat((th % ids.len().max(1)) as u64);
        let save_ok = coq_bool(fault.is_none());
        out.calls.push(match st.call {
            SwCall::Ensure => format!("SwEnsure {save_ok}"),
            SwCall::Branch(th) | SwCall::Handoff(th) => {
                let t = if matches!(st.call, SwCall::Branch(_)) { "EContinuityBranched" } else { "EContinuityHandoffCreated" };
                // how far the call came: 1 = completed, 2 = the child's creation was reached and its index save failed, 0 = refused before anything was written
                let how = if code == 1 { 1 } else if new == 0 { 0 } else { 2 };
                format!("SwLineage {t} {} {how}", th_of(th))
            }
            SwCall::Msg(th) => format!("SwMsg {}", th_of(th)),
            SwCall::Restart => "SwRestart".into(),
            SwCall::DropIndex => "SwDropIndex".into(),
        });
        out.obs.extend([after.len() as u64, code]);
        if out.violation.is_none() {
            let with_fault = match st.fault {
                Some(f) if fault.is_some() => format!(" with continuities/index.json unwritable ({f:?})"),
                _ => String::new(),
            };
            if let Some(v) = first_order_violation(&after) {
                // the stream of the first frame that does not carry the number due
                let mut due: std::collections::HashMap<(u64, String), u64> = Default::default();
                let mut culprit: Option<(rip_kernel::StreamKind, String)> = None;
                for h in &after {
                    let e = due.entry((kind_code(h.kind), h.sid.clone())).or_insert(0);
                    if h.seq != *e {
                        culprit = Some((h.kind, h.sid.clone()));
                        break;
                    }
                    *e += 1;
                }
                let stream: Vec<String> = after.iter().filter(|h| culprit.as_ref().map(|c| c.0 == h.kind && c.1 == h.sid).unwrap_or(false)).map(|h| format!("{}:{}", h.seq, ETYPES.get(h.code as usize).copied().unwrap_or("?"))).collect();
                out.violation = Some((
                    format!("after step {si} ({:?}{with_fault}; the call answered {}, {new} new frames in the log): {v}; that stream in file order: {stream:?}", st.call, match code { 1 | 0 => "Ok", 2 => "Err", _ => "-" }),
                    "store_side_write_failure_renumbers_logged_thread",
                ));
            } else if code == 0 {
                out.violation = Some((format!("after step {si} ({:?}{with_fault}): ensure_default answered {} and the log holds no continuity_created frame of that thread", st.call, answered.clone().unwrap_or_default()), "ensure_default_answers_thread_not_in_log"));
            }
        }
    }
    let hs = parse_log(&env.log_bytes()).unwrap_or_default();
    if out.violation.is_none() {
        if let Err(e) = rip_log::EventLog::new(env.log_path()).and_then(|l| l.replay_validated()) {
            out.violation = Some((format!("validated replay of the log fails at the end of the history: {e}"), "store_side_write_failure_renumbers_logged_thread"));
        }
    }
    out.obs.push(first_order_violation(&hs).is_none() as u64);
    out.obs.extend(canon_log(&hs));
    out
}

fn record(ctx: &mut Ctx, wsw: &mut CaseWriter, steps: &[SwStep], kind: &str) {
    if ctx.stop() {
        return;
    }
    let o = run_history(steps);
    ctx.res.evaluations += 1;
    ctx.leaves += 1;
    ctx.res.oracle_checks += 1;
    ctx.res.bump(&format!("kind={kind}"));
    ctx.res.bump_by("index_saves_failed", o.faults_hit);
    if o.skipped_fault {
        ctx.res.bump("index_fault_not_producible_as_root(read-only directory)");
    }
    let replay = json!({"store_side_write_history": steps.iter().map(|s| format!("{s:?}")).collect::<Vec<_>>(),
        "how": "fresh data dir, real ContinuityStore; before a step with a fault continuities/index.json is made unwritable through the file system (DirIsFile: `continuities` is a plain file; TargetIsDir: index.json is a non-empty directory; TmpIsDir: index.json.tmp is a directory), the call is made, the fault is removed; after every call every stream of events.jsonl must read 0,1,2,.. in file order"});
    let mut id = -1i64;
    if !ctx.oracle_only {
        let cid = wsw.push(format!("{{| sw_calls := [{}]; sw_expect := {} |}}", o.calls.join("; "), coq_list_n(&o.obs)));
        id = cid as i64;
        if ctx.res.case_index.len() < 3400 {
            ctx.res.case_index.insert(cid.to_string(), replay.clone());
        }
    }
    if o.faults_hit > 0 {
        ctx.distinct.add(&format!("{steps:?}"));
    }
    if let Some((what, class)) = o.violation {
        let shrunk = shrink_vec(steps.to_vec(), |s| !s.is_empty() && run_history(s).violation.is_some());
        let o2 = run_history(&shrunk);
        let (what, class) = o2.violation.unwrap_or((what, class));
        if ctx.res.oracle_violations.len() < 20 {
            ctx.res.oracle_violations.push(OracleViolation { case_id: id, what, class: class.into(), replay: json!({"store_side_write_history": shrunk.iter().map(|s| format!("{s:?}")).collect::<Vec<_>>(), "how": replay["how"]}) });
        }
        ctx.res.bump(&format!("violation={class}"));
    }
}

pub fn store_side_write_failures(ctx: &mut Ctx, wsw: &mut CaseWriter, r: &mut Rng, thorough: bool) {
    let ok = |call: SwCall| SwStep { call, fault: None };
    let bad = |call: SwCall, f: IdxFault| SwStep { call, fault: Some(f) };
    for f in FAULTS {
        // (1) the first ensure_default of a workspace: the creation's save fails; retry with the fault on, then off
        let mut h = vec![bad(SwCall::Ensure, f), bad(SwCall::Ensure, f), ok(SwCall::Ensure), ok(SwCall::Msg(0)), ok(SwCall::Branch(0)), ok(SwCall::Msg(1)), ok(SwCall::Restart), ok(SwCall::Ensure), ok(SwCall::Msg(0))];
        record(ctx, wsw, &h, "side_write_first_ensure_default");
        // .. the process dies instead of retrying: the next authority finds the frame and no index
        h = vec![bad(SwCall::Ensure, f), ok(SwCall::Restart), ok(SwCall::Ensure), ok(SwCall::Msg(0)), ok(SwCall::Ensure)];
        record(ctx, wsw, &h, "side_write_first_ensure_default");
        h = vec![bad(SwCall::Ensure, f), ok(SwCall::Restart), bad(SwCall::Ensure, f), ok(SwCall::Ensure), ok(SwCall::Msg(0))];
        record(ctx, wsw, &h, "side_write_first_ensure_default");
        // (2) the backfill save of ensure_default (index lost, thread in the log) fails
        h = vec![ok(SwCall::Ensure), ok(SwCall::Msg(0)), ok(SwCall::DropIndex), ok(SwCall::Restart), bad(SwCall::Ensure, f), bad(SwCall::Ensure, f), ok(SwCall::Ensure), ok(SwCall::Msg(0))];
        record(ctx, wsw, &h, "side_write_backfill");
        // (3) branch / handoff: the child's creation cannot save the index; retry; the parent and every child go on
        for lineage in [SwCall::Branch(0), SwCall::Handoff(0)] {
            h = vec![ok(SwCall::Ensure), ok(SwCall::Msg(0)), bad(lineage, f), bad(lineage, f), ok(lineage), ok(SwCall::Msg(0)), ok(SwCall::Msg(1)), ok(SwCall::Msg(2)), ok(SwCall::Msg(3)), ok(SwCall::Restart), ok(SwCall::Msg(1)), ok(SwCall::Ensure), ok(SwCall::Msg(0))];
            record(ctx, wsw, &h, "side_write_lineage");
        }
    }
    ctx.mark("side_write_each_creating_call");
    // random histories
    let calls = [SwCall::Ensure, SwCall::Ensure, SwCall::Branch(0), SwCall::Handoff(0), SwCall::Msg(0), SwCall::Msg(1), SwCall::Restart, SwCall::DropIndex];
    for _ in 0..(if thorough { 300 } else { 40 }) {
        let mut h = vec![];
        if r.chance(1, 2) {
            h.push(ok(SwCall::Ensure));
        }
        for _ in 0..r.range(3, 10) {
            let call = match *r.pick(&calls[..]) {
                SwCall::Branch(_) => SwCall::Branch(r.below(3) as usize),
                SwCall::Handoff(_) => SwCall::Handoff(r.below(3) as usize),
                SwCall::Msg(_) => SwCall::Msg(r.below(4) as usize),
                c => c,
            };
            let creating = matches!(call, SwCall::Ensure | SwCall::Branch(_) | SwCall::Handoff(_));
            // the read-only directory cannot be produced as root: the three others
            let fault = if creating && r.chance(1, 2) { Some(FAULTS[r.below(3) as usize]) } else { None };
            h.push(SwStep { call, fault });
        }
        h.push(ok(SwCall::Ensure));
        h.push(ok(SwCall::Msg(0)));
        record(ctx, wsw, &h, "side_write_random_history");
    }
    ctx.mark("side_write_random_history");
}
