//! C01, the two places where a stream's counter and the frames in the log can part
//! (coq/Model/SeqCount.v):
//!
//! A. the provider pipe borrows the session's run-local counter.  (1) `pipe_threaded`: the REAL
//!    OpenResponsesSsePipe (ripd::verif::run_sse_pipe) writes into a real events.jsonl with the counter
//!    threaded the way the session does it - frames before, 1..3 pipes (follow-up requests) with frames
//!    between them, the closing frame numbered from what the last pipe handed back - over SSE bodies
//!    from a grammar (events after the terminal marker in the same chunk / in later chunks, several
//!    markers, none, comments, blank events, unknown fields, invalid JSON, multi-line data, CRLF,
//!    non-ASCII, a transport error after any chunk) cut into chunks at chosen places; compared with the
//!    model (check_case_pc: the parsed events of every push come from the real SseDecoder on that chunk).
//!    (2) `grammar_sessions`: whole sessions through the real engine against a local provider serving
//!    such bodies in such chunks (incl. dropped connections), tool calls and follow-up requests included.
//!    Oracle of both: the session's stream in the log is 0,1,2,.. in file order and a validated replay of
//!    a fresh EventLog succeeds.
//!
//! B. `append_failures`: log writes are made to fail at EVERY continuity writer (fail point log.append:
//!    the k-th write of the call; RLIMIT_FSIZE: the kernel refuses to grow events.jsonl), the process keeps
//!    running and goes on appending.  Oracle: every stream stays 0,1,2,.. in file order after every call,
//!    validated replay at the end; compared with the model (check_case_af: a refused append = lock,
//!    choose, unlock).
use super::*;
use rip_provider_openresponses::{EventFrameMapper, ParsedEventKind, SseDecoder, ValidationOptions};
use std::sync::atomic::{AtomicUsize, Ordering};

// ---------------------------------------------------------------------------------------------------
// the grammar of provider bodies
#[derive(Clone, Debug, PartialEq)]
pub enum Sse {
    Created,
    Delta(u32),
    CallLs(u32),
    Completed,
    Done,
    DoneCrlf,
    Comment,
    Blank,
    UnknownField,
    InvalidJson,
    UnknownType,
    MultiData,
    EventOnly,
    CrlfDelta(u32),
    NonAscii(u32),
}

fn render_one(e: &Sse, rid: &str, n: &mut u64) -> String {
    use rv::provider::sse_event;
    *n += 1;
    let sn = *n;
    let delta = |d: String| json!({"type": "response.output_text.delta", "sequence_number": sn, "item_id": "m1", "output_index": 0, "content_index": 0, "delta": d});
    match e {
        Sse::Created => sse_event("response.created", &json!({"type": "response.created", "sequence_number": sn, "response": {"id": rid}})),
        Sse::Delta(k) => sse_event("response.output_text.delta", &delta(format!("d{k}"))),
        Sse::CallLs(k) => sse_event(
            "response.output_item.done",
            &json!({"type": "response.output_item.done", "sequence_number": sn, "output_index": 0,
                "item": {"type": "function_call", "id": format!("fc_{k}"), "call_id": format!("call_{k}"), "name": "ls", "arguments": "{\"path\":\".\"}", "status": "completed"}}),
        ),
        Sse::Completed => sse_event("response.completed", &json!({"type": "response.completed", "sequence_number": sn, "response": {"id": rid}})),
        Sse::Done => "data: [DONE]\n\n".into(),
        Sse::DoneCrlf => "data: [DONE]\r\n\r\n".into(),
        Sse::Comment => ": keep-alive\n\n".into(),
        Sse::Blank => "\n\n".into(),
        Sse::UnknownField => "retry: 3000\nid: 7\nno colon here\n\n".into(),
        Sse::InvalidJson => "event: response.output_text.delta\ndata: {not json\n\n".into(),
        Sse::UnknownType => format!("data: {{\"type\":\"x.unknown\",\"sequence_number\":{sn},\"foo\":[1,2]}}\n\n"),
        Sse::MultiData => format!("event: response.output_text.delta\ndata: {{\"type\":\"response.output_text.delta\",\"sequence_number\":{sn},\ndata: \"item_id\":\"m1\",\"output_index\":0,\"content_index\":0,\"delta\":\"ml\"}}\n\n"),
        Sse::EventOnly => "event: ping\n\n".into(),
        Sse::CrlfDelta(k) => format!("event: response.output_text.delta\r\ndata: {}\r\n\r\n", delta(format!("c{k}"))),
        Sse::NonAscii(k) => sse_event("response.output_text.delta", &delta(format!("\u{e9}\u{20ac}\u{1f600}{k}"))),
    }
}
pub fn render(body: &[Sse], rid: &str) -> String {
    let mut n = 0;
    body.iter().map(|e| render_one(e, rid, &mut n)).collect()
}

fn gen_noise(r: &mut Rng, k: u32) -> Sse {
    match r.below(11) {
        0 | 1 => Sse::Delta(k),
        2 => Sse::Comment,
        3 => Sse::Blank,
        4 => Sse::UnknownField,
        5 => Sse::InvalidJson,
        6 => Sse::UnknownType,
        7 => Sse::MultiData,
        8 => Sse::EventOnly,
        9 => Sse::CrlfDelta(k),
        _ => Sse::NonAscii(k),
    }
}
fn gen_late(r: &mut Rng, k: u32) -> Sse {
    match r.below(8) {
        0 | 1 => Sse::Delta(100 + k),
        2 => Sse::Completed,
        3 => Sse::CallLs(100 + k),
        4 => Sse::Created,
        _ => gen_noise(r, 100 + k),
    }
}
/// (body, does the part before the first terminal marker carry a function call)
pub fn gen_body(r: &mut Rng, allow_call: bool) -> (Vec<Sse>, bool) {
    let mut b = vec![];
    if !r.chance(1, 8) {
        b.push(Sse::Created);
    }
    for k in 0..r.below(5) as u32 {
        b.push(gen_noise(r, k));
    }
    let call = allow_call && r.chance(1, 3);
    if call {
        b.push(Sse::CallLs(r.below(3) as u32));
    }
    if r.chance(3, 4) {
        b.push(Sse::Completed);
    }
    let done = |r: &mut Rng| if r.chance(1, 5) { Sse::DoneCrlf } else { Sse::Done };
    match r.below(8) {
        0 | 1 => b.push(done(r)),
        2 | 3 | 4 => {
            b.push(done(r));
            for k in 0..r.range(1, 4) as u32 {
                b.push(gen_late(r, k));
            }
        }
        5 => {}
        6 => {
            b.push(done(r));
            b.push(done(r));
        }
        _ => {
            b.push(done(r));
            for k in 0..r.range(1, 3) as u32 {
                b.push(gen_late(r, k));
            }
            b.push(done(r));
            for k in 0..r.below(3) as u32 {
                b.push(gen_late(r, 10 + k));
            }
        }
    }
    (b, call)
}

/// cut positions (byte offsets into the text, increasing)
pub fn gen_cuts(r: &mut Rng, text: &str, char_boundaries: bool) -> (Vec<usize>, &'static str) {
    let first_done = text.find("[DONE]");
    let (mut cuts, label): (Vec<usize>, &'static str) = match r.below(7) {
        0 | 1 => (vec![], "whole"),
        // right after the blank line that ends the marker's event: what follows arrives in a later chunk
        2 => match first_done {
            Some(p) => {
                let rest = &text[p..];
                let end = rest.find("\n\n").map(|i| i + 2).or_else(|| rest.find("\r\n\r\n").map(|i| i + 4)).unwrap_or(rest.len());
                (vec![p + end], "after_done_event")
            }
            None => (vec![], "whole"),
        },
        // between the marker's data line and the blank line that dispatches it
        3 => match first_done {
            Some(p) => (vec![(p + "[DONE]".len() + 1).min(text.len())], "inside_done_event"),
            None => (vec![], "whole"),
        },
        4 => {
            let mut v = vec![];
            let mut from = 0;
            while let Some(i) = text[from..].find("\n\n") {
                v.push(from + i + 2);
                from += i + 2;
            }
            v.pop();
            (v, "per_event")
        }
        _ => {
            let k = r.range(1, 5);
            let mut v: Vec<usize> = (0..k).map(|_| r.below(text.len() as u64 + 1) as usize).collect();
            v.sort();
            (v, "random")
        }
    };
    if char_boundaries {
        for c in cuts.iter_mut() {
            while !text.is_char_boundary(*c) {
                *c -= 1;
            }
        }
    }
    cuts.dedup();
    (cuts, label)
}
fn split_at(text: &[u8], cuts: &[usize]) -> Vec<Vec<u8>> {
    let mut out = vec![];
    let mut prev = 0;
    for &c in cuts {
        let c = c.min(text.len()).max(prev);
        out.push(text[prev..c].to_vec());
        prev = c;
    }
    out.push(text[prev..].to_vec());
    out
}

// ---------------------------------------------------------------------------------------------------
// A(1): the real pipe with the counter threaded through it
const PIPE_SID: &str = "verif"; // the session id ripd::verif::run_sse_pipe gives its frames

fn plain_frame(seq: u64, kind: rip_kernel::EventKind) -> rip_kernel::Event {
    rip_kernel::Event { id: uuid::Uuid::new_v4().to_string(), session_id: PIPE_SID.into(), timestamp_ms: 0, seq, kind }
}

/// what the real decoder + mapper make of one text chunk: (is the terminal marker, frames mapped)
fn parsed_of(dec: &mut SseDecoder, chunk: &str, finish: bool) -> Vec<(bool, usize)> {
    let evs = if finish { dec.finish() } else { dec.push(chunk) };
    let mut mapper = EventFrameMapper::new(PIPE_SID);
    evs.iter().map(|e| (e.kind == ParsedEventKind::Done, mapper.map(e).len())).collect()
}
fn coq_pevs(p: &[(bool, usize)]) -> String {
    format!("[{}]", p.iter().map(|(d, n)| format!("pe {} {}", coq_bool(*d), coq_bool(*n >= 2))).collect::<Vec<_>>().join("; "))
}

pub fn pipe_threaded(ctx: &mut Ctx, wpc: &mut CaseWriter, r: &mut Rng, cases: usize) {
    let rt = tokio::runtime::Builder::new_current_thread().enable_all().build().unwrap();
    let scratch = Scratch::new("c01p");
    let v0 = ctx.res.oracle_violations.len();
    for case_no in 0..cases {
        // (a handful of violations of this group is enough: the session group that follows must get its turn)
        if ctx.stop() || ctx.res.oracle_violations.len() >= v0 + 8 {
            break;
        }
        let path = scratch.path().join(format!("events-{case_no}.jsonl"));
        let log = match rip_log::EventLog::new(path.clone()) {
            Ok(l) => l,
            Err(_) => continue,
        };
        let mut cnt: u64 = 0;
        let mut segs: Vec<String> = vec![];
        let mut replay = vec![];
        let own = |cnt: &mut u64, segs: &mut Vec<String>, kind: rip_kernel::EventKind| {
            let code = etype_code(&kind);
            let _ = log.append(&plain_frame(*cnt, kind));
            *cnt += 1;
            segs.push(format!("SSite {}", coq_etype(code)));
        };
        own(&mut cnt, &mut segs, rip_kernel::EventKind::SessionStarted { input: "x".into() });
        for _ in 0..r.below(4) {
            own(&mut cnt, &mut segs, rip_kernel::EventKind::OutputTextDelta { delta: "pre".into() });
        }
        let pipes = r.range(1, 3);
        let mut violation: Option<String> = None;
        let mut comparable = true;
        for p in 0..pipes {
            let (body, _) = gen_body(r, true);
            let text = render(&body, &format!("r{p}"));
            let (cuts, cut_label) = gen_cuts(r, &text, true);
            let mut chunks = split_at(text.as_bytes(), &cuts);
            let terr = if r.chance(1, 6) {
                let keep = r.below(chunks.len() as u64 + 1) as usize;
                chunks.truncate(keep);
                Some("connection reset by peer".to_string())
            } else {
                None
            };
            replay.push(json!({"body": format!("{body:?}"), "cuts": cuts, "cut": cut_label, "transport_error_after_chunks": terr.as_ref().map(|_| chunks.len())}));
            ctx.res.bump(&format!("pipe_cut={cut_label}"));
            if terr.is_some() {
                ctx.res.bump("pipe_transport_error");
            }
            // the model's view of the chunks: the real decoder on the same text
            let mut dec = SseDecoder::new_with_validation(ValidationOptions::strict());
            let mut pushes = vec![];
            for c in &chunks {
                match std::str::from_utf8(c) {
                    Ok(s) => pushes.push(parsed_of(&mut dec, s, false)),
                    Err(_) => comparable = false,
                }
            }
            let fin = parsed_of(&mut dec, "", true);
            if pushes.iter().flatten().chain(fin.iter()).any(|(d, _)| *d) {
                let after: usize = pushes.iter().map(|p| p.iter().skip_while(|(d, _)| !*d).skip(1).count()).max().unwrap_or(0);
                if after > 0 {
                    ctx.res.bump("pipe_events_after_marker_in_same_push");
                }
            }
            segs.push(format!(
                "SPipe [{}] {}",
                pushes.iter().map(|p| coq_pevs(p)).collect::<Vec<_>>().join("; "),
                if terr.is_some() { "EndTransportError".to_string() } else { format!("(EndFinish {})", coq_pevs(&fin)) }
            ));
            let off = cnt;
            let out = std::panic::catch_unwind(std::panic::AssertUnwindSafe(|| rt.block_on(ripd::verif::run_sse_pipe(path.clone(), chunks.clone(), off, false, terr.clone()))));
            let (frames, seq_after) = match out {
                Ok((frames, seq, _, _)) => (frames, seq),
                Err(_) => {
                    ctx.res.oracle_violations.push(OracleViolation { case_id: -1, what: "OpenResponsesSsePipe panicked".into(), class: "panic".into(), replay: json!({"pipe_threaded": replay}) });
                    comparable = false;
                    break;
                }
            };
            if violation.is_none() && seq_after != off + frames.len() as u64 {
                violation = Some(format!("pipe {p}: the counter was lent at {off}, {} frames were emitted, it came back as {seq_after}", frames.len()));
            }
            ctx.res.bump_by("pipe_frames", frames.len() as u64);
            cnt = seq_after; // the session goes on numbering from what the pipe hands back
            for _ in 0..r.below(3) {
                own(&mut cnt, &mut segs, rip_kernel::EventKind::OutputTextDelta { delta: "between".into() });
            }
        }
        own(&mut cnt, &mut segs, rip_kernel::EventKind::SessionEnded { reason: "completed".into() });
        drop(log);
        ctx.res.evaluations += 1;
        ctx.leaves += 1;
        ctx.res.oracle_checks += 1;
        ctx.res.bump("kind=pipe_threaded_counter");
        let bytes = std::fs::read(&path).unwrap_or_default();
        let rp = json!({"pipe_threaded": replay, "seed_case": case_no});
        match parse_log(&bytes) {
            Err(e) => ctx.res.oracle_violations.push(OracleViolation { case_id: -1, what: format!("pipe threaded: {e}"), class: "partial_frame".into(), replay: rp }),
            Ok(hs) => {
                let order = first_order_violation(&hs);
                let validated = rip_log::EventLog::new(path.clone()).and_then(|l| l.replay_validated()).map(|_| ()).map_err(|e| e.to_string());
                let mut id = -1i64;
                if comparable && !ctx.oracle_only {
                    let mut obs = vec![];
                    for h in hs.iter().filter(|h| h.sid == PIPE_SID) {
                        obs.extend([h.seq, h.code]);
                    }
                    obs.push(cnt);
                    let cid = wpc.push(format!("{{| pc_segs := [{}]; pc_expect := {} |}}", segs.join("; "), coq_list_n(&obs)));
                    id = cid as i64;
                    if ctx.res.case_index.len() < 3000 {
                        ctx.res.case_index.insert(cid.to_string(), rp.clone());
                    }
                }
                let what = match (order, validated, violation) {
                    (Some(v), _, _) => Some(format!("the session's stream after the provider pipe(s): {v}")),
                    (None, Err(e), _) => Some(format!("validated replay of the log fails: {e}")),
                    (None, Ok(()), Some(v)) => Some(v),
                    _ => None,
                };
                if let Some(what) = what {
                    if ctx.res.oracle_violations.len() < 20 {
                        ctx.res.oracle_violations.push(OracleViolation { case_id: id, what, class: "session_stream_file_order".into(), replay: rp });
                    }
                    ctx.res.bump("violation=session_stream_file_order");
                }
                if ctx.res.samples.len() < 3 {
                    ctx.res.samples.push(json!({"pipe_threaded": replay}));
                }
            }
        }
        let _ = std::fs::remove_file(&path);
    }
    ctx.mark("pipe_threaded_counter");
}

// ---------------------------------------------------------------------------------------------------
// A(2): whole sessions against a local provider serving bodies of the grammar
pub fn grammar_sessions(ctx: &mut Ctx, wsg: &mut CaseWriter, r: &mut Rng, cases: usize) {
    use rv::provider::Scripted;
    for case_no in 0..cases {
        if ctx.stop() {
            break;
        }
        let mut script = vec![];
        let mut replay = vec![];
        // a body whose live part carries a function call is followed by another request
        for p in 0..3 {
            let (body, call) = if case_no == 0 && p == 0 {
                // the plainest late-event body first: a delta, the marker, and in the same chunk a delta and one more event
                (vec![Sse::Created, Sse::Delta(0), Sse::Done, Sse::Delta(1), Sse::Completed], false)
            } else {
                gen_body(r, p < 2)
            };
            let text = render(&body, &format!("r{p}"));
            let (cuts, cut_label) = if case_no == 0 { (vec![], "whole") } else { gen_cuts(r, &text, false) };
            let chunks = split_at(text.as_bytes(), &cuts);
            let mut sc = Scripted::sse(chunks.clone());
            if !cuts.is_empty() {
                sc.delay_ms = 15; // lets the client see separate reads; the oracle does not depend on it
            }
            if case_no != 0 && r.chance(1, 7) {
                sc.drop_after_chunks = Some(r.below(chunks.len() as u64 + 1) as usize);
                ctx.res.bump("session_grammar_connection_dropped");
            }
            replay.push(json!({"body": format!("{body:?}"), "cuts": cuts, "cut": cut_label, "drop_after_chunks": sc.drop_after_chunks}));
            ctx.res.bump(&format!("session_grammar_cut={cut_label}"));
            script.push(sc);
            if !call {
                break;
            }
        }
        run_scripted_session(ctx, wsg, "grammar", script, r.chance(1, 3), rip_provider_openresponses::ToolChoiceParam::auto(), json!({"session_grammar": replay, "case": case_no}), 10);
        ctx.mark("session_grammar");
    }
}

// ---------------------------------------------------------------------------------------------------
// B: log writes that fail
#[derive(Clone, Debug, PartialEq)]
pub enum W {
    /// one of the hook-reachable append functions (etype code 4, 5, 13, 14, 6, 7, 8)
    Kind(u64),
    Checkpoint,
    CursorRotate,
    Auto { schedule: bool },
    Branch,
    Handoff,
    /// ensure_default: create_continuity when the authority has no default thread yet (a history that starts
    /// with this step starts on an empty data dir)
    EnsureDefault,
    Restart,
}
#[derive(Clone, Debug)]
pub struct Step {
    w: W,
    th: usize,
    /// which log writes of this call fail (0 = its first)
    fail: Vec<usize>,
    /// RLIMIT_FSIZE = size of events.jsonl for the duration of the call: the kernel refuses every write that
    /// would grow the log
    rlimit: bool,
}

static ATTEMPTS: AtomicUsize = AtomicUsize::new(0);
static FAIL_SET: std::sync::Mutex<Vec<usize>> = std::sync::Mutex::new(Vec::new());

fn with_fsize_limit<T>(limit: u64, f: impl FnOnce() -> T) -> T {
    unsafe {
        libc::signal(libc::SIGXFSZ, libc::SIG_IGN);
        let mut old = libc::rlimit { rlim_cur: 0, rlim_max: 0 };
        libc::getrlimit(libc::RLIMIT_FSIZE, &mut old);
        let new = libc::rlimit { rlim_cur: limit as libc::rlim_t, rlim_max: old.rlim_max };
        libc::setrlimit(libc::RLIMIT_FSIZE, &new);
        let out = f();
        libc::setrlimit(libc::RLIMIT_FSIZE, &old);
        out
    }
}

fn do_writer(store: &ContinuityStore, id: &str, w: &W, tag: u64) {
    let (a, o) = ("user".to_string(), "harness".to_string());
    match w {
        W::Kind(t) => {
            let _ = append_kind(store, id, *t, tag);
        }
        W::Checkpoint => {
            let _ = store.compaction_checkpoint_cumulative_v1(id, CompactionCheckpointCumulativeV1Request { summary_markdown: Some(format!("# cp {tag}")), summary_artifact_id: None, to_message_id: None, to_seq: None, stride_messages: Some(1), actor_id: a, origin: o });
        }
        W::CursorRotate => {
            let _ = store.provider_cursor_rotate_v1(id, ProviderCursorRotateV1Request { provider: None, endpoint: None, model: None, reason: Some("switch".into()), actor_id: a, origin: o });
        }
        W::Auto { schedule } => {
            if *schedule {
                let _ = store.compaction_auto_schedule_v1(id, CompactionAutoScheduleV1Request { stride_messages: Some(1), max_new_checkpoints: Some(2), block_on_inflight: Some(false), execute: Some(true), dry_run: Some(false), actor_id: a, origin: o });
            } else {
                let _ = store.compaction_auto_v1(id, CompactionAutoV1Request { stride_messages: Some(1), max_new_checkpoints: Some(2), dry_run: Some(false), actor_id: a, origin: o });
            }
        }
        W::Branch => {
            let _ = store.branch(id, None, None, None, a, o);
        }
        W::Handoff => {
            let _ = store.handoff(id, None, (Some("# s".into()), None), None, None, (a, o));
        }
        W::EnsureDefault => {
            let _ = store.ensure_default();
        }
        W::Restart => {}
    }
}

fn wname(w: &W) -> String {
    match w {
        W::Kind(t) => ETYPES[*t as usize].to_string(),
        W::Auto { schedule } => if *schedule { "CompactionAutoSchedule".into() } else { "CompactionAuto".into() },
        o => format!("{o:?}"),
    }
}

/// runs one history; returns (coq calls, observation, first violation)
fn run_failure_history(steps: &[Step]) -> (Vec<String>, Vec<u64>, Option<String>, u64) {
    let scratch = Scratch::new("c01f");
    let mut env = Env::open(scratch.path());
    if steps.first().map(|s| s.w != W::EnsureDefault).unwrap_or(true) {
        env.store.ensure_default().expect("default thread");
    }
    rip_kernel::verif::set_fail_hook(Some(Arc::new(|name: &'static str| {
        if name != "log.append" {
            return false;
        }
        let i = ATTEMPTS.fetch_add(1, Ordering::SeqCst);
        FAIL_SET.lock().unwrap().contains(&i)
    })));
    let mut calls = vec![];
    let mut counts = vec![];
    let mut violation = None;
    let mut refused_total = 0u64;
    let mut failed_before = false;
    for (si, st) in steps.iter().enumerate() {
        if st.w == W::Restart {
            env.restart();
            calls.push("FRestart".to_string());
            counts.push(parse_log(&env.log_bytes()).map(|h| h.len()).unwrap_or(0) as u64);
            continue;
        }
        let before = parse_log(&env.log_bytes()).unwrap_or_default();
        let ids = created_ids(&before);
        let th = st.th % ids.len().max(1);
        let id = id_at(&ids, th);
        ATTEMPTS.store(0, Ordering::SeqCst);
        *FAIL_SET.lock().unwrap() = if st.rlimit { vec![] } else { st.fail.clone() };
        let store = env.store.clone();
        let run = || {
            let _ = std::panic::catch_unwind(std::panic::AssertUnwindSafe(|| do_writer(&store, &id, &st.w, si as u64)));
        };
        if st.rlimit {
            let size = std::fs::metadata(env.log_path()).map(|m| m.len()).unwrap_or(0);
            with_fsize_limit(size, run);
        } else {
            run();
        }
        FAIL_SET.lock().unwrap().clear();
        let attempts = ATTEMPTS.load(Ordering::SeqCst);
        let bytes = env.log_bytes();
        let after = match parse_log(&bytes) {
            Ok(h) => h,
            Err(e) => {
                violation.get_or_insert(format!("step {si} ({}): {e}", wname(&st.w)));
                break;
            }
        };
        counts.push(after.len() as u64);
        let new: Vec<&Hdr> = after[before.len().min(after.len())..].iter().collect();
        let refused = attempts.saturating_sub(new.len());
        refused_total += refused as u64;
        // the trace of the call: its log writes in order, the refused ones marked
        let mut it = new.iter();
        let failed_here = |i: usize| if st.rlimit { true } else { st.fail.contains(&i) };
        match st.w {
            W::Branch | W::Handoff => {
                let t = if st.w == W::Branch { "EContinuityBranched" } else { "EContinuityHandoffCreated" };
                let k = (0..attempts).find(|i| failed_here(*i));
                calls.push(format!("FLineage {t} {} {}", coq_nat(th as u64), match k { Some(k) => format!("(Some {})", coq_nat(k as u64)), None => "None".into() }));
            }
            W::EnsureDefault if attempts > 0 => {
                let k = (0..attempts).find(|i| failed_here(*i));
                calls.push(format!("FCreate {}", match k { Some(k) => format!("(Some {})", coq_nat(k as u64)), None => "None".into() }));
            }
            _ => {
                let mut tr = vec![];
                for i in 0..attempts {
                    if failed_here(i) {
                        tr.push("None".to_string());
                    } else {
                        match it.next() {
                            Some(h) => tr.push(format!("(Some {})", coq_etype(h.code))),
                            None => tr.push("None".to_string()),
                        }
                    }
                }
                calls.push(format!("FAppends {} [{}]", coq_nat(th as u64), tr.join("; ")));
            }
        }
        if violation.is_none() {
            if let Some(v) = first_order_violation(&after) {
                violation = Some(format!(
                    "after step {si} ({}{}): {v}{}",
                    wname(&st.w),
                    if refused > 0 { format!(", {refused} of its {attempts} log writes refused") } else { String::new() },
                    if failed_before { " - an earlier call on this authority had a log write refused and the process went on" } else { "" }
                ));
            }
        }
        if refused > 0 {
            failed_before = true;
        }
    }
    rip_kernel::verif::set_fail_hook(None);
    let bytes = env.log_bytes();
    let hs = parse_log(&bytes).unwrap_or_default();
    if violation.is_none() {
        if let Err(e) = rip_log::EventLog::new(env.log_path()).and_then(|l| l.replay_validated()) {
            violation = Some(format!("validated replay of the log fails at the end of the history: {e}"));
        }
    }
    let mut obs = counts;
    obs.push(first_order_violation(&hs).is_none() as u64);
    obs.extend(canon_log(&hs));
    (calls, obs, violation, refused_total)
}

fn record_failure_history(ctx: &mut Ctx, waf: &mut CaseWriter, steps: &[Step], kind: &str) {
    if ctx.stop() {
        return;
    }
    let (calls, obs, violation, refused) = run_failure_history(steps);
    ctx.res.evaluations += 1;
    ctx.leaves += 1;
    ctx.res.oracle_checks += 1;
    ctx.res.bump(&format!("kind={kind}"));
    ctx.res.bump_by("log_writes_refused", refused);
    for st in steps.iter().filter(|s| !s.fail.is_empty() || s.rlimit) {
        ctx.res.bump(&format!("refused_at={}{}", wname(&st.w), if st.rlimit { "(rlimit)" } else { "" }));
    }
    let replay = json!({"append_failure_history": steps.iter().map(|s| format!("{s:?}")).collect::<Vec<_>>()});
    let mut id = -1i64;
    if !ctx.oracle_only {
        let setup = if steps.first().map(|s| s.w != W::EnsureDefault).unwrap_or(true) { "[KCap CapEnsureDefault 0%nat fact_ok]" } else { "[]" };
        let cid = waf.push(format!("{{| af_setup := {setup}; af_calls := [{}]; af_expect := {} |}}", calls.join("; "), coq_list_n(&obs)));
        id = cid as i64;
        if ctx.res.case_index.len() < 3000 {
            ctx.res.case_index.insert(cid.to_string(), replay.clone());
        }
    }
    if refused > 0 {
        ctx.distinct.add(&format!("{steps:?}"));
    }
    if let Some(what) = violation {
        // shrink: drop steps while the history still violates
        let shrunk = shrink_vec(steps.to_vec(), |s| !s.is_empty() && run_failure_history(s).2.is_some());
        let (_, _, v2, refused2) = run_failure_history(&shrunk);
        let class = if refused2 > 0 || refused > 0 { "refused_log_write_left_counter_ahead" } else { "seq_order_violation" };
        if ctx.res.oracle_violations.len() < 20 {
            ctx.res.oracle_violations.push(OracleViolation {
                case_id: id,
                what: v2.unwrap_or(what),
                class: class.into(),
                replay: json!({"append_failure_history": shrunk.iter().map(|s| format!("{s:?}")).collect::<Vec<_>>()}),
            });
        }
        ctx.res.bump(&format!("violation={class}"));
    }
}

pub fn append_failures(ctx: &mut Ctx, waf: &mut CaseWriter, r: &mut Rng, thorough: bool) {
    let ok = |w: W| Step { w, th: 0, fail: vec![], rlimit: false };
    let setup = || vec![ok(W::Kind(4)), ok(W::Kind(5)), ok(W::Kind(8)), ok(W::Kind(4)), ok(W::Kind(4))];
    let writers = vec![W::Kind(4), W::Kind(5), W::Kind(13), W::Kind(14), W::Kind(6), W::Kind(7), W::Kind(8), W::Checkpoint, W::CursorRotate, W::Auto { schedule: false }, W::Auto { schedule: true }, W::Branch, W::Handoff];
    // how many log writes a call of each writer makes on the set-up thread
    let mut n_writes = vec![];
    for w in &writers {
        let mut h = setup();
        h.push(ok(w.clone()));
        let before = ATTEMPTS.load(Ordering::SeqCst);
        let _ = before;
        let (calls, _, _, _) = run_failure_history(&h);
        let last = calls.last().cloned().unwrap_or_default();
        let n = if last.starts_with("FLineage") { 2 } else { last.matches("Some").count() };
        n_writes.push(n.max(1));
        ctx.res.notes.push(format!("log writes of one {} call: {n}", wname(w)));
    }
    // every writer x every one of its log writes x (warm counter | cold counter: restart right before)
    for (w, n) in writers.iter().zip(n_writes.iter()) {
        for k in 0..*n {
            for cold in [false, true] {
                let mut h = setup();
                if cold {
                    h.push(ok(W::Restart));
                }
                h.push(Step { w: w.clone(), th: 0, fail: vec![k], rlimit: false });
                h.push(ok(w.clone())); // the retry
                h.push(ok(W::Kind(4)));
                h.push(ok(r.pick(&writers[..]).clone()));
                h.push(Step { w: W::Kind(13), th: 1, fail: vec![], rlimit: false }); // the newest child, if one was made
                record_failure_history(ctx, waf, &h, "append_failure_each_writer");
            }
        }
        // the kernel refuses to grow the log (EFBIG) for the whole call
        let mut h = setup();
        h.push(Step { w: w.clone(), th: 0, fail: vec![], rlimit: true });
        h.push(ok(w.clone()));
        h.push(ok(W::Kind(4)));
        record_failure_history(ctx, waf, &h, "append_failure_file_size_limit");
    }
    // the very first frame of an authority: create_continuity refused, then retried (warm / after a restart / by the kernel)
    for (fail, rlimit, restart) in [(vec![0usize], false, false), (vec![0], false, true), (vec![], true, false), (vec![0, 1], false, false)] {
        let mut h = vec![Step { w: W::EnsureDefault, th: 0, fail, rlimit }];
        if restart {
            h.push(ok(W::Restart));
        }
        h.extend([ok(W::EnsureDefault), ok(W::EnsureDefault), ok(W::Kind(4)), ok(W::Branch), Step { w: W::Kind(4), th: 1, fail: vec![], rlimit: false }]);
        record_failure_history(ctx, waf, &h, "append_failure_each_writer");
    }
    ctx.mark("append_failure_each_writer");
    // random histories
    for _ in 0..(if thorough { 400 } else { 60 }) {
        let mut h = setup();
        h.truncate(r.range(1, 5) as usize);
        for _ in 0..r.range(4, 12) {
            if r.chance(1, 10) {
                h.push(ok(W::Restart));
                continue;
            }
            let w = r.pick(&writers[..]).clone();
            let th = r.below(3) as usize;
            let (fail, rlimit) = match r.below(9) {
                0 | 1 => (vec![0], false),
                2 => (vec![r.below(4) as usize], false),
                3 => ((0..4).filter(|_| r.chance(1, 2)).collect(), false),
                4 => (vec![], true),
                _ => (vec![], false),
            };
            h.push(Step { w, th, fail, rlimit });
        }
        h.push(ok(W::Kind(4)));
        record_failure_history(ctx, waf, &h, "append_failure_random_history");
    }
    ctx.mark("append_failure_random_history");
}

// ---------------------------------------------------------------------------------------------------
// C: the session emitter when a log write is refused in the middle of a run (open finding W3-order: the C01
// face of C03's W3 - emit_event numbers, records and publishes a frame, then writes it to the log and drops
// the result).  One stub run and one `ls` tool-envelope run on the real engine, the k-th log write refused.
pub const CLASS_SESSION_REFUSED: &str = "session_emitter_numbers_frame_whose_log_write_was_refused";

pub fn session_refused_write(ctx: &mut Ctx) {
    for (tool, k) in [(false, 1usize), (true, 2), (true, 0)] {
        if ctx.stop() {
            return;
        }
        let scratch = Scratch::new("c01w");
        let data_dir = scratch.path().join("data");
        let ws = scratch.path().join("ws");
        std::fs::create_dir_all(&data_dir).unwrap();
        std::fs::create_dir_all(&ws).unwrap();
        let _ = std::fs::write(ws.join("a.txt"), b"hello\n");
        let rt = tokio::runtime::Builder::new_current_thread().enable_all().build().unwrap();
        let engine = {
            let _g = rt.enter();
            match ripd::SessionEngine::new(data_dir.clone(), ws, None) {
                Ok(e) => Arc::new(e),
                Err(_) => continue,
            }
        };
        let handle = engine.create_session();
        let sid = handle.session_id.clone();
        ATTEMPTS.store(0, Ordering::SeqCst);
        *FAIL_SET.lock().unwrap() = vec![k];
        rip_kernel::verif::set_fail_hook(Some(Arc::new(|name: &'static str| {
            if name != "log.append" {
                return false;
            }
            let i = ATTEMPTS.fetch_add(1, Ordering::SeqCst);
            FAIL_SET.lock().unwrap().contains(&i)
        })));
        let _ = std::panic::catch_unwind(std::panic::AssertUnwindSafe(|| rt.block_on(ripd::verif::run_session_inline(&engine, handle, race_input(tool, 0), None))));
        rip_kernel::verif::set_fail_hook(None);
        FAIL_SET.lock().unwrap().clear();
        let attempts = ATTEMPTS.load(Ordering::SeqCst);
        ctx.res.evaluations += 1;
        ctx.leaves += 1;
        ctx.res.oracle_checks += 1;
        ctx.res.bump("kind=session_refused_write");
        let hs = parse_log(&std::fs::read(data_dir.join("events.jsonl")).unwrap_or_default()).unwrap_or_default();
        let seqs: Vec<u64> = hs.iter().filter(|h| h.sid == sid).map(|h| h.seq).collect();
        if let Some(v) = first_order_violation(&hs) {
            // executable class: the run made `attempts` log writes, the k-th was refused, and the session's stream in
            // the log is exactly 0..attempts without k - every frame was numbered, the refused one is missing
            let expected: Vec<u64> = (0..attempts as u64).filter(|i| *i != k as u64).collect();
            let class = if seqs == expected && k < attempts { CLASS_SESSION_REFUSED } else { "session_stream_file_order" };
            ctx.res.oracle_violations.push(OracleViolation {
                case_id: -1,
                what: format!("a {} run whose log write #{k} (of {attempts}) was refused while the run went on: {v}; the session's stream in the log: {seqs:?}", if tool { "tool-envelope" } else { "stub" }),
                class: class.into(),
                replay: json!({"session_refused_write": {"tool_envelope": tool, "refused_log_write": k}}),
            });
            ctx.res.bump(&format!("violation={class}"));
        }
    }
    ctx.mark("session_refused_write");
}
