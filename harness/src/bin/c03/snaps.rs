//! C03 (replay fidelity) — sessions of ONE engine that end at the same moment.
//!
//! Every run ends with `write_snapshot(snapshot_dir, session_id, frames)` on its own tokio task; all runs of a server
//! share the snapshot directory.  The property holds per stream: the snapshot of session A reproduces A's frames,
//! whatever else the process is doing.  This search starts K sessions on one engine at once and makes their
//! snapshot writes OVERLAP: a `rip_kernel::verif` hook holds every writer at the point `snap.created` (the file is
//! created, nothing is written yet) until all K writers of the round have arrived there, at most 3 s — it only widens
//! the window and never decides a verdict.  Afterwards, per session: live frames = `snapshots/<id>.json` read back =
//! the session's frames in events.jsonl.  Code that writes each snapshot to a file of its own passes under every
//! schedule; a scratch file, buffer or name shared between runs (seeded change C03-7) does not.
#![allow(dead_code)]

use std::panic::{catch_unwind, AssertUnwindSafe};
use std::path::Path;
use std::sync::{Arc, Condvar, Mutex};
use std::time::{Duration, Instant};

use rip_kernel::StreamKind;
use ripd::SessionEngine;
use rv::{OracleViolation, Scratch};
use serde_json::json;

use super::sized::{self, SizedOutcome};

const K: usize = 6;

struct Gate {
    arrived: Mutex<usize>,
    cv: Condvar,
}

async fn one_round(round: usize, root: &Path, gate: &Arc<Gate>) -> Result<(u64, Option<(String, serde_json::Value)>), String> {
    let data_dir = root.join(format!("data{round}"));
    let workspace = root.join(format!("workspace{round}"));
    std::fs::create_dir_all(&workspace).map_err(|e| e.to_string())?;
    std::fs::write(workspace.join("a.txt"), "alpha\nbeta\n").map_err(|e| e.to_string())?;
    let engine = SessionEngine::new(data_dir.clone(), workspace, None)?;
    *gate.arrived.lock().unwrap_or_else(|e| e.into_inner()) = 0;
    let inputs: Vec<String> = (0..K)
        .map(|i| match i % 3 {
            0 => format!("round {round} session {i}: a prompt \u{e9}\u{1F600}"),
            1 => json!({"tool": "read", "args": {"path": "a.txt"}}).to_string(),
            _ => json!({"tool": "ls", "args": {"path": "."}}).to_string(),
        })
        .collect();
    let runs = inputs.iter().map(|input| sized::run_session(&engine, input.clone(), None));
    let results = futures_util::future::join_all(runs).await;
    let log_path = data_dir.join("events.jsonl");
    let (lines, _) = sized::lines_from(&log_path, 0)?;
    let mut frames = 0u64;
    for (i, r) in results.into_iter().enumerate() {
        let (sid, live) = r?;
        frames += live.len() as u64;
        let live_lines: Vec<String> = live.iter().map(sized::line_of).collect();
        let logged: Vec<String> = sized::stream_lines(&lines, StreamKind::Session, &sid)?.into_iter().map(|(l, _)| l).collect();
        let snap_path = data_dir.join("snapshots").join(format!("{sid}.json"));
        let snap = rip_log::read_snapshot(&snap_path).map(|v| v.iter().map(sized::line_of).collect::<Vec<String>>());
        let what = match &snap {
            Err(e) => Some(format!("session #{i} ({sid}) of {K} that ended together has no readable snapshot ({e}); its live subscriber received {} frames, the log holds {}", live_lines.len(), logged.len())),
            Ok(s) if *s != logged || live_lines != logged => {
                let foreign = s.iter().filter(|l| !logged.contains(l)).count();
                Some(format!(
                    "session #{i} ({sid}) of {K} that ended together: its snapshot holds {} frames ({foreign} of them are not frames of this session in the log), its live subscriber received {}, the log holds {}",
                    s.len(),
                    live_lines.len(),
                    logged.len()
                ))
            }
            Ok(_) => None,
        };
        if let Some(w) = what {
            let files: Vec<String> = std::fs::read_dir(data_dir.join("snapshots")).map(|d| d.flatten().map(|e| e.file_name().to_string_lossy().into_owned()).collect()).unwrap_or_default();
            return Ok((frames, Some((w, json!({"round": round, "session_index": i, "sessions": K, "files_in_snapshots_dir": files.len(), "scratch_like_files": files.iter().filter(|f| !f.ends_with(".json")).collect::<Vec<_>>()})))));
        }
    }
    Ok((frames, None))
}

pub fn concurrent_session_ends(rounds: usize) -> SizedOutcome {
    let mut out = SizedOutcome::default();
    let t0 = Instant::now();
    let gate = Arc::new(Gate { arrived: Mutex::new(0), cv: Condvar::new() });
    let g = gate.clone();
    rip_kernel::verif::set_hook(Some(Arc::new(move |name: &'static str| {
        if name == "snap.created" {
            let mut n = g.arrived.lock().unwrap_or_else(|e| e.into_inner());
            *n += 1;
            g.cv.notify_all();
            let _ = g.cv.wait_timeout_while(n, Duration::from_secs(3), |n| *n < K);
        }
    })));
    let scratch = Scratch::new("c03s");
    let rt = match tokio::runtime::Builder::new_multi_thread().worker_threads(2 * K + 2).enable_all().build() {
        Ok(rt) => rt,
        Err(e) => {
            rip_kernel::verif::set_hook(None);
            out.notes.push(format!("concurrent session ends: no runtime: {e}"));
            return out;
        }
    };
    for round in 0..rounds {
        out.evaluations += 1;
        let replay = json!({"kind": "concurrent_session_ends", "round": round, "sessions": K,
            "how": "one SessionEngine; 6 sessions (prompt / read / ls) spawned at once, a subscriber attached to each before the run; a rip_verif hook holds every write_snapshot at the point snap.created until all 6 have arrived (at most 3 s); then per session compare live frames, snapshots/<id>.json and the session's lines in events.jsonl"});
        match catch_unwind(AssertUnwindSafe(|| rt.block_on(one_round(round, scratch.path(), &gate)))) {
            Ok(Ok((frames, bad))) => {
                out.oracle_checks += K as u64;
                out.frames_compared += 2 * frames;
                *out.distribution.entry("concurrent_session_ends.frames".into()).or_insert(0) += frames;
                if let Some((what, detail)) = bad {
                    let mut rp = replay;
                    rp["detail"] = detail;
                    out.violations.push(OracleViolation { case_id: -(7_000_001 + round as i64), what: format!("sessions of one engine ending together, round {round}: {what}"), class: "concurrent_snapshots_differ".into(), replay: rp });
                    break;
                }
            }
            Ok(Err(e)) => out.notes.push(format!("concurrent session ends round {round}: not run: {e}")),
            Err(p) => {
                let msg = p.downcast_ref::<String>().cloned().or_else(|| p.downcast_ref::<&str>().map(|s| s.to_string())).unwrap_or_default();
                out.violations.push(OracleViolation { case_id: -(7_000_001 + round as i64), what: format!("concurrent session ends: panic: {msg}"), class: "panic".into(), replay });
                break;
            }
        }
    }
    rip_kernel::verif::set_hook(None);
    *out.distribution.entry("concurrent_session_ends.rounds".into()).or_insert(0) += out.evaluations;
    out.notes.push(format!("concurrent session ends: {} rounds x {K} sessions, {:.1}s", out.evaluations, t0.elapsed().as_secs_f64()));
    out
}
