//! C03 (replay fidelity) — two fixed-shape searches that the seeded histories do not reach:
//!
//! * `concurrent_writers`: several OS threads append to ONE thread of a real `ContinuityStore` through the public
//!   API at the same time (tool side effects, messages, run frames), free running, a subscriber attached.
//!   Afterwards the log must replay (`replay_validated`), and the order in which the subscriber received the
//!   frames, the order of the thread's frames in events.jsonl, the sidecar file line by line and
//!   `replay_events` must be one and the same sequence.  On code that holds the seq mutex across log append,
//!   sidecar append and broadcast this holds under EVERY schedule (nothing here depends on timing); the search
//!   only looks for a schedule on which it fails.
//! * `long_session`: ONE session with many thousand frames (`ls` over a directory of empty files: one
//!   `tool_stdout` frame per entry).  Live stream = log = snapshot, frame for frame, and `verify_snapshot`.
#![allow(dead_code)]

use std::collections::BTreeMap;
use std::panic::{catch_unwind, AssertUnwindSafe};
use std::path::Path;
use std::sync::{Arc, Barrier};
use std::time::{Duration, Instant};

use rip_kernel::{Event, EventKind, StreamKind};
use rip_log::EventLog;
use ripd::{ContinuityRunLink, ContinuityStore, SessionEngine, ToolSideEffects};
use rv::{OracleViolation, Rng, Scratch};
use serde_json::{json, Value};
use tokio::sync::broadcast::error::{RecvError, TryRecvError};

#[derive(Default)]
pub struct ExtraOutcome {
    pub evaluations: u64,
    pub oracle_checks: u64,
    pub frames_compared: u64,
    pub violations: Vec<OracleViolation>,
    pub distribution: BTreeMap<String, u64>,
    pub notes: Vec<String>,
}
impl ExtraOutcome {
    fn bump(&mut self, k: &str, n: u64) {
        *self.distribution.entry(k.to_string()).or_insert(0) += n;
    }
}

fn canon(e: &Event) -> Value {
    serde_json::to_value(e).unwrap_or(Value::Null)
}
fn ty(v: &Value) -> String {
    v.get("type").and_then(|t| t.as_str()).unwrap_or("?").to_string()
}
fn seq(v: &Value) -> u64 {
    v.get("seq").and_then(|s| s.as_u64()).unwrap_or(u64::MAX)
}
fn short(v: &Value) -> String {
    let s = v.to_string();
    if s.len() > 260 {
        let mut end = 260;
        while !s.is_char_boundary(end) {
            end -= 1;
        }
        format!("{}…(+{} bytes)", &s[..end], s.len() - end)
    } else {
        s
    }
}

/// first position at which two frame sequences differ (or the shorter length), with the seqs around it
fn first_difference(a: &[Value], b: &[Value]) -> Option<(usize, Value)> {
    let n = a.len().min(b.len());
    let at = (0..n).find(|i| a[*i] != b[*i]).or(if a.len() != b.len() { Some(n) } else { None })?;
    let lo = at.saturating_sub(2);
    let win = |v: &[Value]| v.iter().skip(lo).take(5).map(|x| json!({"seq": seq(x), "type": ty(x), "id": x.get("id").cloned().unwrap_or(Value::Null)})).collect::<Vec<_>>();
    Some((at, json!({"position": at, "lens": [a.len(), b.len()], "first_shown_position": lo, "a": win(a), "b": win(b)})))
}

// ------------------------------------------------------------------------------------------------
// several writers on one thread
// ------------------------------------------------------------------------------------------------

const WRITERS: usize = 4;

fn read_lines(path: &Path) -> Result<Vec<Value>, String> {
    let text = std::fs::read_to_string(path).map_err(|e| format!("read {}: {e}", path.display()))?;
    let mut out = vec![];
    for (i, line) in text.lines().enumerate() {
        if line.trim().is_empty() {
            continue;
        }
        let ev: Event = serde_json::from_str(line).map_err(|e| format!("{} line {i} does not parse: {e}", path.display()))?;
        out.push(canon(&ev));
    }
    Ok(out)
}

struct Round {
    frames: u64,
    checks: u64,
    /// (what, detail) — the first view that differs
    bad: Option<(String, Value)>,
    errors: u64,
}

fn one_round(seed: u64, round: usize, per_writer: usize) -> Result<Round, String> {
    let scratch = Scratch::new("c03w");
    let data_dir = scratch.path().join("data");
    let workspace = scratch.path().join("workspace");
    std::fs::create_dir_all(&workspace).map_err(|e| e.to_string())?;
    let log = Arc::new(EventLog::new(data_dir.join("events.jsonl")).map_err(|e| e.to_string())?);
    let store = Arc::new(ContinuityStore::new(data_dir.clone(), workspace, log.clone())?);
    let cid = store.ensure_default()?;
    let mid = store.append_message(&cid, "user".into(), "cli".into(), "go".into())?;
    let mut live = store.subscribe();

    let barrier = Arc::new(Barrier::new(WRITERS));
    let mut handles = vec![];
    for w in 0..WRITERS {
        let (store, barrier, cid, mid) = (store.clone(), barrier.clone(), cid.clone(), mid.clone());
        let mut r = Rng::new(seed.wrapping_mul(977).wrapping_add((round * WRITERS + w) as u64));
        handles.push(std::thread::spawn(move || -> u64 {
            let link = ContinuityRunLink { continuity_id: cid.clone(), message_id: mid.clone(), actor_id: "user".into(), origin: "cli".into() };
            let mut errors = 0u64;
            barrier.wait();
            for i in 0..per_writer {
                // writers 0 and 1: side effects of two runs; writer 2: messages; writer 3: a mix of the public append paths
                let path = match w {
                    0 | 1 => 0,
                    2 => 1,
                    _ => r.below(7),
                };
                let res: Result<(), String> = match path {
                    0 => store
                        .append_tool_side_effects(
                            &link,
                            &format!("run-{w}"),
                            ToolSideEffects { tool_id: format!("tool-{w}-{i}"), tool_name: "write".into(), affected_paths: Some(vec![format!("f{i}.txt")]), checkpoint_id: None },
                        )
                        .map(|_| ()),
                    1 => store.append_message(&cid, "user".into(), "cli".into(), format!("message {w}/{i} \u{e9}\u{1F600}")).map(|_| ()),
                    2 => store.append_run_spawned(&cid, &mid, &format!("run-{w}-{i}"), "user".into(), "cli".into()).map(|_| ()),
                    3 => store.append_run_ended(&cid, &mid, &format!("run-{w}-{i}"), "completed".into(), "user".into(), "cli".into()).map(|_| ()),
                    4 => ripd::verif::append_context_selection_decided(&store, &cid, format!("run-{w}-{i}"), mid.clone(), "recent_messages_v1".into(), vec![], "user".into(), "cli".into()).map(|_| ()),
                    5 => ripd::verif::append_context_compiled(&store, &cid, format!("run-{w}-{i}"), format!("{:064x}", i), "recent_messages_v1".into(), i as u64, Some(mid.clone()), "user".into(), "cli".into()).map(|_| ()),
                    _ => ripd::verif::append_provider_cursor_updated(&store, &cid, "openresponses".into(), None, None, Some(json!({"previous_response_id": format!("resp_{i}")})), "set".into(), Some(format!("run-{w}-{i}")), "user".into(), "cli".into()).map(|_| ()),
                };
                if res.is_err() {
                    errors += 1;
                }
            }
            errors
        }));
    }
    let mut errors = 0;
    for h in handles {
        errors += h.join().map_err(|_| "a writer thread panicked".to_string())?;
    }

    let mut got: Vec<Value> = vec![];
    let mut lagged = 0u64;
    loop {
        match live.try_recv() {
            Ok(ev) => got.push(canon(&ev)),
            Err(TryRecvError::Lagged(n)) => lagged += n,
            Err(_) => break,
        }
    }
    let mut round_out = Round { frames: got.len() as u64, checks: 0, bad: None, errors };
    if lagged > 0 {
        return Err(format!("the subscriber lagged by {lagged} frames (round too long for the channel)"));
    }

    // (2) the log: must replay, and its frames of the thread in file order
    round_out.checks += 1;
    let fresh = EventLog::new(data_dir.join("events.jsonl")).map_err(|e| e.to_string())?;
    let file_order = read_lines(&data_dir.join("events.jsonl"))?;
    let in_log: Vec<Value> = file_order.iter().filter(|v| v.get("stream_id").and_then(|s| s.as_str()) == Some(cid.as_str())).cloned().collect();
    if let Err(e) = fresh.replay_validated() {
        let seqs: Vec<u64> = in_log.iter().map(seq).collect();
        let at = (0..seqs.len()).find(|i| seqs[*i] != *i as u64).unwrap_or(0);
        let lo = at.saturating_sub(2);
        round_out.bad = Some((
            format!("the log the store wrote no longer replays (EventLog::replay_validated: {e}): the thread's frames sit in events.jsonl with seqs {:?} at positions {lo}.. — every replay of the store fails, {} frames were delivered to the live subscriber", &seqs[lo..(lo + 6).min(seqs.len())], got.len()),
            json!({"error": e.to_string(), "position": at, "seqs_in_file_order_from": lo, "seqs_in_file_order": &seqs[lo..(lo + 8).min(seqs.len())], "live_frames": got.len()}),
        ));
        return Ok(round_out);
    }
    // (1) live order = log order
    round_out.checks += 1;
    let tail = &in_log[2.min(in_log.len())..];
    if let Some((at, d)) = first_difference(&got, tail) {
        round_out.bad = Some((format!("the order in which the live subscriber received the thread's frames differs from their order in events.jsonl at position {at} (live {} frames, log {} frames after the first two)", got.len(), tail.len()), json!({"views": ["live", "log"], "diff": d})));
        return Ok(round_out);
    }
    // (3) sidecar, line by line
    round_out.checks += 1;
    let side = read_lines(&data_dir.join("continuity_streams").join(format!("{cid}.jsonl")))?;
    if let Some((at, d)) = first_difference(&side, &in_log) {
        round_out.bad = Some((format!("the sidecar file differs from the thread's frames in events.jsonl at position {at} (sidecar {} lines, log {} frames)", side.len(), in_log.len()), json!({"views": ["sidecar", "log"], "diff": d})));
        return Ok(round_out);
    }
    // the store's own read path
    round_out.checks += 1;
    match store.replay_events(&cid) {
        Ok(evs) => {
            let r: Vec<Value> = evs.iter().map(canon).collect();
            if let Some((at, d)) = first_difference(&r, &in_log) {
                round_out.bad = Some((format!("replay_events differs from the thread's frames in events.jsonl at position {at}"), json!({"views": ["replay_events", "log"], "diff": d})));
            }
        }
        Err(e) => round_out.bad = Some((format!("replay_events failed: {e}"), json!({"error": e.to_string()}))),
    }
    Ok(round_out)
}

pub fn concurrent_writers(seed: u64, rounds: usize, per_writer: usize) -> ExtraOutcome {
    let mut out = ExtraOutcome::default();
    let t0 = Instant::now();
    // Widen the windows between the steps of an append (never decides a verdict): at the points between choosing a
    // seq and the three writes the calling thread yields, now and then sleeps a little.
    let ticks = Arc::new(std::sync::atomic::AtomicU64::new(seed));
    let t = ticks.clone();
    rip_kernel::verif::set_hook(Some(Arc::new(move |name: &'static str| {
        if matches!(name, "log.before_lock" | "cont.logged" | "cont.sidecar" | "cont.bcast") {
            let n = t.fetch_add(0x9E37_79B9_7F4A_7C15, std::sync::atomic::Ordering::Relaxed);
            if (n >> 33) % 8 == 0 {
                std::thread::sleep(Duration::from_micros(40));
            } else {
                std::thread::yield_now();
            }
        }
    })));
    for round in 0..rounds {
        out.evaluations += 1;
        let res = catch_unwind(AssertUnwindSafe(|| one_round(seed, round, per_writer)));
        let replay = json!({"kind": "concurrent_writers", "seed": seed, "round": round, "writers": WRITERS, "appends_per_writer": per_writer,
            "how": "fresh ContinuityStore; ensure_default; append_message; subscribe; 4 OS threads append to that thread at the same time (2x append_tool_side_effects, 1x append_message, 1x mix of message / run_spawned / run_ended / side effects / selection_decided / context_compiled / provider_cursor_updated); then compare live order, events.jsonl, sidecar, replay_events"});
        match res {
            Ok(Ok(r)) => {
                out.oracle_checks += r.checks;
                out.frames_compared += r.frames * 3;
                out.bump("writers.frames", r.frames);
                out.bump("writers.append_errors", r.errors);
                if let Some((what, detail)) = r.bad {
                    let mut rp = replay.clone();
                    rp["detail"] = detail;
                    out.violations.push(OracleViolation { case_id: -(2_000_001 + round as i64), what: format!("concurrent writers on one thread, round {round}: {what}"), class: "concurrent_writers_views_differ".into(), replay: rp });
                    break;
                }
            }
            Ok(Err(e)) => out.notes.push(format!("concurrent writers round {round}: not run: {e}")),
            Err(p) => {
                let msg = p.downcast_ref::<String>().cloned().or_else(|| p.downcast_ref::<&str>().map(|s| s.to_string())).unwrap_or_default();
                out.violations.push(OracleViolation { case_id: -(2_000_001 + round as i64), what: format!("concurrent writers on one thread, round {round}: panic: {msg}"), class: "panic".into(), replay });
                break;
            }
        }
    }
    rip_kernel::verif::set_hook(None);
    out.bump("writers.rounds", out.evaluations);
    out.notes.push(format!("concurrent writers: {} rounds x {WRITERS} writers x {per_writer} appends, {:.1}s", out.evaluations, t0.elapsed().as_secs_f64()));
    out
}

// ------------------------------------------------------------------------------------------------
// one long session
// ------------------------------------------------------------------------------------------------

const LONG_TIMEOUT: Duration = Duration::from_secs(900);

async fn long_session_run(files: usize, scratch: &Path) -> Result<(u64, u64, Option<(String, Value)>), String> {
    let data_dir = scratch.join("data");
    let workspace = scratch.join("workspace");
    let big = workspace.join("big");
    std::fs::create_dir_all(&big).map_err(|e| e.to_string())?;
    for i in 0..files {
        std::fs::write(big.join(format!("f{i:05}.txt")), b"").map_err(|e| e.to_string())?;
    }
    let engine = SessionEngine::new(data_dir.clone(), workspace, None)?;
    let handle = engine.create_session();
    let sid = handle.session_id.clone();
    let mut rx = handle.subscribe();
    // the subscriber drains on a thread of its own while the run emits
    let (tx, done) = tokio::sync::oneshot::channel();
    std::thread::spawn(move || {
        let Ok(rt) = tokio::runtime::Builder::new_current_thread().enable_time().build() else { return };
        let res = rt.block_on(async move {
            let mut frames: Vec<Event> = vec![];
            let mut lagged = 0u64;
            let t0 = Instant::now();
            loop {
                let left = LONG_TIMEOUT.checked_sub(t0.elapsed()).unwrap_or(Duration::from_millis(1));
                match tokio::time::timeout(left, rx.recv()).await {
                    Ok(Ok(ev)) => frames.push(ev),
                    Ok(Err(RecvError::Lagged(n))) => lagged += n,
                    // every sender is gone: run_session has returned (the snapshot is written before)
                    Ok(Err(RecvError::Closed)) => break (frames, lagged, true),
                    Err(_) => break (frames, lagged, false),
                }
            }
        });
        let _ = tx.send(res);
    });
    let input = json!({"tool": "ls", "args": {"path": "big"}}).to_string();
    engine.spawn_session(handle, input, None, None);
    let (live, lagged, finished) = done.await.map_err(|e| format!("collector: {e}"))?;
    if !finished {
        return Err(format!("the session did not finish within {LONG_TIMEOUT:?} ({} frames received)", live.len()));
    }
    let ended = live.iter().any(|e| matches!(e.kind, EventKind::SessionEnded { .. }));
    let mut checks = 0u64;
    let log = EventLog::new(data_dir.join("events.jsonl")).map_err(|e| e.to_string())?;
    let logged: Vec<Value> = log.replay_stream(StreamKind::Session, &sid).map_err(|e| format!("log replay: {e}"))?.iter().map(canon).collect();
    let frames = logged.len() as u64;
    if logged.len() <= files {
        return Err(format!("expected one frame per directory entry: {} frames for {files} files", logged.len()));
    }
    checks += 1;
    if lagged == 0 && ended {
        let l: Vec<Value> = live.iter().map(canon).collect();
        if let Some((at, d)) = first_difference(&l, &logged) {
            return Ok((frames, checks, Some((format!("live stream ({} frames) and log ({} frames) of the session differ at position {at}", l.len(), logged.len()), json!({"views": ["live", "log"], "diff": d})))));
        }
    }
    checks += 1;
    let snap_path = data_dir.join("snapshots").join(format!("{sid}.json"));
    let snap: Vec<Value> = match rip_log::read_snapshot(&snap_path) {
        Ok(evs) => evs.iter().map(canon).collect(),
        Err(e) => return Ok((frames, checks, Some((format!("the session's snapshot is unreadable: {e}"), json!({"error": e.to_string()}))))),
    };
    if let Some((at, d)) = first_difference(&snap, &logged) {
        let first = snap.first().map(|v| format!("its first frame is {} seq {}", ty(v), seq(v))).unwrap_or_else(|| "it is empty".to_string());
        return Ok((
            frames,
            checks,
            Some((
                format!("the snapshot of the session holds {} frames, the log {} (live subscriber: {}{}); they differ at position {at}; {first}", snap.len(), logged.len(), live.len(), if lagged > 0 { format!(", lagged by {lagged}") } else { String::new() }),
                json!({"views": ["snapshot", "log"], "lens": {"snapshot": snap.len(), "log": logged.len(), "live": live.len()}, "diff": d}),
            )),
        ));
    }
    checks += 1;
    if let Err(e) = rip_log::verify_snapshot(&log, &snap_path) {
        return Ok((frames, checks, Some((format!("verify_snapshot failed: {e}"), json!({"error": e.to_string()})))));
    }
    Ok((frames, checks, None))
}

// ------------------------------------------------------------------------------------------------
// a session run while the log's writer sits on a full disk
// ------------------------------------------------------------------------------------------------

pub const CLASS_SESSION_FULL_DISK: &str = "session_frames_published_but_not_logged_when_log_write_fails";

async fn session_on_full_disk_run(scratch: &Path) -> Result<(u64, u64, Vec<(String, String, Value)>), String> {
    if !Path::new("/dev/full").exists() {
        return Err("no /dev/full on this box".to_string());
    }
    let data_dir = scratch.join("data");
    let workspace = scratch.join("workspace");
    std::fs::create_dir_all(&data_dir).map_err(|e| e.to_string())?;
    std::fs::create_dir_all(&workspace).map_err(|e| e.to_string())?;
    std::fs::write(workspace.join("a.txt"), "alpha\n").map_err(|e| e.to_string())?;
    // the engine opens its log while events.jsonl points at /dev/full: the writer keeps that descriptor, every
    // write answers ENOSPC; readers re-open the path and see the real (empty) file
    let link = data_dir.join("events.jsonl");
    let real = data_dir.join("events.real.jsonl");
    std::os::unix::fs::symlink("/dev/full", &link).map_err(|e| format!("symlink: {e}"))?;
    let engine = SessionEngine::new(data_dir.clone(), workspace, None);
    let _ = std::fs::remove_file(&link);
    std::fs::write(&real, b"").map_err(|e| e.to_string())?;
    std::os::unix::fs::symlink(&real, &link).map_err(|e| format!("symlink back: {e}"))?;
    let engine = engine?;
    let handle = engine.create_session();
    let sid = handle.session_id.clone();
    let mut rx = handle.subscribe();
    let (tx, done) = tokio::sync::oneshot::channel();
    std::thread::spawn(move || {
        let Ok(rt) = tokio::runtime::Builder::new_current_thread().enable_time().build() else { return };
        let res = rt.block_on(async move {
            let mut frames: Vec<Event> = vec![];
            let t0 = Instant::now();
            loop {
                let left = Duration::from_secs(180).checked_sub(t0.elapsed()).unwrap_or(Duration::from_millis(1));
                match tokio::time::timeout(left, rx.recv()).await {
                    Ok(Ok(ev)) => frames.push(ev),
                    Ok(Err(RecvError::Lagged(_))) => {}
                    Ok(Err(RecvError::Closed)) => break (frames, true),
                    Err(_) => break (frames, false),
                }
            }
        });
        let _ = tx.send(res);
    });
    engine.spawn_session(handle, json!({"tool": "read", "args": {"path": "a.txt"}}).to_string(), None, None);
    let (live, finished) = done.await.map_err(|e| format!("collector: {e}"))?;
    if !finished {
        return Err("the session did not finish within 180 s".to_string());
    }
    let logged: Vec<Value> = read_lines(&real)?;
    let snap_path = data_dir.join("snapshots").join(format!("{sid}.json"));
    let snap: Vec<Value> = rip_log::read_snapshot(&snap_path).map(|v| v.iter().map(canon).collect()).unwrap_or_default();
    let l: Vec<Value> = live.iter().map(canon).collect();
    let mut bad = vec![];
    let missing_live: Vec<&Value> = l.iter().filter(|f| !logged.contains(f)).collect();
    let missing_snap: Vec<&Value> = snap.iter().filter(|f| !logged.contains(f)).collect();
    if !missing_live.is_empty() || !missing_snap.is_empty() {
        // the known shape: every frame of the run was recorded and published before its (failed, ignored) log append:
        // live stream = snapshot, frame for frame, and the log holds none of them
        let known = l == snap && logged.is_empty() && !l.is_empty();
        let first = missing_live.first().or(missing_snap.first()).map(|v| short(v)).unwrap_or_default();
        bad.push((
            if known { CLASS_SESSION_FULL_DISK.to_string() } else { "views_differ_on_full_disk".to_string() },
            format!(
                "a session run while every log write fails (ENOSPC): the live subscriber received {} frames and the snapshot holds {}, events.jsonl holds {} frames of the session: {} live and {} snapshot frames are not in the log (emit_event drops the error of event_log.append after recording and publishing the frame); first: {first}",
                l.len(), snap.len(), logged.len(), missing_live.len(), missing_snap.len()
            ),
            json!({"live": l.len(), "snapshot": snap.len(), "log": logged.len(), "live_types": l.iter().map(ty).collect::<Vec<_>>(), "live_equals_snapshot": l == snap}),
        ));
    }
    Ok((l.len() as u64, 2, bad))
}

/// The model's `c03_unchecked_log_last_refuted`, replayed on the real `SessionEngine`.
pub fn session_on_full_disk() -> ExtraOutcome {
    let mut out = ExtraOutcome::default();
    out.evaluations += 1;
    let replay = json!({"kind": "session_on_full_disk",
        "how": "data/events.jsonl is a symlink to /dev/full while SessionEngine::new opens the log (the writer keeps the descriptor: every write fails with ENOSPC) and to an empty real file afterwards; one session with the input {\"tool\":\"read\",\"args\":{\"path\":\"a.txt\"}}, a subscriber attached before the run; then compare live frames and snapshots/<session>.json with the log"});
    let scratch = Scratch::new("c03f");
    let rt = match tokio::runtime::Builder::new_multi_thread().worker_threads(2).enable_all().build() {
        Ok(rt) => rt,
        Err(e) => {
            out.notes.push(format!("session on full disk: no runtime: {e}"));
            return out;
        }
    };
    match catch_unwind(AssertUnwindSafe(|| rt.block_on(session_on_full_disk_run(scratch.path())))) {
        Ok(Ok((frames, checks, bad))) => {
            out.oracle_checks += checks;
            out.bump("full_disk_session.frames", frames);
            for (class, what, detail) in bad {
                let mut rp = replay.clone();
                rp["detail"] = detail;
                out.violations.push(OracleViolation { case_id: -4_000_001, what, class, replay: rp });
            }
        }
        Ok(Err(e)) => out.notes.push(format!("session on full disk: not run: {e}")),
        Err(p) => {
            let msg = p.downcast_ref::<String>().cloned().or_else(|| p.downcast_ref::<&str>().map(|s| s.to_string())).unwrap_or_default();
            out.violations.push(OracleViolation { case_id: -4_000_001, what: format!("session on full disk: panic: {msg}"), class: "panic".into(), replay });
        }
    }
    out
}

pub fn long_session(files: usize) -> ExtraOutcome {
    let mut out = ExtraOutcome::default();
    let t0 = Instant::now();
    out.evaluations += 1;
    let replay = json!({"kind": "long_session", "files": files,
        "how": format!("workspace/big holds {files} empty files; one session with the input {{\"tool\":\"ls\",\"args\":{{\"path\":\"big\"}}}} on a SessionEngine, a subscriber attached before the run; compare live frames, EventLog::replay_stream and snapshots/<session>.json frame for frame, then verify_snapshot")});
    let scratch = Scratch::new("c03l");
    let rt = match tokio::runtime::Builder::new_multi_thread().worker_threads(4).enable_all().build() {
        Ok(rt) => rt,
        Err(e) => {
            out.notes.push(format!("long session: no runtime: {e}"));
            return out;
        }
    };
    let res = catch_unwind(AssertUnwindSafe(|| rt.block_on(long_session_run(files, scratch.path()))));
    match res {
        Ok(Ok((frames, checks, bad))) => {
            out.oracle_checks += checks;
            out.frames_compared += frames * 2;
            out.bump("long_session.frames", frames);
            if let Some((what, detail)) = bad {
                let mut rp = replay;
                rp["detail"] = detail;
                out.violations.push(OracleViolation { case_id: -3_000_001, what: format!("long session ({files} directory entries): {what}"), class: "long_session_views_differ".into(), replay: rp });
            }
        }
        Ok(Err(e)) => out.notes.push(format!("long session: not run: {e}")),
        Err(p) => {
            let msg = p.downcast_ref::<String>().cloned().or_else(|| p.downcast_ref::<&str>().map(|s| s.to_string())).unwrap_or_default();
            out.violations.push(OracleViolation { case_id: -3_000_001, what: format!("long session: panic: {msg}"), class: "panic".into(), replay });
        }
    }
    out.notes.push(format!("long session: {files} files, {:.1}s", t0.elapsed().as_secs_f64()));
    out
}
