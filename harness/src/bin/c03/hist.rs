//! C03 (replay fidelity) — history runner.
//!
//! Runs seeded HISTORIES on the real crates (`ripd::ContinuityStore`, `ripd::SessionEngine`, the real
//! router for tool tasks) and compares, frame for frame, the views of every stream:
//!   (1) live broadcast (`ContinuityStore::subscribe`, `SessionHandle::subscribe`, task SSE),
//!   (2) `<data>/events.jsonl` read back (`EventLog::replay` on a fresh log + own line parser),
//!   (3) `<data>/continuity_streams/<continuity_id>.jsonl` (+ the `.mr.v1` / `.comp.v1` subset sidecars
//!       and `ContinuityStore::replay_events`),
//!   (4) `<data>/snapshots/<session_id>.json`, `<data>/task_snapshots/<task_id>.json`
//!       (`read_snapshot`, `verify_snapshot`).
//! The oracle is model-free: canonical JSON equality, same order, same length, same stream
//! assignment, multiset inclusion of every view in the log, and a byte-exact parse/serialise round
//! trip of every log line.
#![allow(dead_code)]

use std::collections::{BTreeMap, BTreeSet, HashMap};
use std::panic::{catch_unwind, AssertUnwindSafe};
use std::path::{Path, PathBuf};
use std::sync::Arc;
use std::time::{Duration, Instant};

use rip_kernel::{Event, EventKind, StreamKind};
use rip_log::EventLog;
use ripd::{
    CompactionAutoScheduleV1Request, CompactionAutoV1Request, CompactionCheckpointCumulativeV1Request,
    ContinuityRunLink, ContinuityStore, ProviderCursorRotateV1Request, SessionEngine, ToolSideEffects,
};
use rv::{OracleViolation, Rng, Scratch};
use serde_json::{json, Value};
use tokio::sync::broadcast;
use tokio::sync::broadcast::error::{RecvError, TryRecvError};

pub struct HistOutcome {
    pub histories: u64,
    pub frames_compared: u64,
    pub oracle_checks: u64,
    pub violations: Vec<OracleViolation>,
    pub distribution: BTreeMap<String, u64>,
    pub samples: Vec<Value>,
    pub emitted_lines: Vec<String>,
    pub notes: Vec<String>,
}

// watchdogs: generous and load-independent (the waits end as soon as the awaited thing happens); a run that
// does not finish is a liveness matter, not a C03 violation: its streams are skipped and a note is recorded
const SESSION_TIMEOUT: Duration = Duration::from_secs(180);
const SNAPSHOT_GRACE: Duration = Duration::from_secs(90);
const MAX_EMIT_LINE: usize = 4000;
const SHRINK_RERUNS: usize = 24;
const SHRINK_HISTORIES: usize = 2;

// ------------------------------------------------------------------------------------------------
// history description (small, replayable: every string / number is a spec, ids are indices)
// ------------------------------------------------------------------------------------------------

#[derive(Clone, Debug)]
struct Txt {
    k: u8,
    n: u32,
}

const TXT_KINDS: u8 = 13;

fn txt(t: &Txt) -> String {
    let n = t.n;
    match t.k % TXT_KINDS {
        0 => String::new(),
        1 => format!("hello world {n}"),
        2 => format!("h\u{e9}llo w\u{f6}rld \u{20ac} \u{3a9} \u{6f22}\u{5b57} {n}"),
        3 => format!("\u{1F600}\u{1D11E}\u{1F9EA} astral {n} \u{1F600}"),
        4 => format!("line\u{2028}sep\u{2029}para {n}"),
        5 => format!("\u{1}\u{0}\n\t\r\u{1b}[31m\u{7f}\u{85}\u{8} {n}\n"),
        6 => format!("\"q\" \\ back\\\\slash / \\u0041 \\n 'single' \\ud83d {n}\\"),
        7 => {
            const PAL: &[&str] = &[
                "a", "Z", " ", "\n", "\t", "\"", "\\", "/", "\u{1}", "\u{e9}", "\u{20ac}", "\u{2028}", "\u{1F600}", "\u{10FFFF}",
                "\u{FFFF}", "{", "}", "[", ",", ":", "null", "\u{0}", "\r\n", "\u{FEFF}", "\u{200D}", "0.1", "\u{7f}",
            ];
            let mut r = Rng::new(n as u64 ^ 0x7e57);
            let len = r.range(1, 40);
            let mut s = String::new();
            for _ in 0..len {
                let p: &&str = r.pick(PAL);
                s.push_str(p);
            }
            s
        }
        8 => {
            // ~100 KB, mixed escapes, longer than any buffer on the write path
            let unit = "x\u{1F600}\"\\\n\u{e9}0123456789abcdef";
            let mut s = String::with_capacity(101_000);
            while s.len() < 100_000 {
                s.push_str(unit);
            }
            s.push_str(&format!("#{n}"));
            s
        }
        9 => {
            const INJ: &[&str] = &[
                r#"{"tool":"ls","args":{}}"#,
                r#"{"type":"session_ended","stream_kind":"task","stream_id":"x","seq":0,"id":"e"}"#,
                "\"}\n{\"id\":\"forged\",\"session_id\":\"s\",\"timestamp_ms\":0,\"seq\":0,\"type\":\"session_ended\",\"reason\":\"x\"}",
                r#"{"checkpoint":{"action":"rewind","id":"nope"}}"#,
            ];
            INJ[(n as usize) % INJ.len()].to_string()
        }
        10 => format!("\u{FFFF}\u{10FFFF}\u{FEFF}\u{FFFD}\u{D7FF}\u{E000} {n}"),
        11 => "  \n \t ".to_string(),
        _ => {
            // one line longer than BufWriter's 8 KiB
            let mut s = "L".repeat(9000);
            s.push_str(&format!("{n}"));
            s
        }
    }
}
fn txt_json(t: &Txt) -> Value {
    json!({"k": t.k % TXT_KINDS, "n": t.n})
}
fn gen_txt(r: &mut Rng) -> Txt {
    // the two big kinds (8: 100 KB, 12: 9 KB) are rarer
    let k = if r.chance(1, 30) {
        8
    } else if r.chance(1, 25) {
        12
    } else {
        *r.pick(&[0u8, 1, 1, 2, 3, 4, 5, 6, 7, 7, 7, 9, 10, 11])
    };
    Txt { k, n: r.below(1000) as u32 }
}
fn gen_small_txt(r: &mut Rng) -> Txt {
    Txt { k: *r.pick(&[0u8, 1, 2, 3, 4, 5, 6, 7, 10]), n: r.below(1000) as u32 }
}
fn gen_opt_txt(r: &mut Rng) -> Option<Txt> {
    if r.chance(1, 3) {
        None
    } else {
        Some(gen_small_txt(r))
    }
}

#[derive(Clone, Debug)]
enum Cut {
    Head,
    Msg(u32),
    Seq(u64),
    Both,
}
fn cut_json(c: &Cut) -> Value {
    match c {
        Cut::Head => json!("head"),
        Cut::Msg(m) => json!({"msg": m}),
        Cut::Seq(s) => json!({"seq": s}),
        Cut::Both => json!("both"),
    }
}
fn gen_cut(r: &mut Rng) -> Cut {
    match r.below(8) {
        0..=2 => Cut::Head,
        3..=4 => Cut::Msg(r.below(6) as u32),
        5..=6 => Cut::Seq(r.below(8)),
        _ => Cut::Both,
    }
}

#[derive(Clone, Debug)]
enum Input {
    Prompt(Txt),
    /// tool envelope; `num` = f64 bits put into an extra arg, `text` feeds content / command
    Tool { tool: u8, text: Txt, num: Option<u64>, timeout: bool },
    CkptCreate { label: Txt, files: u8 },
    CkptRewind { k: u32 },
    Raw(u8),
}
const TOOL_KINDS: u8 = 13;
const TASK_CMDS: u8 = 7;
const RAW_KINDS: u8 = 7;

#[derive(Clone, Debug)]
enum Op {
    EnsureDefault,
    Message { c: u32, text: Txt },
    RunSpawned { c: u32, m: u32 },
    RunEnded { r: u32, reason: Txt },
    SideEffects { r: u32, paths: u8, ckpt: bool, name: Txt },
    Branch { c: u32, title: Option<Txt>, from: Cut },
    Handoff { c: u32, title: Option<Txt>, md: Option<Txt>, art: bool, from: Cut },
    CkptCumulative { c: u32, md: Option<Txt>, art: bool, to: Cut, stride: Option<u64> },
    CompAuto { c: u32, stride: Option<u64>, maxn: Option<u32>, dry: Option<bool> },
    CompSchedule { c: u32, stride: Option<u64>, maxn: Option<u32>, block: Option<bool>, execute: Option<bool>, dry: Option<bool> },
    CursorRotate { c: u32, filt: u8, reason: Option<Txt> },
    SelDecided { c: u32, r: u32, nck: u8, strategy: Txt },
    Compiled { c: u32, r: u32, from_seq: u64, from_msg: bool, strategy: Txt },
    CursorUpdated { c: u32, cursor: u8, num: Option<u64>, endpoint: bool, model: bool, run: bool, text: Txt },
    Session { input: Input, link: Option<u32>, wait: bool },
    Task { cmd: u8, title: Option<Txt>, num: Option<u64> },
    /// the rebuildable cache directory (or the files of one thread, or one thread's full sidecar) disappears
    /// while the store object stays alive
    LoseCaches { which: u8, c: u32 },
    /// what a late subscriber of the thread gets as its past: `ContinuityStore::replay_events`
    Replay { c: u32 },
    /// the authority restarts (a new `EventLog` + `ContinuityStore` over the same data directory).  With
    /// `failing` the new log's writer sits on a full disk: every log write answers ENOSPC (the writer was
    /// opened while `events.jsonl` pointed at /dev/full), readers re-open the path and see the real file
    Restart { failing: bool },
    /// the full disk has room again while the store lives: the writer's descriptor (opened on /dev/full) is
    /// re-pointed at the real log (dup2), so the very same open writer succeeds from now on
    DiskRecovers,
}

fn op_name(op: &Op) -> &'static str {
    match op {
        Op::EnsureDefault => "ensure_default",
        Op::Message { .. } => "append_message",
        Op::RunSpawned { .. } => "append_run_spawned",
        Op::RunEnded { .. } => "append_run_ended",
        Op::SideEffects { .. } => "append_tool_side_effects",
        Op::Branch { .. } => "branch",
        Op::Handoff { .. } => "handoff",
        Op::CkptCumulative { .. } => "compaction_checkpoint_cumulative_v1",
        Op::CompAuto { .. } => "compaction_auto_v1",
        Op::CompSchedule { .. } => "compaction_auto_schedule_v1",
        Op::CursorRotate { .. } => "provider_cursor_rotate_v1",
        Op::SelDecided { .. } => "append_context_selection_decided",
        Op::Compiled { .. } => "append_context_compiled",
        Op::CursorUpdated { .. } => "append_provider_cursor_updated",
        Op::Session { input, link, .. } => match (input, link.is_some()) {
            (Input::Prompt(_), false) => "session_prompt",
            (Input::Prompt(_), true) => "session_prompt_linked",
            (Input::Tool { .. }, false) => "session_tool",
            (Input::Tool { .. }, true) => "session_tool_linked",
            (Input::CkptCreate { .. }, _) => "session_checkpoint_create",
            (Input::CkptRewind { .. }, _) => "session_checkpoint_rewind",
            (Input::Raw(_), _) => "session_raw",
        },
        Op::Task { .. } => "task",
        Op::LoseCaches { .. } => "lose_caches",
        Op::Replay { .. } => "replay_events",
        Op::Restart { failing: false } => "restart_store",
        Op::Restart { failing: true } => "restart_store_on_full_disk",
        Op::DiskRecovers => "disk_has_room_again",
    }
}

fn input_json(i: &Input) -> Value {
    match i {
        Input::Prompt(t) => json!({"prompt": txt_json(t)}),
        Input::Tool { tool, text, num, timeout } => json!({"tool": tool % TOOL_KINDS, "text": txt_json(text), "num_bits": num, "timeout": timeout}),
        Input::CkptCreate { label, files } => json!({"ckpt_create": txt_json(label), "files": files}),
        Input::CkptRewind { k } => json!({"ckpt_rewind": k}),
        Input::Raw(k) => json!({"raw": k}),
    }
}
fn ot(t: &Option<Txt>) -> Value {
    t.as_ref().map(txt_json).unwrap_or(Value::Null)
}
fn op_json(op: &Op) -> Value {
    let name = op_name(op);
    let body = match op {
        Op::EnsureDefault => json!({}),
        Op::Message { c, text } => json!({"c": c, "text": txt_json(text)}),
        Op::RunSpawned { c, m } => json!({"c": c, "m": m}),
        Op::RunEnded { r, reason } => json!({"r": r, "reason": txt_json(reason)}),
        Op::SideEffects { r, paths, ckpt, name } => json!({"r": r, "paths": paths, "ckpt": ckpt, "name": txt_json(name)}),
        Op::Branch { c, title, from } => json!({"c": c, "title": ot(title), "from": cut_json(from)}),
        Op::Handoff { c, title, md, art, from } => json!({"c": c, "title": ot(title), "md": ot(md), "art": art, "from": cut_json(from)}),
        Op::CkptCumulative { c, md, art, to, stride } => json!({"c": c, "md": ot(md), "art": art, "to": cut_json(to), "stride": stride}),
        Op::CompAuto { c, stride, maxn, dry } => json!({"c": c, "stride": stride, "maxn": maxn, "dry": dry}),
        Op::CompSchedule { c, stride, maxn, block, execute, dry } => json!({"c": c, "stride": stride, "maxn": maxn, "block": block, "execute": execute, "dry": dry}),
        Op::CursorRotate { c, filt, reason } => json!({"c": c, "filt": filt, "reason": ot(reason)}),
        Op::SelDecided { c, r, nck, strategy } => json!({"c": c, "r": r, "nck": nck, "strategy": txt_json(strategy)}),
        Op::Compiled { c, r, from_seq, from_msg, strategy } => json!({"c": c, "r": r, "from_seq": from_seq, "from_msg": from_msg, "strategy": txt_json(strategy)}),
        Op::CursorUpdated { c, cursor, num, endpoint, model, run, text } => json!({"c": c, "cursor": cursor, "num_bits": num, "endpoint": endpoint, "model": model, "run": run, "text": txt_json(text)}),
        Op::Session { input, link, wait } => json!({"input": input_json(input), "link": link, "wait": wait}),
        Op::Task { cmd, title, num } => json!({"cmd": cmd, "title": ot(title), "num_bits": num}),
        Op::LoseCaches { which, c } => {
            let w = ["continuity_streams/", "every cache file of the thread", "the thread's full sidecar"][(*which % 3) as usize];
            json!({"which": w, "c": c})
        }
        Op::Replay { c } => json!({"c": c}),
        Op::Restart { failing } => json!({"log_writes_fail": failing}),
        Op::DiskRecovers => json!({}),
    };
    json!({"op": name, "p": body})
}

#[derive(Clone, Copy, Debug, PartialEq, Eq)]
enum HKind {
    /// continuity operations on a stand-alone `ContinuityStore` (as in ripd's unit tests)
    Cont,
    /// provider-less session runs (+ continuity ops, + tool tasks) on a `SessionEngine`
    Sess,
}
#[derive(Clone, Debug)]
struct History {
    seed: u64,
    index: usize,
    kind: HKind,
    ops: Vec<Op>,
}
fn history_json(h: &History) -> Value {
    json!({
        "seed": h.seed,
        "index": h.index,
        "kind": if h.kind == HKind::Cont { "continuity_store" } else { "session_engine" },
        "ops": h.ops.iter().map(op_json).collect::<Vec<_>>(),
    })
}

/// an f64 whose shortest decimal form needs many digits (random bits, finite, moderate exponent)
fn gen_num_bits(r: &mut Rng) -> u64 {
    match r.below(6) {
        0 => 1.5f64.to_bits(),
        1 => (0.1f64 + 0.2f64).to_bits(),
        2 => (r.below(1 << 53) as f64 / 1e7).to_bits(),
        _ => {
            // random mantissa, exponent in a tame range
            let mant = r.next() & ((1u64 << 52) - 1);
            let exp = 1023 - 40 + r.below(80);
            let sign = r.below(2) << 63;
            sign | (exp << 52) | mant
        }
    }
}
fn num_value(bits: u64) -> Value {
    let f = f64::from_bits(bits);
    if f.is_finite() {
        json!(f)
    } else {
        json!(0.5)
    }
}

fn gen_cont_op(r: &mut Rng) -> Op {
    let c = if r.chance(1, 25) { u32::MAX } else { r.below(6) as u32 };
    let stride = |r: &mut Rng| match r.below(6) {
        0 => None,
        1 => Some(0),
        _ => Some(r.range(1, 3)),
    };
    let ob = |r: &mut Rng| match r.below(3) {
        0 => None,
        1 => Some(false),
        _ => Some(true),
    };
    match r.below(109) {
        100..=103 => Op::LoseCaches { which: r.below(3) as u8, c },
        104..=108 => Op::Replay { c },
        0..=27 => Op::Message { c, text: gen_txt(r) },
        28..=35 => Op::RunSpawned { c, m: r.below(6) as u32 },
        36..=41 => Op::RunEnded { r: r.below(4) as u32, reason: gen_small_txt(r) },
        42..=49 => Op::SideEffects { r: r.below(4) as u32, paths: r.below(3) as u8, ckpt: r.chance(1, 2), name: gen_small_txt(r) },
        50..=54 => Op::Branch { c, title: gen_opt_txt(r), from: gen_cut(r) },
        55..=59 => Op::Handoff { c, title: gen_opt_txt(r), md: if r.chance(1, 6) { None } else { Some(gen_txt(r)) }, art: r.chance(1, 4), from: gen_cut(r) },
        60..=66 => Op::CkptCumulative { c, md: if r.chance(1, 8) { None } else { Some(gen_small_txt(r)) }, art: r.chance(1, 8), to: gen_cut(r), stride: stride(r) },
        67..=70 => Op::CompAuto { c, stride: stride(r), maxn: if r.chance(1, 2) { None } else { Some(r.below(4) as u32) }, dry: ob(r) },
        71..=75 => Op::CompSchedule { c, stride: stride(r), maxn: if r.chance(1, 2) { None } else { Some(r.below(4) as u32) }, block: ob(r), execute: ob(r), dry: if r.chance(1, 4) { Some(true) } else { None } },
        76..=79 => Op::CursorRotate { c, filt: r.below(4) as u8, reason: gen_opt_txt(r) },
        80..=84 => Op::SelDecided { c, r: r.below(4) as u32, nck: r.below(3) as u8, strategy: gen_small_txt(r) },
        85..=89 => Op::Compiled { c, r: r.below(4) as u32, from_seq: if r.chance(1, 5) { u64::MAX } else { r.below(10) }, from_msg: r.chance(1, 2), strategy: gen_small_txt(r) },
        90..=97 => {
            let cursor = r.below(5) as u8;
            Op::CursorUpdated { c, cursor, num: if cursor == 3 { Some(gen_num_bits(r)) } else { None }, endpoint: r.chance(1, 2), model: r.chance(1, 2), run: r.chance(1, 2), text: gen_small_txt(r) }
        }
        _ => Op::EnsureDefault,
    }
}

fn gen_input(r: &mut Rng) -> Input {
    match r.below(20) {
        0..=5 => Input::Prompt(gen_txt(r)),
        6..=14 => Input::Tool { tool: r.below(TOOL_KINDS as u64) as u8, text: gen_small_txt(r), num: if r.chance(1, 3) { Some(gen_num_bits(r)) } else { None }, timeout: r.chance(1, 4) },
        15..=16 => Input::CkptCreate { label: gen_small_txt(r), files: r.below(4) as u8 },
        17 => Input::CkptRewind { k: r.below(3) as u32 },
        _ => Input::Raw(r.below(RAW_KINDS as u64) as u8),
    }
}

/// Fixed histories run before the seeded ones on every run (regressions for the states the seeded
/// generator reaches only with some probability).
fn builtin_histories() -> Vec<History> {
    let t = |k: u8, n: u32| Txt { k, n };
    let msg = |n: u32| Op::Message { c: 0, text: Txt { k: 1, n } };
    let tool = |tool: u8, link: Option<u32>| Op::Session { input: Input::Tool { tool, text: Txt { k: 1, n: 7 }, num: None, timeout: false }, link, wait: true };
    let mut v = vec![
        // the sidecar directory is lost while the store lives, appends follow BEFORE any replay of the thread
        // (the sidecar is re-created holding only a suffix), then a late subscriber asks for the past
        (HKind::Cont, vec![Op::EnsureDefault, msg(1), msg(2), Op::LoseCaches { which: 0, c: 0 }, msg(3), msg(4), msg(5), Op::Replay { c: 0 }, msg(6), Op::Replay { c: 0 }]),
        // the same with one thread's files / one full sidecar; the last loss is followed by appends only
        (
            HKind::Cont,
            vec![
                Op::EnsureDefault,
                msg(1),
                Op::RunSpawned { c: 0, m: 0 },
                Op::LoseCaches { which: 2, c: 0 },
                Op::RunEnded { r: 0, reason: t(1, 1) },
                Op::Replay { c: 0 },
                msg(2),
                Op::Branch { c: 0, title: None, from: Cut::Head },
                Op::LoseCaches { which: 1, c: 0 },
                msg(3),
                Op::Message { c: 1, text: t(2, 4) },
                Op::LoseCaches { which: 0, c: 0 },
                Op::Replay { c: 1 },
                msg(5),
                msg(6),
            ],
        ),
        // tool output inside session runs (stdout / stderr chunks between tool_started and tool_ended) and
        // task streams whose output arrives while the task runs
        (
            HKind::Sess,
            vec![
                Op::EnsureDefault,
                tool(12, None),
                tool(3, Some(0)),
                Op::Task { cmd: 5, title: None, num: None },
                tool(10, None),
                Op::Task { cmd: 1, title: Some(t(2, 1)), num: None },
                Op::Task { cmd: 3, title: None, num: None },
                Op::Session { input: Input::Raw(6), link: None, wait: true },
                Op::Task { cmd: 6, title: None, num: None },
            ],
        ),
        // cache loss under a session engine: linked runs append message / run_spawned / side effects / run_ended
        (
            HKind::Sess,
            vec![
                Op::EnsureDefault,
                tool(1, Some(0)),
                Op::LoseCaches { which: 0, c: 0 },
                tool(12, Some(0)),
                Op::Replay { c: 0 },
                Op::LoseCaches { which: 2, c: 0 },
                Op::Session { input: Input::Prompt(t(2, 3)), link: Some(0), wait: false },
                msg(9),
            ],
        ),
        // the log's writer sits on a full disk (restart with events.jsonl on /dev/full): every write op returns an
        // error and must leave nothing in the sidecars, in replay_events or on the channel; then the disk has room
        // again (another restart), before and after further appends
        (
            HKind::Cont,
            vec![
                Op::EnsureDefault,
                msg(1),
                Op::Restart { failing: true },
                msg(2),
                Op::Replay { c: 0 },
                Op::RunSpawned { c: 0, m: 0 },
                Op::SideEffects { r: 0, paths: 2, ckpt: true, name: t(1, 2) },
                Op::Branch { c: 0, title: None, from: Cut::Head },
                Op::CkptCumulative { c: 0, md: Some(t(1, 3)), art: false, to: Cut::Head, stride: None },
                Op::CursorUpdated { c: 0, cursor: 2, num: None, endpoint: true, model: false, run: false, text: t(1, 4) },
                Op::Replay { c: 0 },
                Op::Restart { failing: false },
                Op::Replay { c: 0 },
                msg(3),
                Op::RunSpawned { c: 0, m: 0 },
                Op::Restart { failing: true },
                Op::RunEnded { r: 0, reason: t(1, 5) },
                Op::Message { c: 0, text: t(12, 6) },
                Op::Replay { c: 0 },
                Op::Restart { failing: false },
                msg(4),
                Op::Replay { c: 0 },
            ],
        ),
        // the disk is full for a while and has room again while the store lives (same writer): the refused appends
        // must not show up later
        (
            HKind::Cont,
            vec![
                Op::EnsureDefault,
                msg(1),
                Op::Restart { failing: true },
                msg(2),
                Op::RunSpawned { c: 0, m: 0 },
                Op::Message { c: 0, text: t(12, 3) },
                Op::DiskRecovers,
                Op::Replay { c: 0 },
                msg(4),
                Op::Replay { c: 0 },
                msg(5),
            ],
        ),
    ];
    v.drain(..).enumerate().map(|(k, (kind, ops))| History { seed: 0, index: BUILTIN_BASE + k, kind, ops }).collect()
}
const BUILTIN_BASE: usize = 1_000_000;
const REAL_LOG: &str = "events.real.jsonl";

fn gen_history(seed: u64, index: usize) -> History {
    let mut r = Rng::new(seed.wrapping_mul(1_000_003).wrapping_add(index as u64).wrapping_mul(0x2545_F491_4F6C_DD1D));
    // two thirds continuity-store histories, one third engine histories
    let kind = if index % 3 == 2 { HKind::Sess } else { HKind::Cont };
    let mut ops = Vec::new();
    match kind {
        HKind::Cont => {
            let n = r.range(5, 40) as usize;
            if !r.chance(1, 12) {
                ops.push(Op::EnsureDefault);
            }
            while ops.len() < n {
                ops.push(gen_cont_op(&mut r));
            }
            // restarts of the authority, and periods in which the log's writer sits on a full disk (every third
            // history): the ops inside the window run against a store whose log writes fail
            if r.chance(1, 3) {
                let windows = r.range(1, 2);
                for _ in 0..windows {
                    let at = r.range(1, ops.len() as u64) as usize;
                    let len = r.range(1, 6) as usize;
                    let end = (at + len).min(ops.len());
                    let c = r.below(3) as u32;
                    // back to a healthy writer after the window (sometimes the history ends on the full disk)
                    if !r.chance(1, 6) {
                        ops.insert(end, Op::Replay { c });
                        // ... through a restart, or while the store lives (the same writer succeeds again)
                        ops.insert(end, if r.chance(1, 2) { Op::Restart { failing: false } } else { Op::DiskRecovers });
                    }
                    // what a late subscriber gets while the disk is full, after at least one refused write
                    ops.insert(end, Op::Replay { c });
                    ops.insert(at, Op::Message { c, text: gen_small_txt(&mut r) });
                    ops.insert(at, Op::Restart { failing: true });
                }
            } else if r.chance(1, 4) {
                let at = r.range(1, ops.len() as u64) as usize;
                ops.insert(at, Op::Restart { failing: false });
            }
        }
        HKind::Sess => {
            let sessions = r.range(1, 4) as usize;
            let extra = r.below(9) as usize;
            if !r.chance(1, 8) {
                ops.push(Op::EnsureDefault);
            }
            let mut slots: Vec<bool> = vec![true; sessions];
            slots.extend(std::iter::repeat(false).take(extra));
            // seeded shuffle
            for i in (1..slots.len()).rev() {
                let j = r.below(i as u64 + 1) as usize;
                slots.swap(i, j);
            }
            for is_sess in slots {
                if is_sess {
                    let link = if r.chance(1, 2) { Some(r.below(3) as u32) } else { None };
                    ops.push(Op::Session { input: gen_input(&mut r), link, wait: !r.chance(1, 3) });
                } else {
                    ops.push(gen_cont_op(&mut r));
                }
            }
            if r.chance(1, 3) {
                let at = r.below(ops.len() as u64 + 1) as usize;
                ops.insert(at, Op::Task { cmd: r.below(TASK_CMDS as u64) as u8, title: gen_opt_txt(&mut r), num: if r.chance(1, 2) { Some(gen_num_bits(&mut r)) } else { None } });
            }
        }
    }
    History { seed, index, kind, ops }
}

// ------------------------------------------------------------------------------------------------
// execution on the real crates
// ------------------------------------------------------------------------------------------------

#[derive(Clone, Debug)]
struct Viol {
    class: &'static str,
    what: String,
    detail: Value,
}

// ------------------------------------------------------------------------------------------------
// views DURING a history
//
// The property speaks about every frame a live subscriber receives: from the moment the emit step of
// that frame is over, a FRESH reader of the store on disk must find it.  The emitters of a session / task
// publish a frame on the channel and append it to the log in one critical section (publish first), so
// "the emit step of frame k is over" is observable without a clock: the same stream's frame k+1 has
// arrived (the section is serialised), or the run has finished.  Continuity frames are published after
// the log and sidecar appends, so they must be on disk (log and sidecar) when they arrive.
// None of this depends on timing: the checks are sound for every interleaving.  The hook below only
// makes the interesting moment long enough to look at (it never decides a verdict).
// ------------------------------------------------------------------------------------------------

mod pause {
    //! While a collector is listening, the emitter is held between "frame k+1 published" and "frame k+1
    //! appended" (points `sess.sent` / `task.sent`) until a collector has looked at the disk, bounded by
    //! `PAUSE_MAX`.  At that moment every earlier frame of the stream has been appended and nothing
    //! after it has touched the shared writer yet.
    use std::cell::Cell;
    use std::sync::atomic::{AtomicI64, AtomicU64, Ordering};
    use std::sync::{Arc, Condvar, Mutex};
    use std::time::{Duration, Instant};

    pub const PAUSE_MAX: Duration = Duration::from_millis(1500);
    static SENT: AtomicU64 = AtomicU64::new(0);
    static ACTIVE: AtomicI64 = AtomicI64::new(0);
    pub static PAUSES: AtomicU64 = AtomicU64::new(0);
    pub static TIMEOUTS: AtomicU64 = AtomicU64::new(0);
    static ACKED: Mutex<u64> = Mutex::new(0);
    static CV: Condvar = Condvar::new();
    thread_local! {
        static MY: Cell<u64> = const { Cell::new(0) };
    }

    pub fn install() {
        rip_kernel::verif::set_hook(Some(Arc::new(|name: &'static str| match name {
            // numbered before it is published: a collector that has the frame sees SENT >= its number
            "sess.recorded" | "task.recorded" => MY.with(|m| m.set(SENT.fetch_add(1, Ordering::SeqCst) + 1)),
            "sess.sent" | "task.sent" => {
                let my = MY.with(|m| m.get());
                if ACTIVE.load(Ordering::SeqCst) <= 0 {
                    return;
                }
                PAUSES.fetch_add(1, Ordering::Relaxed);
                let t0 = Instant::now();
                let mut g = ACKED.lock().unwrap_or_else(|e| e.into_inner());
                while *g < my && ACTIVE.load(Ordering::SeqCst) > 0 {
                    let left = match PAUSE_MAX.checked_sub(t0.elapsed()) {
                        Some(l) if !l.is_zero() => l,
                        _ => {
                            TIMEOUTS.fetch_add(1, Ordering::Relaxed);
                            break;
                        }
                    };
                    g = CV.wait_timeout(g, left.min(Duration::from_millis(50))).unwrap_or_else(|e| e.into_inner()).0;
                }
            }
            _ => {}
        })));
    }
    pub fn uninstall() {
        rip_kernel::verif::set_hook(None);
    }
    pub fn sent_now() -> u64 {
        SENT.load(Ordering::SeqCst)
    }
    pub fn ack(upto: u64) {
        let mut g = ACKED.lock().unwrap_or_else(|e| e.into_inner());
        if *g < upto {
            *g = upto;
        }
        CV.notify_all();
    }
    /// a collector is listening for as long as this value lives
    pub struct Listening;
    pub fn listen() -> Listening {
        ACTIVE.fetch_add(1, Ordering::SeqCst);
        Listening
    }
    impl Drop for Listening {
        fn drop(&mut self) {
            ACTIVE.fetch_sub(1, Ordering::SeqCst);
            CV.notify_all();
        }
    }
}

/// A reader of a JSONL file that shares nothing with the writer: every `refresh` opens the file anew
/// and reads the bytes after the last complete line it has seen (only what is on disk counts).
struct DiskView {
    path: PathBuf,
    offset: u64,
    /// id -> canonical JSON strings of the frames with that id
    by_id: HashMap<String, Vec<String>>,
    /// (stream kind, stream id) -> seqs in file order
    seqs: HashMap<(String, String), Vec<u64>>,
    frames: usize,
    bad_lines: usize,
    /// when set: the frames read by `refresh` since the caller last took them (`take_fresh`)
    keep_fresh: bool,
    fresh: Vec<Event>,
}
impl DiskView {
    fn new(path: PathBuf) -> Self {
        DiskView { path, offset: 0, by_id: HashMap::new(), seqs: HashMap::new(), frames: 0, bad_lines: 0, keep_fresh: false, fresh: vec![] }
    }
    fn reset(&mut self) {
        self.offset = 0;
        self.by_id.clear();
        self.seqs.clear();
        self.frames = 0;
    }
    fn take_fresh(&mut self) -> Vec<Event> {
        std::mem::take(&mut self.fresh)
    }
    fn refresh(&mut self) {
        use std::io::{Read, Seek, SeekFrom};
        let Ok(mut f) = std::fs::File::open(&self.path) else {
            // no file (yet, or removed): nothing is on disk
            if self.offset > 0 {
                self.reset();
            }
            return;
        };
        let len = f.metadata().map(|m| m.len()).unwrap_or(0);
        if len < self.offset {
            // the file was replaced by a shorter one (a cache that was lost and re-created)
            self.reset();
        }
        if f.seek(SeekFrom::Start(self.offset)).is_err() {
            return;
        }
        let mut buf = Vec::new();
        if f.read_to_end(&mut buf).is_err() {
            return;
        }
        let Some(last_nl) = buf.iter().rposition(|b| *b == b'\n') else { return };
        for line in buf[..last_nl].split(|b| *b == b'\n') {
            if line.is_empty() {
                continue;
            }
            match serde_json::from_slice::<Event>(line) {
                Ok(ev) => {
                    self.frames += 1;
                    self.seqs.entry((kind_str(ev.stream_kind()).to_string(), ev.stream_id().to_string())).or_default().push(ev.seq);
                    self.by_id.entry(ev.id.clone()).or_default().push(canon(&ev).to_string());
                    if self.keep_fresh {
                        self.fresh.push(ev);
                    }
                }
                Err(_) => self.bad_lines += 1,
            }
        }
        self.offset += last_nl as u64 + 1;
    }
    fn has(&self, ev: &Event) -> bool {
        match self.by_id.get(&ev.id) {
            Some(v) => {
                let c = canon(ev).to_string();
                v.iter().any(|s| *s == c)
            }
            None => false,
        }
    }
    fn stream_seqs(&self, kind: StreamKind, id: &str) -> Vec<u64> {
        self.seqs.get(&(kind_str(kind).to_string(), id.to_string())).cloned().unwrap_or_default()
    }
}

/// The whole stream as a fresh reader finds it right now (complete lines only), in file order.
fn disk_stream(path: &Path, kind: StreamKind, id: &str) -> Vec<Value> {
    let Ok(bytes) = std::fs::read(path) else { return vec![] };
    let Some(last_nl) = bytes.iter().rposition(|b| *b == b'\n') else { return vec![] };
    bytes[..last_nl]
        .split(|b| *b == b'\n')
        .filter(|l| !l.is_empty())
        .filter_map(|l| serde_json::from_slice::<Event>(l).ok())
        .filter(|e| e.stream_kind() == kind && e.stream_id() == id)
        .map(|e| canon(&e))
        .collect()
}

fn seqs_of(v: &[Value]) -> Vec<u64> {
    v.iter().map(|x| x.get("seq").and_then(|s| s.as_u64()).unwrap_or(u64::MAX)).collect()
}

/// Follows one session / task stream as a live subscriber and looks at the disk while it runs.
struct Collector {
    label: String,
    kind: StreamKind,
    stream_id: String,
    disk: DiskView,
    /// frames[..confirmed] were found on disk
    confirmed: usize,
    failed: bool,
    checked: u64,
    viols: Vec<Viol>,
    listening: Option<pause::Listening>,
}
impl Collector {
    fn new(kind: StreamKind, stream_id: &str, log_path: PathBuf) -> Self {
        Collector {
            label: format!("{}/{stream_id}", kind_str(kind)),
            kind,
            stream_id: stream_id.to_string(),
            disk: DiskView::new(log_path),
            confirmed: 0,
            failed: false,
            checked: 0,
            viols: vec![],
            listening: Some(pause::listen()),
        }
    }
    fn require_on_disk(&mut self, frames: &[Event], upto: usize, why: &str) {
        if self.failed || self.confirmed >= upto {
            return;
        }
        self.disk.refresh();
        for i in self.confirmed..upto {
            self.checked += 1;
            let ev = &frames[i];
            if ev.stream_kind() != self.kind || ev.stream_id() != self.stream_id {
                // reported by the end-of-history stream check
                self.confirmed = i + 1;
                continue;
            }
            if self.disk.has(ev) {
                self.confirmed = i + 1;
                continue;
            }
            let c = canon(ev);
            let on_disk = self.disk.stream_seqs(self.kind, &self.stream_id);
            self.failed = true;
            self.viols.push(Viol {
                class: "live_frame_not_on_disk",
                what: format!(
                    "stream {}: frame #{i} (type {}, seq {}, id {}) was delivered to the live subscriber and {why}, but a fresh reader of {} finds seqs {:?} of that stream ({} frames in the file)",
                    self.label,
                    frame_type(&c),
                    ev.seq,
                    ev.id,
                    self.disk.path.display(),
                    on_disk,
                    self.disk.frames
                ),
                detail: json!({"stream": self.label, "index": i, "type": frame_type(&c), "seq": ev.seq, "frame": short(&c), "received_so_far": frames.len(),
                    "received_types": frames.iter().map(|e| frame_type(&canon(e))).collect::<Vec<_>>(), "seqs_on_disk": on_disk, "when": why}),
            });
            return;
        }
    }
    /// `frames` ends with the frame that has just arrived
    fn on_frame(&mut self, frames: &[Event]) {
        let sent = pause::sent_now();
        let n = frames.len();
        if n >= 2 {
            let next = &frames[n - 1];
            let why = format!("the emitter has since published frame #{} (type {}, seq {})", n - 1, frame_type(&canon(next)), next.seq);
            self.require_on_disk(frames, n - 1, &why);
        }
        pause::ack(sent);
    }
    fn on_finished(&mut self, frames: &[Event]) {
        self.require_on_disk(frames, frames.len(), "the run has finished");
        pause::ack(pause::sent_now());
    }
}

#[derive(Default)]
struct Live {
    cont: Vec<Event>,
    cont_lagged: u64,
    sessions: Vec<(String, Vec<Event>)>,
    tasks: Vec<(String, Vec<Event>)>,
    /// sessions whose run did not finish within the timeout (their views are not compared)
    unfinished: BTreeSet<String>,
}

#[derive(Default)]
struct Stats {
    frames_compared: u64,
    checks: u64,
    dist: BTreeMap<String, u64>,
    view_frames: BTreeMap<String, u64>,
    lines: Vec<(String, String)>,
}
impl Stats {
    fn bump(&mut self, k: &str) {
        *self.dist.entry(k.to_string()).or_insert(0) += 1;
    }
    fn bump_by(&mut self, k: &str, n: u64) {
        *self.dist.entry(k.to_string()).or_insert(0) += n;
    }
    fn view(&mut self, k: &str, n: u64) {
        *self.view_frames.entry(k.to_string()).or_insert(0) += n;
    }
}

struct Collected {
    frames: Vec<Event>,
    res: Result<(), String>,
    col: Collector,
}
struct Pending {
    session_id: String,
    task: tokio::sync::oneshot::Receiver<Collected>,
}

/// The collector of a session runs on a thread of its own (its own single-threaded runtime): a task on the
/// engine's runtime would be woken into the slot of the very worker the emitter occupies while it is held.
fn spawn_collector(rx: broadcast::Receiver<Event>, started: Instant, col: Collector) -> tokio::sync::oneshot::Receiver<Collected> {
    let (tx, done) = tokio::sync::oneshot::channel();
    std::thread::spawn(move || {
        let Ok(rt) = tokio::runtime::Builder::new_current_thread().enable_time().build() else { return };
        let c = rt.block_on(collect_session(rx, started, col));
        let _ = tx.send(c);
    });
    done
}

struct Env {
    data_dir: PathBuf,
    workspace: PathBuf,
    store: Arc<ContinuityStore>,
    engine: Option<SessionEngine>,
    cont_rx: broadcast::Receiver<Event>,
    conts: Vec<String>,
    msgs: HashMap<String, Vec<String>>,
    runs: Vec<(String, String, String)>, // (continuity id, message id, run session id)
    checkpoints: Vec<String>,
    pending: Vec<Pending>,
    live: Live,
    // lazily built second universe for tool tasks (the task engine is only reachable through the router)
    task_dir: PathBuf,
    task_app: Option<axum::Router>,
    task_live: Live,
    viols: Vec<Viol>,
    /// fresh-reader views used during the history
    log_view: DiskView,
    side_views: HashMap<String, DiskView>,
    /// live.cont[..cont_checked] were looked up on disk
    cont_checked: usize,
    mid_checked: u64,
    mid_side_checked: u64,
    /// threads whose full sidecar was lost and not yet rebuilt by a replay the history asked for
    lost_full: BTreeSet<String>,
    /// threads whose derived caches (.mr / .comp / indexes) were lost at some point: those files are
    /// re-created by the next append and never compared with anything (C04's open findings S4*) —
    /// they are not one of C03's views any more
    lost_derived: BTreeSet<String>,
    mid_reported: BTreeSet<&'static str>,
    /// fresh readers of every file under continuity_streams/ (full, messages+runs, checkpoints): what they hold
    /// must be in the log after EVERY op, failed ones included
    incl_views: HashMap<String, DiskView>,
    mid_incl_checked: u64,
    /// the store's log writer sits on a full disk (`Op::Restart { failing: true }`)
    log_failing: bool,
    ops_while_failing: u64,
    /// the descriptor of the current store's log writer while it sits on /dev/full
    full_fd: Option<i32>,
}

fn kind_str(k: StreamKind) -> &'static str {
    match k {
        StreamKind::Session => "session",
        StreamKind::Task => "task",
        StreamKind::Continuity => "continuity",
        StreamKind::Artifact => "artifact",
    }
}

impl Env {
    fn cont_id(&self, c: u32) -> String {
        if c == u32::MAX || self.conts.is_empty() {
            "00000000-0000-0000-0000-00000000dead".to_string()
        } else {
            self.conts[(c as usize) % self.conts.len()].clone()
        }
    }
    fn msg_id(&self, cid: &str, m: u32) -> String {
        match self.msgs.get(cid) {
            Some(v) if !v.is_empty() => v[(m as usize) % v.len()].clone(),
            _ => "missing-message".to_string(),
        }
    }
    fn run(&self, r: u32) -> (String, String, String) {
        if self.runs.is_empty() {
            (self.cont_id(0), "missing-message".to_string(), "missing-run".to_string())
        } else {
            self.runs[(r as usize) % self.runs.len()].clone()
        }
    }
    fn add_cont(&mut self, id: String) {
        if !self.conts.contains(&id) {
            self.conts.push(id);
        }
    }
    fn drain_cont(&mut self) {
        loop {
            match self.cont_rx.try_recv() {
                Ok(ev) => self.live.cont.push(ev),
                Err(TryRecvError::Lagged(n)) => self.live.cont_lagged += n,
                Err(TryRecvError::Empty) | Err(TryRecvError::Closed) => break,
            }
        }
    }
    /// Every continuity frame the live subscriber has received is published after its log append and its
    /// sidecar append: a fresh reader must find it in events.jsonl and (unless the history has removed the
    /// thread's sidecar and not asked for a replay since) in the thread's sidecar, now.
    fn check_cont_on_disk(&mut self, op_index: usize, op: &str) {
        if self.cont_checked >= self.live.cont.len() {
            return;
        }
        self.log_view.refresh();
        let mut refreshed: BTreeSet<String> = BTreeSet::new();
        for i in self.cont_checked..self.live.cont.len() {
            let ev = self.live.cont[i].clone();
            let cid = ev.stream_id().to_string();
            let c = canon(&ev);
            self.mid_checked += 1;
            if !self.log_view.has(&ev) && self.mid_reported.insert("live_frame_not_on_disk") {
                let on_disk = self.log_view.stream_seqs(StreamKind::Continuity, &cid);
                self.viols.push(Viol {
                    class: "live_frame_not_on_disk",
                    what: format!(
                        "stream continuity/{cid}: frame type {} seq {} id {} was delivered to the store's live subscriber (op #{op_index} {op}), but a fresh reader of events.jsonl finds seqs {:?} of that stream",
                        frame_type(&c), ev.seq, ev.id, on_disk
                    ),
                    detail: json!({"stream": format!("continuity/{cid}"), "op_index": op_index, "op": op, "frame": short(&c), "seqs_on_disk": on_disk}),
                });
            }
            if ev.stream_kind() != StreamKind::Continuity || self.lost_full.contains(&cid) {
                continue;
            }
            let path = self.data_dir.join("continuity_streams").join(format!("{cid}.jsonl"));
            let view = self.side_views.entry(cid.clone()).or_insert_with(|| DiskView::new(path));
            if refreshed.insert(cid.clone()) {
                view.refresh();
            }
            self.mid_side_checked += 1;
            if !view.has(&ev) && self.mid_reported.insert("live_frame_not_in_sidecar") {
                let on_disk = view.stream_seqs(StreamKind::Continuity, &cid);
                self.viols.push(Viol {
                    class: "live_frame_not_in_sidecar",
                    what: format!(
                        "stream continuity/{cid}: frame type {} seq {} id {} was delivered to the store's live subscriber (op #{op_index} {op}), but a fresh reader of the thread's sidecar finds seqs {:?}",
                        frame_type(&c), ev.seq, ev.id, on_disk
                    ),
                    detail: json!({"stream": format!("continuity/{cid}"), "op_index": op_index, "op": op, "frame": short(&c), "seqs_in_sidecar": on_disk}),
                });
            }
        }
        self.cont_checked = self.live.cont.len();
    }
    /// "Nothing appears in one of them that is not in the log", after every op (failed ones included): every
    /// frame a fresh reader finds in a file under continuity_streams/ must be found by a fresh reader of
    /// events.jsonl.  Sound under every interleaving with runs in flight: each append path writes the log line
    /// before the sidecar line, and the log is read AFTER the sidecars here.
    fn check_sidecars_within_log(&mut self, op_index: usize, op: &str) {
        let dir = self.data_dir.join("continuity_streams");
        let mut fresh: Vec<(String, Event)> = vec![];
        for f in list_files(&dir) {
            if !f.ends_with(".jsonl") {
                continue;
            }
            let view = self.incl_views.entry(f.clone()).or_insert_with(|| {
                let mut v = DiskView::new(dir.join(&f));
                v.keep_fresh = true;
                v
            });
            view.refresh();
            for ev in view.take_fresh() {
                fresh.push((f.clone(), ev));
            }
        }
        if fresh.is_empty() {
            return;
        }
        self.log_view.refresh();
        for (f, ev) in fresh {
            self.mid_incl_checked += 1;
            if !self.log_view.has(&ev) && self.mid_reported.insert("sidecar_frame_not_in_log") {
                let c = canon(&ev);
                let cid = ev.stream_id().to_string();
                let on_disk = self.log_view.stream_seqs(StreamKind::Continuity, &cid);
                self.viols.push(Viol {
                    class: "sidecar_frame_not_in_log",
                    what: format!(
                        "stream continuity/{cid}: after op #{op_index} {op}{} a fresh reader of continuity_streams/{f} finds frame type {} seq {} id {}, and a fresh reader of events.jsonl finds seqs {:?} of that stream: the sidecar holds a frame that is not in the log",
                        if self.log_failing { " (the log's writer sits on a full disk: the op returned an error)" } else { "" },
                        frame_type(&c), ev.seq, ev.id, on_disk
                    ),
                    detail: json!({"stream": format!("continuity/{cid}"), "file": f, "op_index": op_index, "op": op, "log_writes_fail": self.log_failing, "frame": short(&c), "seqs_in_log": on_disk}),
                });
            }
        }
    }
    fn cut(&self, cid: &str, c: &Cut) -> (Option<String>, Option<u64>) {
        match c {
            Cut::Head => (None, None),
            Cut::Msg(m) => (Some(self.msg_id(cid, *m)), None),
            Cut::Seq(s) => (None, Some(*s)),
            Cut::Both => (Some(self.msg_id(cid, 0)), Some(0)),
        }
    }
}

/// descriptors of this process that refer to /dev/full
fn fds_on_dev_full() -> Vec<i32> {
    let mut v = vec![];
    if let Ok(rd) = std::fs::read_dir("/proc/self/fd") {
        for e in rd.flatten() {
            if let (Ok(target), Some(fd)) = (std::fs::read_link(e.path()), e.file_name().to_str().and_then(|s| s.parse::<i32>().ok())) {
                if target == Path::new("/dev/full") {
                    v.push(fd);
                }
            }
        }
    }
    v
}

fn actor(n: u32) -> String {
    ["user", "alice", "b\u{f6}b", "\u{1F600}", ""][(n as usize) % 5].to_string()
}
fn origin(n: u32) -> String {
    ["cli", "tui", "test", "sdk \"q\"", " "][(n as usize) % 5].to_string()
}

fn build_input(env: &Env, input: &Input) -> String {
    match input {
        Input::Prompt(t) => {
            let s = txt(t);
            // a prompt starting with '{' that happens to parse as an envelope is still fine
            s
        }
        Input::Tool { tool, text, num, timeout } => {
            let s = txt(text);
            let (name, mut args): (&str, Value) = match tool % TOOL_KINDS {
                0 => ("ls", json!({"path": ".", "recursive": true})),
                1 => ("write", json!({"path": format!("w{}.txt", text.n % 5), "content": s})),
                2 => ("read", json!({"path": "a.txt"})),
                3 => ("bash", json!({"command": "printf 'h\\303\\251llo \\360\\237\\230\\200\\n'; printf 'err\\n' 1>&2"})),
                4 => ("grep", json!({"pattern": "a", "path": "."})),
                5 => ("nope", json!({"x": [1, 2, {"y": null}], "s": s})),
                6 => ("write", json!({"path": "only-path.txt"})),
                7 => ("apply_patch", json!({"patch": s})),
                8 => ("ls", Value::Null),
                9 => ("read", json!({"path": "does/not/exist.txt"})),
                10 => ("bash", json!({"command": "printf '\\377\\376 bad utf8 \\342\\200\\250 ls\\r\\n'; exit 3"})),
                11 => ("write", json!({"path": format!("d\u{e9}r/\u{1F600}{}.txt", text.n % 3), "content": s, "append": true})),
                // several output chunks on both pipes between tool_started and tool_ended
                _ => ("bash", json!({"command": "seq 1 40; printf 'e1\\ne2 \\342\\202\\254\\n' 1>&2; printf 'tail without newline'"})),
            };
            if let (Some(bits), Value::Object(map)) = (num, &mut args) {
                map.insert("zz_num".to_string(), num_value(*bits));
                map.insert("zz_nested".to_string(), json!({"b": 1, "a": [num_value(*bits), null, -0.0, 1e21, u64::MAX, i64::MIN], "\u{e9}": "\u{2028}"}));
            }
            let mut env_v = json!({"tool": name});
            if tool % TOOL_KINDS != 8 {
                env_v["args"] = args;
            }
            if *timeout {
                env_v["timeout_ms"] = json!(5000);
            }
            env_v.to_string()
        }
        Input::CkptCreate { label, files } => {
            let files: Vec<&str> = match files % 4 {
                0 => vec![],
                1 => vec!["a.txt"],
                2 => vec!["a.txt", "dir/b.txt"],
                _ => vec!["missing.txt"],
            };
            json!({"checkpoint": {"action": "create", "label": txt(label), "files": files}}).to_string()
        }
        Input::CkptRewind { k } => {
            let id = if env.checkpoints.is_empty() { "no-such-checkpoint".to_string() } else { env.checkpoints[(*k as usize) % env.checkpoints.len()].clone() };
            json!({"checkpoint": {"action": "rewind", "id": id}}).to_string()
        }
        Input::Raw(k) => match k % RAW_KINDS {
            // tool arguments nested deeper than a frame can carry (rip_kernel::MAX_PAYLOAD_NESTING = 125): the input is
            // not taken as a tool command (W2b: a tool_started frame around them was unreadable inside the snapshot)
            6 => format!("{{\"tool\":\"ls\",\"args\":{{\"path\":\".\",\"deep\":{}1{}}}}}", "[".repeat(125), "]".repeat(125)),
            0 => "{not json}".to_string(),
            1 => "  {\"tool\":\"ls\",\"args\":{\"path\":\".\"}}  \n".to_string(),
            2 => "{}".to_string(),
            3 => "{\"tool\":\"bash\",\"args\":{\"command\":\"true\"},\"extra\":1.25}".to_string(),
            4 => "{\"tool\":\"ls\",\"args\":{\"path\":\".\",\"big\":123456789012345678901234567890,\"f\":0.1234567890123456789,\"e\":1E400}}".to_string(),
            _ => "{\"tool\":\"ls\",\"args\":{\"dup\":1,\"dup\":2,\"\\ud83d\\ude00\":\"\\u0000\"}}".to_string(),
        },
    }
}

async fn collect_session(mut rx: broadcast::Receiver<Event>, started: Instant, mut col: Collector) -> Collected {
    let mut out: Vec<Event> = Vec::new();
    let res = loop {
        let left = SESSION_TIMEOUT.checked_sub(started.elapsed()).unwrap_or(Duration::from_millis(1));
        match tokio::time::timeout(left, rx.recv()).await {
            Ok(Ok(ev)) => {
                out.push(ev);
                col.on_frame(&out);
            }
            Ok(Err(RecvError::Closed)) => {
                // every sender is gone: run_session has returned, every emit step is over
                col.on_finished(&out);
                break Ok(());
            }
            Ok(Err(RecvError::Lagged(n))) => break Err(format!("session receiver lagged by {n}")),
            Err(_) => break Err("timeout".to_string()),
        }
    };
    col.listening = None;
    Collected { frames: out, res, col }
}

async fn finish_pending(env: &mut Env, p: Pending) {
    let Collected { frames: got, res, col } = match p.task.await {
        Ok(c) => c,
        Err(e) => {
            env.viols.push(Viol { class: "harness_setup", what: format!("collector of session {} failed: {e}", p.session_id), detail: json!({}) });
            return;
        }
    };
    env.mid_checked += col.checked;
    env.viols.extend(col.viols.iter().cloned());
    drop(col);
    for ev in &got {
        if let EventKind::CheckpointCreated { checkpoint_id, .. } = &ev.kind {
            env.checkpoints.push(checkpoint_id.clone());
        }
    }
    let ended = got.iter().any(|e| matches!(e.kind, EventKind::SessionEnded { .. }));
    match res {
        Ok(()) => {
            if !ended {
                env.viols.push(Viol {
                    class: "panic",
                    what: format!("session {} task finished (channel closed) without a session_ended frame after {} frames — run_session panicked?", p.session_id, got.len()),
                    detail: json!({"session_id": p.session_id, "frames": got.len()}),
                });
            }
        }
        Err(e) => {
            env.live.unfinished.insert(p.session_id.clone());
            env.viols.push(Viol {
                class: "session_timeout",
                what: format!("session {} did not finish within {:?}: {e}; {} frames received, session_ended seen: {ended}", p.session_id, SESSION_TIMEOUT, got.len()),
                detail: json!({"session_id": p.session_id, "frames": got.len(), "ended": ended}),
            });
        }
    }
    env.live.sessions.push((p.session_id.clone(), got));
}

async fn http_json(app: &axum::Router, method: &str, uri: &str, body: Option<Value>) -> Result<(u16, Value), String> {
    use http_body_util::BodyExt;
    use tower::ServiceExt;
    let mut b = axum::http::Request::builder().method(method).uri(uri);
    let body = match body {
        Some(v) => {
            b = b.header("content-type", "application/json");
            axum::body::Body::from(v.to_string())
        }
        None => axum::body::Body::empty(),
    };
    let req = b.body(body).map_err(|e| e.to_string())?;
    let resp = app.clone().oneshot(req).await.map_err(|e| e.to_string())?;
    let status = resp.status().as_u16();
    let bytes = resp.into_body().collect().await.map_err(|e| e.to_string())?.to_bytes();
    let v = serde_json::from_slice(&bytes).unwrap_or(Value::Null);
    Ok((status, v))
}

fn task_terminal(ev: &Event) -> bool {
    matches!(
        &ev.kind,
        EventKind::ToolTaskStatus { status, .. }
            if matches!(status, rip_kernel::ToolTaskStatus::Exited | rip_kernel::ToolTaskStatus::Cancelled | rip_kernel::ToolTaskStatus::Failed)
    )
}

/// reads the task's SSE stream (past + live frames) until the terminal status frame
async fn task_sse(app: &axum::Router, task_id: &str, col: &mut Collector) -> Result<Vec<Event>, String> {
    use http_body_util::BodyExt;
    use tower::ServiceExt;
    let req = axum::http::Request::builder()
        .method("GET")
        .uri(format!("/tasks/{task_id}/events"))
        .body(axum::body::Body::empty())
        .map_err(|e| e.to_string())?;
    let resp = app.clone().oneshot(req).await.map_err(|e| e.to_string())?;
    if resp.status().as_u16() != 200 {
        return Err(format!("sse status {}", resp.status()));
    }
    let mut body = resp.into_body();
    let mut buf: Vec<u8> = Vec::new();
    let mut out = Vec::new();
    let started = Instant::now();
    loop {
        let left = SESSION_TIMEOUT.checked_sub(started.elapsed()).ok_or_else(|| "timeout".to_string())?;
        let frame = match tokio::time::timeout(left, body.frame()).await {
            Err(_) => return Err("timeout".to_string()),
            Ok(None) => return Err("sse stream ended before the terminal status".to_string()),
            Ok(Some(Err(e))) => return Err(format!("sse body error: {e}")),
            Ok(Some(Ok(f))) => f,
        };
        if let Ok(data) = frame.into_data() {
            buf.extend_from_slice(&data);
        }
        while let Some(pos) = buf.windows(2).position(|w| w == b"\n\n") {
            let block: Vec<u8> = buf.drain(..pos + 2).collect();
            let text = String::from_utf8_lossy(&block).to_string();
            for line in text.lines() {
                if let Some(rest) = line.strip_prefix("data:") {
                    let rest = rest.strip_prefix(' ').unwrap_or(rest);
                    let ev: Event = serde_json::from_str(rest).map_err(|e| format!("sse frame does not parse: {e}: {rest}"))?;
                    out.push(ev);
                    col.on_frame(&out);
                }
            }
        }
        if out.last().map(task_terminal).unwrap_or(false) {
            return Ok(out);
        }
    }
}

async fn run_task_op(env: &mut Env, cmd: u8, title: &Option<Txt>, num: &Option<u64>) -> Result<(), String> {
    if env.task_app.is_none() {
        let ws = env.task_dir.join("workspace");
        std::fs::create_dir_all(&ws).map_err(|e| e.to_string())?;
        env.task_app = Some(ripd::verif::build_app(env.task_dir.join("data"), ws, None));
    }
    let app = env.task_app.clone().unwrap();
    let command = match cmd % TASK_CMDS {
        0 => "printf 'h\\303\\251llo \\360\\237\\230\\200\\n'",
        1 => "printf 'out\\n'; printf 'err \\342\\200\\250\\n' 1>&2; exit 7",
        2 => "printf '\\377\\376\\n'; printf 'tail'",
        3 => "seq 1 300",
        4 => "",
        6 => "printf 'never runs'",
        // output that arrives while the task keeps running: several delta frames with time in between
        _ => "printf 'tick\\n'; sleep 0.25; printf 'err\\n' 1>&2; sleep 0.25; printf 'tock\\n'; sleep 0.25; printf 'done'",
    };
    let mut args = json!({"command": command});
    if cmd % TASK_CMDS == 6 {
        // arguments nested deeper than a frame can carry: the request is refused (400), no task stream exists
        let mut deep = json!(1);
        for _ in 0..125 {
            deep = Value::Array(vec![deep]);
        }
        args["zz_deep"] = deep;
    }
    if let Some(bits) = num {
        args["zz_num"] = num_value(*bits);
    }
    let mut payload = json!({"tool": "bash", "args": args, "execution_mode": "pipes"});
    if let Some(t) = title {
        payload["title"] = json!(txt(t));
    }
    let (status, v) = http_json(&app, "POST", "/tasks", Some(payload)).await?;
    if status != 201 {
        return Err(format!("POST /tasks -> {status}"));
    }
    let task_id = v.get("task_id").and_then(|x| x.as_str()).unwrap_or_default().to_string();
    let mut col = Collector::new(StreamKind::Task, &task_id, env.task_dir.join("data").join("events.jsonl"));
    let sse = task_sse(&app, &task_id, &mut col).await;
    col.listening = None;
    match sse {
        Ok(frames) => {
            // the terminal frame is broadcast before it is logged and before the snapshot is written
            let snap = env.task_dir.join("data").join("task_snapshots").join(format!("{task_id}.json"));
            let t0 = Instant::now();
            let mut settled = false;
            // an unreadable snapshot that no longer changes is final (reported by the comparison below): do not sit out the grace
            let mut unreadable: Option<(u64, Instant)> = None;
            while t0.elapsed() < SNAPSHOT_GRACE {
                match rip_log::read_snapshot(&snap) {
                    Ok(evs) => {
                        unreadable = None;
                        if evs.len() >= frames.len() {
                            settled = true;
                            break;
                        }
                    }
                    Err(_) => {
                        if let Ok(len) = std::fs::metadata(&snap).map(|m| m.len()) {
                            match unreadable {
                                Some((l, since)) if l == len => {
                                    if since.elapsed() > Duration::from_secs(3) {
                                        break;
                                    }
                                }
                                _ => unreadable = Some((len, Instant::now())),
                            }
                        }
                    }
                }
                tokio::time::sleep(Duration::from_millis(5)).await;
            }
            if settled {
                col.on_finished(&frames);
            }
            env.mid_checked += col.checked;
            env.viols.extend(col.viols.iter().cloned());
            env.task_live.tasks.push((task_id, frames));
            Ok(())
        }
        Err(e) => {
            env.mid_checked += col.checked;
            env.viols.extend(col.viols.iter().cloned());
            env.task_live.unfinished.insert(task_id.clone());
            if e == "timeout" {
                env.viols.push(Viol { class: "session_timeout", what: format!("task {task_id} did not reach a terminal status within {:?}", SESSION_TIMEOUT), detail: json!({"task_id": task_id}) });
                Ok(())
            } else {
                Err(e)
            }
        }
    }
}

/// Executes one op; `Err` = the implementation refused (fine, recorded in the distribution).
async fn exec_op(env: &mut Env, i: usize, op: &Op) -> Result<(), String> {
    let a = actor(i as u32);
    let o = origin(i as u32 / 2);
    let store = env.store.clone();
    match op {
        Op::EnsureDefault => {
            let id = store.ensure_default()?;
            env.add_cont(id);
            Ok(())
        }
        Op::Message { c, text } => {
            let cid = env.cont_id(*c);
            let mid = store.append_message(&cid, a, o, txt(text))?;
            env.msgs.entry(cid).or_default().push(mid);
            Ok(())
        }
        Op::RunSpawned { c, m } => {
            let cid = env.cont_id(*c);
            let mid = env.msg_id(&cid, *m);
            let sid = format!("pseudo-run-{}", env.runs.len());
            store.append_run_spawned(&cid, &mid, &sid, a, o)?;
            env.runs.push((cid, mid, sid));
            Ok(())
        }
        Op::RunEnded { r, reason } => {
            let (cid, mid, sid) = env.run(*r);
            store.append_run_ended(&cid, &mid, &sid, txt(reason), a, o).map(|_| ())
        }
        Op::SideEffects { r, paths, ckpt, name } => {
            let (cid, mid, sid) = env.run(*r);
            let link = ContinuityRunLink { continuity_id: cid, message_id: mid, actor_id: a, origin: o };
            let affected_paths = match paths % 3 {
                0 => None,
                1 => Some(vec![]),
                _ => Some(vec!["a.txt".to_string(), format!("d\u{e9}r/{}", txt(name)), "w\\in\\path".to_string()]),
            };
            let fx = ToolSideEffects {
                tool_id: format!("tool-{i}"),
                tool_name: txt(name),
                affected_paths,
                checkpoint_id: if *ckpt { Some(format!("ckpt-{i}")) } else { None },
            };
            store.append_tool_side_effects(&link, &sid, fx).map(|_| ())
        }
        Op::Branch { c, title, from } => {
            let cid = env.cont_id(*c);
            let (fm, fs) = env.cut(&cid, from);
            let (id, _, _) = store.branch(&cid, title.as_ref().map(txt), fm, fs, a, o)?;
            env.add_cont(id);
            Ok(())
        }
        Op::Handoff { c, title, md, art, from } => {
            let cid = env.cont_id(*c);
            let (fm, fs) = env.cut(&cid, from);
            let art = if *art { Some(format!("{:064x}", i)) } else { None };
            let (id, _, _) = store.handoff(&cid, title.as_ref().map(txt), (md.as_ref().map(txt), art), fm, fs, (a, o))?;
            env.add_cont(id);
            Ok(())
        }
        Op::CkptCumulative { c, md, art, to, stride } => {
            let cid = env.cont_id(*c);
            let (tm, ts) = env.cut(&cid, to);
            // a `to_seq` must be a message boundary: map the small number onto a real message seq when possible
            let ts = ts.map(|s| {
                let evs = store.replay_events(&cid).unwrap_or_default();
                let seqs: Vec<u64> = evs.iter().filter(|e| matches!(e.kind, EventKind::ContinuityMessageAppended { .. })).map(|e| e.seq).collect();
                if seqs.is_empty() || s % 4 == 3 {
                    s
                } else {
                    seqs[(s as usize) % seqs.len()]
                }
            });
            let req = CompactionCheckpointCumulativeV1Request {
                summary_markdown: md.as_ref().map(txt),
                summary_artifact_id: if *art { Some(format!("{:064x}", i)) } else { None },
                to_message_id: tm,
                to_seq: ts,
                stride_messages: *stride,
                actor_id: a,
                origin: o,
            };
            store.compaction_checkpoint_cumulative_v1(&cid, req).map(|_| ())
        }
        Op::CompAuto { c, stride, maxn, dry } => {
            let cid = env.cont_id(*c);
            let req = CompactionAutoV1Request { stride_messages: *stride, max_new_checkpoints: *maxn, dry_run: *dry, actor_id: a, origin: o };
            store.compaction_auto_v1(&cid, req).map(|_| ())
        }
        Op::CompSchedule { c, stride, maxn, block, execute, dry } => {
            let cid = env.cont_id(*c);
            let req = CompactionAutoScheduleV1Request {
                stride_messages: *stride,
                max_new_checkpoints: *maxn,
                block_on_inflight: *block,
                execute: *execute,
                dry_run: *dry,
                actor_id: a,
                origin: o,
            };
            store.compaction_auto_schedule_v1(&cid, req).map(|_| ())
        }
        Op::CursorRotate { c, filt, reason } => {
            let cid = env.cont_id(*c);
            let req = ProviderCursorRotateV1Request {
                provider: if filt & 1 == 1 { Some("openresponses".to_string()) } else { None },
                endpoint: if filt & 2 == 2 { Some("http://example.test/v1/responses".to_string()) } else { None },
                model: None,
                reason: reason.as_ref().map(txt),
                actor_id: a,
                origin: o,
            };
            store.provider_cursor_rotate_v1(&cid, req).map(|_| ())
        }
        Op::SelDecided { c, r, nck, strategy } => {
            let cid = env.cont_id(*c);
            let (_, mid, sid) = env.run(*r);
            let cks = (0..*nck)
                .map(|k| rip_kernel::ContextSelectionCompactionCheckpointV1 {
                    checkpoint_id: format!("ck-{i}-{k}"),
                    summary_kind: "cumulative_v1".to_string(),
                    summary_artifact_id: format!("{:064x}", k),
                    to_seq: if k == 1 { u64::MAX } else { k as u64 },
                })
                .collect();
            ripd::verif::append_context_selection_decided(&store, &cid, sid, mid, txt(strategy), cks, a, o).map(|_| ())
        }
        Op::Compiled { c, r, from_seq, from_msg, strategy } => {
            let cid = env.cont_id(*c);
            let (_, mid, sid) = env.run(*r);
            ripd::verif::append_context_compiled(&store, &cid, sid, format!("{:064x}", i), txt(strategy), *from_seq, if *from_msg { Some(mid) } else { None }, a, o).map(|_| ())
        }
        Op::CursorUpdated { c, cursor, num, endpoint, model, run, text } => {
            let cid = env.cont_id(*c);
            let cur = match cursor % 5 {
                0 => None,
                1 => Some(Value::Null),
                2 => Some(json!({"b": 1, "a": [1.5, null]})),
                3 => Some(json!({"previous_response_id": "resp_1", "f": num_value(num.unwrap_or(0)), "neg": -1, "big": u64::MAX, "min": i64::MIN, "z": -0.0})),
                _ => Some(json!({"\u{e9}\u{1F600}": txt(text), "nested": {"null": null, "arr": [[], {}, "", false]}, "": 0})),
            };
            ripd::verif::append_provider_cursor_updated(
                &store,
                &cid,
                "openresponses".to_string(),
                if *endpoint { Some("http://example.test/v1/responses".to_string()) } else { None },
                if *model { Some(txt(text)) } else { None },
                cur,
                ["set", "cleared", "rotated"][i % 3].to_string(),
                if *run { Some(format!("run-{i}")) } else { None },
                a,
                o,
            )
            .map(|_| ())
        }
        Op::Session { input, link, wait } => {
            let Some(engine) = env.engine.as_ref() else { return Err("no engine in this history".to_string()) };
            let text = build_input(env, input);
            let handle = engine.create_session();
            let rx = handle.subscribe();
            let sid = handle.session_id.clone();
            let mut run_link = None;
            if let Some(c) = link {
                let cid = env.cont_id(*c);
                // what the server does for a thread message: message, run_spawned, linked run
                if let Ok(mid) = store.append_message(&cid, a.clone(), o.clone(), text.clone()) {
                    env.msgs.entry(cid.clone()).or_default().push(mid.clone());
                    if store.append_run_spawned(&cid, &mid, &sid, a.clone(), o.clone()).is_ok() {
                        env.runs.push((cid.clone(), mid.clone(), sid.clone()));
                        run_link = Some(ContinuityRunLink { continuity_id: cid, message_id: mid, actor_id: a, origin: o });
                    }
                }
            }
            // the handle is moved into the engine: once run_session returns every sender is gone and
            // the receiver reports Closed — our "run finished" signal (snapshot + run_ended are written before)
            let col = Collector::new(StreamKind::Session, &sid, env.data_dir.join("events.jsonl"));
            let task = spawn_collector(rx, Instant::now(), col);
            engine.spawn_session(handle, text, run_link, None);
            let p = Pending { session_id: sid, task };
            if *wait {
                finish_pending(env, p).await;
            } else {
                env.pending.push(p);
            }
            Ok(())
        }
        Op::Task { cmd, title, num } => run_task_op(env, *cmd, title, num).await,
        Op::LoseCaches { which, c } => {
            // no run is in flight while the files go away: the state afterwards is "everything appended so
            // far is gone from the cache, nothing else" (any later append re-creates files holding a suffix)
            let pend: Vec<Pending> = std::mem::take(&mut env.pending);
            for p in pend {
                finish_pending(env, p).await;
            }
            env.drain_cont();
            env.check_cont_on_disk(i, "lose_caches(before)");
            let dir = env.data_dir.join("continuity_streams");
            match which % 3 {
                0 => {
                    let _ = std::fs::remove_dir_all(&dir);
                    let all: Vec<String> = env.conts.clone();
                    for cid in all {
                        env.lost_full.insert(cid.clone());
                        env.lost_derived.insert(cid);
                    }
                    // threads the history does not know by index (children of refused ops do not exist; defaults do)
                    for ev in &env.live.cont {
                        env.lost_full.insert(ev.stream_id().to_string());
                        env.lost_derived.insert(ev.stream_id().to_string());
                    }
                }
                1 => {
                    let cid = env.cont_id(*c);
                    for f in list_files(&dir) {
                        if f.starts_with(&format!("{cid}.")) {
                            let _ = std::fs::remove_file(dir.join(f));
                        }
                    }
                    env.lost_full.insert(cid.clone());
                    env.lost_derived.insert(cid);
                }
                _ => {
                    let cid = env.cont_id(*c);
                    let _ = std::fs::remove_file(dir.join(format!("{cid}.jsonl")));
                    env.lost_full.insert(cid.clone());
                    // the indexes over the full sidecar now describe a file that is gone
                    env.lost_derived.insert(cid);
                }
            }
            Ok(())
        }
        Op::Restart { failing } => {
            if env.engine.is_some() {
                return Err("the engine owns its log: no restart in this kind of history".to_string());
            }
            if *failing && !Path::new("/dev/full").exists() {
                return Err("no /dev/full on this box".to_string());
            }
            env.drain_cont();
            let link = env.data_dir.join("events.jsonl");
            let real = env.data_dir.join(REAL_LOG);
            if *failing {
                // the writer is opened while the path points at /dev/full and keeps that descriptor
                std::fs::remove_file(&link).map_err(|e| format!("unlink: {e}"))?;
                std::os::unix::fs::symlink("/dev/full", &link).map_err(|e| format!("symlink: {e}"))?;
            }
            let before = fds_on_dev_full();
            let log = EventLog::new(&link);
            env.full_fd = if *failing { fds_on_dev_full().into_iter().find(|fd| !before.contains(fd)) } else { None };
            if *failing {
                let _ = std::fs::remove_file(&link);
                std::os::unix::fs::symlink(&real, &link).map_err(|e| format!("symlink back: {e}"))?;
            }
            let log = Arc::new(log.map_err(|e| e.to_string())?);
            let store = Arc::new(ContinuityStore::new(env.data_dir.clone(), env.workspace.clone(), log)?);
            // the subscriber of the old store has everything it published (drained above); follow the new one
            env.cont_rx = store.subscribe();
            env.store = store;
            env.log_failing = *failing;
            Ok(())
        }
        Op::DiskRecovers => {
            let Some(fd) = env.full_fd.take() else { return Err("the writer is not on a full disk".to_string()) };
            if !fds_on_dev_full().contains(&fd) {
                return Err("the writer's descriptor is gone".to_string());
            }
            use std::os::fd::AsRawFd;
            let real = std::fs::OpenOptions::new().create(true).append(true).open(env.data_dir.join(REAL_LOG)).map_err(|e| e.to_string())?;
            // SAFETY: fd is an open descriptor of this process (checked above) owned by the store's log writer; dup2
            // atomically makes it refer to the real log's open file description, the writer is not touched
            let rc = unsafe { libc::dup2(real.as_raw_fd(), fd) };
            if rc < 0 {
                return Err(format!("dup2: {}", std::io::Error::last_os_error()));
            }
            env.log_failing = false;
            Ok(())
        }
        Op::Replay { c } => {
            let cid = env.cont_id(*c);
            let log_path = env.data_dir.join("events.jsonl");
            // Appends of runs in flight may land around the call.  Lower bound: every frame of the thread the
            // live subscriber already has (a frame is published after its log and sidecar appends).  Upper
            // bound: the log read after the call (the log append comes first).
            env.drain_cont();
            let before: Vec<Value> = env.live.cont.iter().filter(|e| e.stream_id() == cid).map(canon).collect();
            let got = store.replay_events(&cid);
            let after = disk_stream(&log_path, StreamKind::Continuity, &cid);
            env.mid_checked += 1;
            match got {
                Ok(evs) => {
                    let r: Vec<Value> = evs.iter().map(canon).collect();
                    let ok = r.len() >= before.len() && r.len() <= after.len() && r.iter().zip(after.iter()).all(|(a, b)| a == b) && r.iter().zip(before.iter()).all(|(a, b)| a == b);
                    if !ok {
                        let at = r.iter().zip(after.iter()).position(|(a, b)| a != b);
                        env.viols.push(Viol {
                            class: "replay_differs_from_log",
                            what: format!(
                                "stream continuity/{cid}: replay_events (the past a late subscriber gets) returned {} frames with seqs {:?}; the live subscriber already has seqs {:?} and a fresh reader of events.jsonl finds {} frames with seqs {:?}{}",
                                r.len(),
                                seqs_of(&r),
                                seqs_of(&before),
                                after.len(),
                                seqs_of(&after),
                                at.map(|k| format!("; first difference at position {k}: {} vs {}", short(&r[k]), short(&after[k]))).unwrap_or_default()
                            ),
                            detail: json!({"stream": format!("continuity/{cid}"), "op_index": i, "replay_seqs": seqs_of(&r), "log_seqs": seqs_of(&after), "live_seqs_before_call": seqs_of(&before)}),
                        });
                    }
                    // the store has looked at the sidecar and (if it refused it) rebuilt it from the log
                    if env.lost_full.remove(&cid) {
                        env.side_views.remove(&cid);
                        // frames of this thread received so far are checked against the rebuilt file from now on
                    }
                    Ok(())
                }
                Err(e) => {
                    if !after.is_empty() {
                        env.viols.push(Viol {
                            class: "replay_differs_from_log",
                            what: format!("stream continuity/{cid}: replay_events failed ({e}) while a fresh reader of events.jsonl finds {} frames of the thread", after.len()),
                            detail: json!({"stream": format!("continuity/{cid}"), "op_index": i, "error": e.to_string(), "log_seqs": seqs_of(&after)}),
                        });
                    }
                    Err(e.to_string())
                }
            }
        }
    }
}

struct RunReport {
    viols: Vec<Viol>,
    stats: Stats,
    views: Value,
}

async fn run_ops(kind: HKind, ops: &[Op], scratch: &Path) -> Result<RunReport, String> {
    let data_dir = scratch.join("data");
    let workspace = scratch.join("workspace");
    std::fs::create_dir_all(workspace.join("dir")).map_err(|e| e.to_string())?;
    std::fs::write(workspace.join("a.txt"), "alpha\nbeta \u{e9}\u{1F600}\n").map_err(|e| e.to_string())?;
    std::fs::write(workspace.join("dir").join("b.txt"), "banana\n").map_err(|e| e.to_string())?;

    let (store, engine) = match kind {
        HKind::Cont => {
            // events.jsonl is a symlink to the real file, so that a restart can open the writer on /dev/full
            std::fs::create_dir_all(&data_dir).map_err(|e| e.to_string())?;
            std::os::unix::fs::symlink(data_dir.join(REAL_LOG), data_dir.join("events.jsonl")).map_err(|e| format!("symlink: {e}"))?;
            let log = Arc::new(EventLog::new(data_dir.join("events.jsonl")).map_err(|e| e.to_string())?);
            (Arc::new(ContinuityStore::new(data_dir.clone(), workspace.clone(), log)?), None)
        }
        HKind::Sess => {
            let engine = SessionEngine::new(data_dir.clone(), workspace.clone(), None)?;
            (engine.continuities(), Some(engine))
        }
    };
    let cont_rx = store.subscribe();
    let mut env = Env {
        data_dir: data_dir.clone(),
        workspace,
        store,
        engine,
        cont_rx,
        conts: vec![],
        msgs: HashMap::new(),
        runs: vec![],
        checkpoints: vec![],
        pending: vec![],
        live: Live::default(),
        task_dir: scratch.join("tasks"),
        task_app: None,
        task_live: Live::default(),
        viols: vec![],
        log_view: DiskView::new(data_dir.join("events.jsonl")),
        side_views: HashMap::new(),
        cont_checked: 0,
        mid_checked: 0,
        mid_side_checked: 0,
        lost_full: BTreeSet::new(),
        lost_derived: BTreeSet::new(),
        mid_reported: BTreeSet::new(),
        incl_views: HashMap::new(),
        mid_incl_checked: 0,
        log_failing: false,
        ops_while_failing: 0,
        full_fd: None,
    };
    let mut stats = Stats::default();

    for (i, op) in ops.iter().enumerate() {
        let name = op_name(op);
        stats.bump(&format!("op.{name}"));
        match exec_op(&mut env, i, op).await {
            Ok(()) => stats.bump(&format!("op_ok.{name}")),
            Err(_) => stats.bump(&format!("op_err.{name}")),
        }
        if env.log_failing && !matches!(op, Op::Restart { .. }) {
            env.ops_while_failing += 1;
            stats.bump(&format!("full_disk.{}.{name}", if matches!(op, Op::Replay { .. } | Op::LoseCaches { .. }) { "read_op" } else { "write_op" }));
        }
        env.drain_cont();
        env.check_cont_on_disk(i, name);
        env.check_sidecars_within_log(i, name);
    }
    let pend: Vec<Pending> = std::mem::take(&mut env.pending);
    for p in pend {
        finish_pending(&mut env, p).await;
    }
    env.drain_cont();
    env.check_cont_on_disk(ops.len(), "end of history");
    env.check_sidecars_within_log(ops.len(), "end of history");
    stats.bump_by("mid.live_frames_looked_up_in_log", env.mid_checked);
    stats.bump_by("mid.live_frames_looked_up_in_sidecar", env.mid_side_checked);
    stats.bump_by("mid.sidecar_frames_looked_up_in_log", env.mid_incl_checked);
    stats.checks += env.mid_checked + env.mid_side_checked + env.mid_incl_checked;

    // ---------------- compare the views
    let mut viols = std::mem::take(&mut env.viols);
    let mut views = serde_json::Map::new();
    let store = env.store.clone();
    let lost = Lost { full: env.lost_full.clone(), derived: env.lost_derived.clone() };
    compare_dir(&data_dir, &env.live, Some(store.as_ref()), &lost, &mut stats, &mut viols, &mut views, "");
    if env.task_app.is_some() {
        compare_dir(&env.task_dir.join("data"), &env.task_live, None, &Lost::default(), &mut stats, &mut viols, &mut views, "tasks.");
    }
    drop(env);
    Ok(RunReport { viols, stats, views: Value::Object(views) })
}

// ------------------------------------------------------------------------------------------------
// the oracle
// ------------------------------------------------------------------------------------------------

fn canon(e: &Event) -> Value {
    serde_json::to_value(e).unwrap_or(Value::Null)
}
fn short(v: &Value) -> String {
    let s = v.to_string();
    if s.len() > 300 {
        let mut end = 300;
        while !s.is_char_boundary(end) {
            end -= 1;
        }
        format!("{}…(+{} bytes)", &s[..end], s.len() - end)
    } else {
        s
    }
}
fn first_diff(a: &Value, b: &Value, path: &str) -> Option<(String, Value, Value)> {
    if a == b {
        return None;
    }
    match (a, b) {
        (Value::Object(x), Value::Object(y)) => {
            let keys: BTreeSet<&String> = x.keys().chain(y.keys()).collect();
            for k in keys {
                match (x.get(k), y.get(k)) {
                    (Some(p), Some(q)) => {
                        if let Some(d) = first_diff(p, q, &format!("{path}/{k}")) {
                            return Some(d);
                        }
                    }
                    (p, q) => return Some((format!("{path}/{k}"), p.cloned().unwrap_or(json!("<absent>")), q.cloned().unwrap_or(json!("<absent>")))),
                }
            }
            None
        }
        (Value::Array(x), Value::Array(y)) => {
            if x.len() != y.len() {
                return Some((format!("{path}/#len"), json!(x.len()), json!(y.len())));
            }
            for (i, (p, q)) in x.iter().zip(y.iter()).enumerate() {
                if let Some(d) = first_diff(p, q, &format!("{path}/{i}")) {
                    return Some(d);
                }
            }
            None
        }
        _ => Some((path.to_string(), a.clone(), b.clone())),
    }
}
fn frame_type(v: &Value) -> String {
    v.get("type").and_then(|t| t.as_str()).unwrap_or("?").to_string()
}

struct LogView {
    events: Vec<Event>,
    canon: Vec<Value>,
    by_stream: BTreeMap<(String, String), Vec<usize>>,
    /// id -> canonical strings of the log frames with that id
    by_id: HashMap<String, Vec<String>>,
}

fn read_jsonl(path: &Path) -> Result<Vec<(String, Event)>, String> {
    let bytes = std::fs::read(path).map_err(|e| format!("read {}: {e}", path.display()))?;
    let text = String::from_utf8(bytes).map_err(|e| format!("{} is not UTF-8: {e}", path.display()))?;
    if !text.is_empty() && !text.ends_with('\n') {
        return Err(format!("{} does not end with a newline (torn last line)", path.display()));
    }
    let mut out = Vec::new();
    for (i, line) in text.split_terminator('\n').enumerate() {
        let ev: Event = serde_json::from_str(line).map_err(|e| format!("{} line {i} does not parse: {e}", path.display()))?;
        out.push((line.to_string(), ev));
    }
    Ok(out)
}

fn compare_lists(stream: &str, ref_name: &str, reference: &[Value], view_name: &str, view: &[Value], stats: &mut Stats, viols: &mut Vec<Viol>) {
    stats.checks += 1;
    stats.view(view_name, view.len() as u64);
    if reference.len() != view.len() {
        viols.push(Viol {
            class: "views_differ",
            what: format!("stream {stream}: view `{view_name}` has {} frames, `{ref_name}` has {}", view.len(), reference.len()),
            detail: json!({"stream": stream, "views": [ref_name, view_name], "lens": [reference.len(), view.len()],
                "types_ref": reference.iter().map(frame_type).collect::<Vec<_>>(), "types_view": view.iter().map(frame_type).collect::<Vec<_>>()}),
        });
    }
    for (i, (a, b)) in reference.iter().zip(view.iter()).enumerate() {
        stats.frames_compared += 1;
        if a != b {
            let (path, x, y) = first_diff(a, b, "").unwrap_or_default();
            viols.push(Viol {
                class: "views_differ",
                what: format!("stream {stream} frame #{i} ({}): `{ref_name}` and `{view_name}` differ at {path}: {} vs {}", frame_type(a), short(&x), short(&y)),
                detail: json!({"stream": stream, "index": i, "type": frame_type(a), "views": [ref_name, view_name], "path": path, "a": short(&x), "b": short(&y)}),
            });
            break;
        }
    }
}

fn check_inclusion(stream: &str, view_name: &str, view: &[Event], log: &LogView, stats: &mut Stats, viols: &mut Vec<Viol>) {
    stats.checks += 1;
    let mut used: HashMap<(String, String), usize> = HashMap::new();
    for ev in view {
        let c = canon(ev).to_string();
        let have = log.by_id.get(&ev.id).map(|v| v.iter().filter(|s| **s == c).count()).unwrap_or(0);
        let n = used.entry((ev.id.clone(), c)).or_insert(0);
        *n += 1;
        if *n > have {
            let same_id = log.by_id.get(&ev.id).and_then(|v| v.first()).cloned();
            viols.push(Viol {
                class: "view_extra_frame",
                what: format!(
                    "stream {stream}: view `{view_name}` holds frame id={} type={} seq={} that is not in the log ({})",
                    ev.id,
                    frame_type(&canon(ev)),
                    ev.seq,
                    if same_id.is_some() { "a log frame with the same id exists but differs" } else { "no log frame with this id" }
                ),
                detail: json!({"stream": stream, "view": view_name, "frame": short(&canon(ev)), "log_frame_same_id": same_id.map(|s| short(&Value::String(s)))}),
            });
            return;
        }
    }
}

fn check_stream_of(stream_kind: StreamKind, stream_id: &str, view_name: &str, view: &[Event], stats: &mut Stats, viols: &mut Vec<Viol>) {
    stats.checks += 1;
    for (i, ev) in view.iter().enumerate() {
        if ev.stream_kind() != stream_kind || ev.stream_id() != stream_id {
            viols.push(Viol {
                class: "stream_changed",
                what: format!(
                    "view `{view_name}` of stream {}/{stream_id}: frame #{i} id={} type={} is assigned to {}/{}",
                    kind_str(stream_kind),
                    ev.id,
                    frame_type(&canon(ev)),
                    kind_str(ev.stream_kind()),
                    ev.stream_id()
                ),
                detail: json!({"view": view_name, "expected": [kind_str(stream_kind), stream_id], "got": [kind_str(ev.stream_kind()), ev.stream_id()], "frame": short(&canon(ev))}),
            });
            return;
        }
    }
}

fn list_files(dir: &Path) -> Vec<String> {
    let mut v: Vec<String> = std::fs::read_dir(dir)
        .map(|rd| rd.filter_map(|e| e.ok()).filter_map(|e| e.file_name().into_string().ok()).collect())
        .unwrap_or_default();
    v.sort();
    v
}

#[derive(Default)]
struct Lost {
    full: BTreeSet<String>,
    derived: BTreeSet<String>,
}

#[allow(clippy::too_many_arguments)]
fn compare_dir(data_dir: &Path, live: &Live, store: Option<&ContinuityStore>, lost: &Lost, stats: &mut Stats, viols: &mut Vec<Viol>, views: &mut serde_json::Map<String, Value>, tag: &str) {
    let log_path = data_dir.join("events.jsonl");
    if !log_path.exists() {
        // nothing was ever appended (every op failed before the first frame)
        let live_n = live.cont.len() + live.sessions.iter().map(|s| s.1.len()).sum::<usize>() + live.tasks.iter().map(|s| s.1.len()).sum::<usize>();
        stats.checks += 1;
        if live_n > 0 {
            viols.push(Viol { class: "view_extra_frame", what: format!("{live_n} frames were broadcast but {} does not exist", log_path.display()), detail: json!({"live_frames": live_n}) });
        }
        views.insert(format!("{tag}log"), json!(0));
        return;
    }

    // ---- view 2: the log, read back twice (own parser on the raw lines + EventLog::replay on a fresh log)
    let lines = match read_jsonl(&log_path) {
        Ok(l) => l,
        Err(e) => {
            viols.push(Viol { class: "views_differ", what: format!("log unreadable: {e}"), detail: json!({"error": e}) });
            return;
        }
    };
    let fresh = match EventLog::new(&log_path) {
        Ok(l) => l,
        Err(e) => {
            viols.push(Viol { class: "views_differ", what: format!("cannot reopen the log: {e}"), detail: json!({}) });
            return;
        }
    };
    let mut log = LogView { events: vec![], canon: vec![], by_stream: BTreeMap::new(), by_id: HashMap::new() };
    for (i, (line, ev)) in lines.iter().enumerate() {
        let c = canon(ev);
        // byte-level round trip of the line
        stats.checks += 1;
        let again = serde_json::to_string(ev).unwrap_or_default();
        if &again != line {
            let raw: Value = serde_json::from_str(line).unwrap_or(Value::Null);
            let (path, x, y) = first_diff(&raw, &c, "").unwrap_or_else(|| ("<same JSON value, different bytes>".to_string(), Value::Null, Value::Null));
            viols.push(Viol {
                class: "line_roundtrip_differs",
                what: format!("{tag}events.jsonl line {i} ({}): parse + serialise changes the line at {path}: on disk {} / after round trip {}", frame_type(&c), short(&x), short(&y)),
                detail: json!({"line_index": i, "type": frame_type(&c), "path": path, "on_disk": short(&x), "round_trip": short(&y),
                    "line": short(&Value::String(line.clone())), "reserialised": short(&Value::String(again))}),
            });
        }
        // the stream written on the wire is the stream the frame is assigned to when read back
        stats.checks += 1;
        let raw: Value = serde_json::from_str(line).unwrap_or(Value::Null);
        let wire_kind = raw.get("stream_kind").and_then(|v| v.as_str()).unwrap_or("<absent>");
        let wire_id = raw.get("stream_id").and_then(|v| v.as_str()).unwrap_or("<absent>");
        if wire_kind != kind_str(ev.stream_kind()) || wire_id != ev.stream_id() {
            viols.push(Viol {
                class: "stream_changed",
                what: format!("{tag}events.jsonl line {i} ({}): written as {wire_kind}/{wire_id}, read back as {}/{}", frame_type(&c), kind_str(ev.stream_kind()), ev.stream_id()),
                detail: json!({"line_index": i, "wire": [wire_kind, wire_id], "read_back": [kind_str(ev.stream_kind()), ev.stream_id()]}),
            });
        }
        stats.bump(&format!("frame.{}", frame_type(&c)));
        if line.len() <= MAX_EMIT_LINE {
            stats.lines.push((frame_type(&c), line.clone()));
        } else {
            stats.bump("line.skipped_over_4000_bytes");
        }
        log.by_stream.entry((kind_str(ev.stream_kind()).to_string(), ev.stream_id().to_string())).or_default().push(i);
        log.by_id.entry(ev.id.clone()).or_default().push(c.to_string());
        log.events.push(ev.clone());
        log.canon.push(c);
    }
    match fresh.replay() {
        Ok(evs) => {
            let v: Vec<Value> = evs.iter().map(canon).collect();
            compare_lists("<whole log>", "log_lines", &log.canon, "log_replay", &v, stats, viols);
        }
        Err(e) => viols.push(Viol { class: "views_differ", what: format!("EventLog::replay failed: {e}"), detail: json!({"error": e.to_string()}) }),
    }
    stats.checks += 1;
    if let Err(e) = fresh.replay_validated() {
        viols.push(Viol { class: "views_differ", what: format!("EventLog::replay_validated rejects the log the system wrote: {e}"), detail: json!({"error": e.to_string()}) });
    }
    views.insert(format!("{tag}log"), json!(log.events.len()));
    let stream_of = |kind: &str, id: &str| -> (Vec<Event>, Vec<Value>) {
        let idx = log.by_stream.get(&(kind.to_string(), id.to_string())).cloned().unwrap_or_default();
        (idx.iter().map(|i| log.events[*i].clone()).collect(), idx.iter().map(|i| log.canon[*i].clone()).collect())
    };

    // ---- continuity streams: broadcast (1) / log (2) / sidecar (3)
    stats.checks += 1;
    if live.cont_lagged > 0 {
        viols.push(Viol { class: "views_differ", what: format!("continuity broadcast receiver lagged by {} frames", live.cont_lagged), detail: json!({}) });
    }
    check_all_kind(StreamKind::Continuity, "broadcast.continuity", &live.cont, stats, viols);
    let mut bcast: BTreeMap<String, Vec<Event>> = BTreeMap::new();
    for ev in &live.cont {
        bcast.entry(ev.stream_id().to_string()).or_default().push(ev.clone());
    }
    let side_dir = data_dir.join("continuity_streams");
    let side_files = list_files(&side_dir);
    let mut cont_ids: BTreeSet<String> = bcast.keys().cloned().collect();
    for (k, id) in log.by_stream.keys() {
        if k == "continuity" {
            cont_ids.insert(id.clone());
        }
    }
    for f in &side_files {
        if let Some(stem) = f.strip_suffix(".jsonl") {
            if !stem.contains('.') {
                cont_ids.insert(stem.to_string());
            }
        }
    }
    let (mut n_b, mut n_s, mut n_l) = (0usize, 0usize, 0usize);
    for cid in &cont_ids {
        let label = format!("{tag}continuity/{cid}");
        let (log_evs, log_canon) = stream_of("continuity", cid);
        n_l += log_evs.len();
        // (1) broadcast
        let b = bcast.get(cid).cloned().unwrap_or_default();
        n_b += b.len();
        let bc: Vec<Value> = b.iter().map(canon).collect();
        if store.is_some() {
            compare_lists(&label, "log", &log_canon, "broadcast", &bc, stats, viols);
            check_inclusion(&label, "broadcast", &b, &log, stats, viols);
        }
        // (3) sidecar.  A thread whose sidecar the history removed: the sidecar view is what the store serves
        // from it — its read path looks at the file first and rebuilds it from the log when it refuses it
        if lost.full.contains(cid) {
            stats.bump("note.sidecar_lost_in_history_read_through_the_store_first");
            if let Some(st) = store {
                let _ = st.replay_events(cid);
            }
        }
        let side_path = side_dir.join(format!("{cid}.jsonl"));
        if side_path.exists() {
            match read_jsonl(&side_path) {
                Ok(ls) => {
                    let evs: Vec<Event> = ls.iter().map(|x| x.1.clone()).collect();
                    n_s += evs.len();
                    let c: Vec<Value> = evs.iter().map(canon).collect();
                    compare_lists(&label, "log", &log_canon, "sidecar", &c, stats, viols);
                    check_inclusion(&label, "sidecar", &evs, &log, stats, viols);
                    check_stream_of(StreamKind::Continuity, cid, "sidecar", &evs, stats, viols);
                    // the sidecar bytes are the log's bytes for that stream
                    stats.checks += 1;
                    let idx = log.by_stream.get(&("continuity".to_string(), cid.clone())).cloned().unwrap_or_default();
                    for (k, (line, _)) in ls.iter().enumerate() {
                        if let Some(li) = idx.get(k) {
                            if &lines[*li].0 != line {
                                viols.push(Viol {
                                    class: "views_differ",
                                    what: format!("stream {label} frame #{k}: sidecar line bytes differ from the log line bytes"),
                                    detail: json!({"stream": label, "index": k, "log_line": short(&Value::String(lines[*li].0.clone())), "sidecar_line": short(&Value::String(line.clone()))}),
                                });
                                break;
                            }
                        }
                    }
                }
                Err(e) => viols.push(Viol { class: "views_differ", what: format!("stream {label}: sidecar unreadable: {e}"), detail: json!({"error": e}) }),
            }
        } else {
            stats.checks += 1;
            if !log_evs.is_empty() {
                viols.push(Viol { class: "views_differ", what: format!("stream {label}: {} frames in the log but no sidecar file {}", log_evs.len(), side_path.display()), detail: json!({"stream": label}) });
            }
        }
        // subset sidecars (cache-only files derived from the stream)
        for (suffix, name, pred) in [
            (".mr.v1.jsonl", "sidecar_mr", (|e: &Event| matches!(e.kind, EventKind::ContinuityMessageAppended { .. } | EventKind::ContinuityRunEnded { .. })) as fn(&Event) -> bool),
            (".comp.v1.jsonl", "sidecar_comp", (|e: &Event| matches!(e.kind, EventKind::ContinuityCompactionCheckpointCreated { .. })) as fn(&Event) -> bool),
        ] {
            if lost.derived.contains(cid) {
                stats.bump(&format!("note.{name}_lost_in_history_not_a_view"));
                continue;
            }
            let p = side_dir.join(format!("{cid}{suffix}"));
            let expect: Vec<Value> = log_evs.iter().filter(|e| pred(e)).map(canon).collect();
            if p.exists() {
                match read_jsonl(&p) {
                    Ok(ls) => {
                        let evs: Vec<Event> = ls.iter().map(|x| x.1.clone()).collect();
                        let c: Vec<Value> = evs.iter().map(canon).collect();
                        compare_lists(&label, "log(filtered)", &expect, name, &c, stats, viols);
                        check_inclusion(&label, name, &evs, &log, stats, viols);
                        check_stream_of(StreamKind::Continuity, cid, name, &evs, stats, viols);
                    }
                    Err(e) => viols.push(Viol { class: "views_differ", what: format!("stream {label}: {name} unreadable: {e}"), detail: json!({"error": e}) }),
                }
            } else if !expect.is_empty() {
                stats.bump(&format!("note.{name}_absent"));
            }
        }
        // the store's own read path (sidecar, validated, else the log) — after the raw sidecar was read,
        // because a failed validation makes it rebuild the file
        if let Some(st) = store {
            match st.replay_events(cid) {
                Ok(evs) => {
                    let c: Vec<Value> = evs.iter().map(canon).collect();
                    compare_lists(&label, "log", &log_canon, "store_replay", &c, stats, viols);
                    check_stream_of(StreamKind::Continuity, cid, "store_replay", &evs, stats, viols);
                }
                Err(e) => viols.push(Viol { class: "views_differ", what: format!("stream {label}: ContinuityStore::replay_events failed: {e}"), detail: json!({"error": e.to_string()}) }),
            }
        }
    }
    if store.is_some() {
        views.insert(format!("{tag}continuity"), json!({"streams": cont_ids.len(), "broadcast": n_b, "log": n_l, "sidecar": n_s}));
    }

    // ---- session streams: broadcast (1) / log (2) / snapshot (4)
    let snap_dir = data_dir.join("snapshots");
    let mut sess_ids: BTreeSet<String> = live.sessions.iter().map(|s| s.0.clone()).collect();
    for (k, id) in log.by_stream.keys() {
        if k == "session" {
            sess_ids.insert(id.clone());
        }
    }
    for f in list_files(&snap_dir) {
        if let Some(stem) = f.strip_suffix(".json") {
            sess_ids.insert(stem.to_string());
        }
    }
    let (mut n_b, mut n_s, mut n_l) = (0usize, 0usize, 0usize);
    for sid in &sess_ids {
        if live.unfinished.contains(sid) {
            continue;
        }
        let label = format!("{tag}session/{sid}");
        let (log_evs, log_canon) = stream_of("session", sid);
        n_l += log_evs.len();
        let b: Vec<Event> = live.sessions.iter().filter(|s| &s.0 == sid).flat_map(|s| s.1.clone()).collect();
        n_b += b.len();
        let bc: Vec<Value> = b.iter().map(canon).collect();
        compare_lists(&label, "log", &log_canon, "broadcast", &bc, stats, viols);
        check_inclusion(&label, "broadcast", &b, &log, stats, viols);
        check_stream_of(StreamKind::Session, sid, "broadcast", &b, stats, viols);
        let snap = snap_dir.join(format!("{sid}.json"));
        n_s += check_snapshot(&label, StreamKind::Session, sid, &snap, &log_evs, &log_canon, &log, &fresh, stats, viols);
    }
    if !sess_ids.is_empty() {
        views.insert(format!("{tag}session"), json!({"streams": sess_ids.len(), "broadcast": n_b, "log": n_l, "snapshot": n_s}));
    }

    // ---- task streams: SSE (1) / log (2) / snapshot (4)
    let tsnap_dir = data_dir.join("task_snapshots");
    let mut task_ids: BTreeSet<String> = live.tasks.iter().map(|s| s.0.clone()).collect();
    for (k, id) in log.by_stream.keys() {
        if k == "task" {
            task_ids.insert(id.clone());
        }
    }
    for f in list_files(&tsnap_dir) {
        if let Some(stem) = f.strip_suffix(".json") {
            task_ids.insert(stem.to_string());
        }
    }
    let (mut n_b, mut n_s, mut n_l) = (0usize, 0usize, 0usize);
    for tid in &task_ids {
        if live.unfinished.contains(tid) {
            continue;
        }
        let label = format!("{tag}task/{tid}");
        let (log_evs, log_canon) = stream_of("task", tid);
        n_l += log_evs.len();
        let b: Vec<Event> = live.tasks.iter().filter(|s| &s.0 == tid).flat_map(|s| s.1.clone()).collect();
        n_b += b.len();
        let bc: Vec<Value> = b.iter().map(canon).collect();
        compare_lists(&label, "log", &log_canon, "sse", &bc, stats, viols);
        check_inclusion(&label, "sse", &b, &log, stats, viols);
        check_stream_of(StreamKind::Task, tid, "sse", &b, stats, viols);
        let snap = tsnap_dir.join(format!("{tid}.json"));
        n_s += check_snapshot(&label, StreamKind::Task, tid, &snap, &log_evs, &log_canon, &log, &fresh, stats, viols);
    }
    if !task_ids.is_empty() {
        views.insert(format!("{tag}task"), json!({"streams": task_ids.len(), "sse": n_b, "log": n_l, "snapshot": n_s}));
    }
}

fn check_all_kind(kind: StreamKind, view_name: &str, view: &[Event], stats: &mut Stats, viols: &mut Vec<Viol>) {
    stats.checks += 1;
    for ev in view {
        if ev.stream_kind() != kind {
            viols.push(Viol {
                class: "stream_changed",
                what: format!("`{view_name}` delivered a frame of stream kind {} (id={} type={})", kind_str(ev.stream_kind()), ev.id, frame_type(&canon(ev))),
                detail: json!({"view": view_name, "frame": short(&canon(ev))}),
            });
            return;
        }
    }
}

#[allow(clippy::too_many_arguments)]
fn check_snapshot(label: &str, kind: StreamKind, id: &str, snap: &Path, log_evs: &[Event], log_canon: &[Value], log: &LogView, fresh: &EventLog, stats: &mut Stats, viols: &mut Vec<Viol>) -> usize {
    if !snap.exists() {
        stats.checks += 1;
        if !log_evs.is_empty() {
            viols.push(Viol { class: "views_differ", what: format!("stream {label}: {} frames in the log, run finished, but no snapshot {}", log_evs.len(), snap.display()), detail: json!({"stream": label}) });
        }
        return 0;
    }
    let mut n = 0;
    match rip_log::read_snapshot(snap) {
        Ok(evs) => {
            n = evs.len();
            let c: Vec<Value> = evs.iter().map(canon).collect();
            compare_lists(label, "log", log_canon, "snapshot", &c, stats, viols);
            check_inclusion(label, "snapshot", &evs, log, stats, viols);
            check_stream_of(kind, id, "snapshot", &evs, stats, viols);
        }
        Err(e) => viols.push(Viol { class: "views_differ", what: format!("stream {label}: read_snapshot failed: {e}"), detail: json!({"error": e.to_string()}) }),
    }
    stats.checks += 1;
    if let Err(e) = rip_log::verify_snapshot(fresh, snap) {
        viols.push(Viol { class: "snapshot_verify_failed", what: format!("stream {label}: verify_snapshot({}) failed: {e}", snap.display()), detail: json!({"stream": label, "error": e.to_string()}) });
    }
    n
}

// ------------------------------------------------------------------------------------------------
// driver
// ------------------------------------------------------------------------------------------------

fn run_history_once(rt: &tokio::runtime::Runtime, kind: HKind, ops: &[Op]) -> Result<RunReport, Viol> {
    let scratch = Scratch::new("c03");
    let res = catch_unwind(AssertUnwindSafe(|| rt.block_on(run_ops(kind, ops, scratch.path()))));
    match res {
        Ok(Ok(rep)) => Ok(rep),
        Ok(Err(e)) => Err(Viol { class: "harness_setup", what: format!("could not set the history up: {e}"), detail: json!({"error": e}) }),
        Err(p) => {
            let msg = p.downcast_ref::<String>().cloned().or_else(|| p.downcast_ref::<&str>().map(|s| s.to_string())).unwrap_or_else(|| "<non-string panic>".to_string());
            Err(Viol { class: "panic", what: format!("panic while running the history: {msg}"), detail: json!({"panic": msg}) })
        }
    }
}

pub fn run_histories(seed: u64, n_histories: usize, max_lines: usize) -> HistOutcome {
    let mut out = HistOutcome {
        histories: 0,
        frames_compared: 0,
        oracle_checks: 0,
        violations: vec![],
        distribution: BTreeMap::new(),
        samples: vec![],
        emitted_lines: vec![],
        notes: vec![],
    };
    let rt = match tokio::runtime::Builder::new_multi_thread().worker_threads(4).enable_all().build() {
        Ok(rt) => rt,
        Err(e) => {
            out.notes.push(format!("tokio runtime could not be built: {e}"));
            return out;
        }
    };
    let started = Instant::now();
    let mut lines_by_type: BTreeMap<String, Vec<String>> = BTreeMap::new();
    let mut shrunk = 0usize;
    let mut view_frames: BTreeMap<String, u64> = BTreeMap::new();

    pause::install();
    let all: Vec<History> = builtin_histories().into_iter().chain((0..n_histories).map(|i| gen_history(seed, i))).collect();
    for h in all {
        let index = h.index;
        out.histories += 1;
        let bump = |d: &mut BTreeMap<String, u64>, k: String, n: u64| *d.entry(k).or_insert(0) += n;
        bump(&mut out.distribution, format!("hist.kind.{}", if h.kind == HKind::Cont { "continuity_store" } else { "session_engine" }), 1);
        let bucket = match h.ops.len() {
            0..=4 => "00-04",
            5..=9 => "05-09",
            10..=19 => "10-19",
            20..=29 => "20-29",
            _ => "30-40",
        };
        bump(&mut out.distribution, format!("hist.ops.{bucket}"), 1);

        let (viols, views) = match run_history_once(&rt, h.kind, &h.ops) {
            Ok(rep) => {
                out.frames_compared += rep.stats.frames_compared;
                out.oracle_checks += rep.stats.checks;
                for (k, v) in &rep.stats.dist {
                    bump(&mut out.distribution, k.clone(), *v);
                }
                for (k, v) in &rep.stats.view_frames {
                    *view_frames.entry(k.clone()).or_insert(0) += v;
                }
                for (ty, line) in rep.stats.lines {
                    let v = lines_by_type.entry(ty).or_default();
                    if v.len() < max_lines.max(1) {
                        v.push(line);
                    }
                }
                (rep.viols, rep.views)
            }
            Err(v) => {
                out.oracle_checks += 1;
                (vec![v], Value::Null)
            }
        };

        if out.samples.len() < 2 && viols.is_empty() && h.ops.len() <= 12 && (out.samples.is_empty() || h.kind == HKind::Sess) {
            let mut s = history_json(&h);
            s["frames_per_view"] = views.clone();
            out.samples.push(s);
        }

        if viols.is_empty() {
            continue;
        }
        // one violation per class per history
        let mut seen: BTreeSet<&'static str> = BTreeSet::new();
        for v in &viols {
            if !seen.insert(v.class) {
                continue;
            }
            if v.class == "harness_setup" || v.class == "session_timeout" {
                out.notes.push(format!("history {index}: {}", v.what));
                continue;
            }
            let mut replay = history_json(&h);
            replay["violations_in_history"] = json!(viols.len());
            replay["detail"] = v.detail.clone();
            // shrink (delta debugging on the op list) while the same class still shows; bounded
            if shrunk < SHRINK_HISTORIES && v.class != "session_timeout" && h.ops.len() > 1 {
                shrunk += 1;
                let mut budget = SHRINK_RERUNS;
                let class = v.class;
                let kind = h.kind;
                let small = rv::shrink_vec(h.ops.clone(), |cand: &[Op]| {
                    if budget == 0 || cand.is_empty() {
                        return false;
                    }
                    budget -= 1;
                    match run_history_once(&rt, kind, cand) {
                        Ok(rep) => rep.viols.iter().any(|x| x.class == class),
                        Err(x) => x.class == class,
                    }
                });
                if small.len() < h.ops.len() {
                    replay["shrunk_ops"] = json!(small.iter().map(op_json).collect::<Vec<_>>());
                    if let Ok(rep) = run_history_once(&rt, kind, &small) {
                        if let Some(x) = rep.viols.iter().find(|x| x.class == class) {
                            replay["shrunk_what"] = json!(x.what);
                            replay["shrunk_detail"] = x.detail.clone();
                        }
                    }
                }
            }
            out.violations.push(OracleViolation { case_id: -(1 + index as i64), what: format!("history {index}: {}", v.what), class: v.class.to_string(), replay });
        }
    }

    pause::uninstall();
    out.distribution.insert("mid.emitter_held_for_a_look".to_string(), pause::PAUSES.load(std::sync::atomic::Ordering::Relaxed));
    out.distribution.insert("mid.emitter_hold_expired".to_string(), pause::TIMEOUTS.load(std::sync::atomic::Ordering::Relaxed));
    for (k, v) in view_frames {
        out.distribution.insert(format!("view_frames.{k}"), v);
    }
    // emitted lines: round robin over the frame types so that every type seen is represented
    let mut cursors: BTreeMap<String, usize> = BTreeMap::new();
    let mut seen_lines: BTreeSet<String> = BTreeSet::new();
    'outer: loop {
        let mut progressed = false;
        for (ty, v) in &lines_by_type {
            if out.emitted_lines.len() >= max_lines {
                break 'outer;
            }
            let c = cursors.entry(ty.clone()).or_insert(0);
            while *c < v.len() {
                let line = &v[*c];
                *c += 1;
                if seen_lines.insert(line.clone()) {
                    out.emitted_lines.push(line.clone());
                    progressed = true;
                    break;
                }
            }
        }
        if !progressed {
            break;
        }
    }
    out.notes.push(format!(
        "hist: {} histories, {} frame comparisons, {} oracle checks, {} frame types seen, {} lines emitted, {:.1}s",
        out.histories,
        out.frames_compared,
        out.oracle_checks,
        lines_by_type.len(),
        out.emitted_lines.len(),
        started.elapsed().as_secs_f64()
    ));
    out
}
