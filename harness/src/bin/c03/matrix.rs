//! C03 (replay fidelity) — session streams under EVERY configuration switch `session.rs` branches on.
//!
//! The property quantifies over every frame a live subscriber receives; WHICH frames a provider-backed run emits, and in
//! which order they are numbered, depends on switches (request capture on / off and its max-bytes, stateless / stateful,
//! tool_choice, follow-up message, parallel tool calls) and on provider outcomes.  Each configuration of the matrix
//! (`session_matrix::runs`: sub06c's `agent::confs` + capture side-write failure + explicit max-bytes values) is one run of
//! the real `SessionEngine` against the local scripted provider on a store of its own, with a subscriber attached before
//! the run.  Oracle (model-free), per run:
//!   live frames = snapshot read back = the session's lines in events.jsonl (file order, compared as written text)
//!   = `EventLog::replay_session`;  `EventLog::replay_validated` of the whole store passes;  `verify_snapshot` passes;
//!   a run started from a thread: the thread's live frames = `replay_events` = the thread's lines in events.jsonl.
//! Correspondence: the head of every provider request (the frames between "request built" and "request sent":
//! `openresponses_request`?, `openresponses_request_started`) against `Model/WireRun.v`'s run of the statement list that
//! tools/gen/request_head.py re-reads from `stream_openresponses_request` (`check_head`).
#![allow(dead_code)]

use std::panic::{catch_unwind, AssertUnwindSafe};
use std::time::Instant;

use rip_kernel::{Event, EventKind};
use rv::{coq_bool, coq_n, OracleViolation};
use serde_json::{json, Value};

use super::session_matrix::{self as sm, line_of, seq_types, Conf, Extra, MatrixRun};
use super::sized::SizedOutcome;

fn lines(v: &[Event]) -> Vec<String> {
    v.iter().map(line_of).collect()
}

fn first_diff(a: &[String], b: &[String]) -> usize {
    (0..a.len().max(b.len())).find(|i| a.get(*i) != b.get(*i)).unwrap_or(0)
}

/// (class, what) of everything the run violates; empty = the property holds for this run
pub fn judge(r: &MatrixRun) -> Vec<(String, String)> {
    let mut bad = vec![];
    let label = format!("{}{}", r.conf.label(), r.extra.label());
    let live = lines(&r.live);
    let log: Vec<String> = match &r.log {
        Ok(v) => v.iter().map(|(l, _)| l.clone()).collect(),
        Err(e) => {
            bad.push(("config_log_unreadable".to_string(), format!("configuration {label}: events.jsonl cannot be read back: {e}")));
            return bad;
        }
    };
    let log_events: Vec<Event> = r.log.as_ref().map(|v| v.iter().map(|(_, e)| e.clone()).collect()).unwrap_or_default();
    if live != log {
        let at = first_diff(&live, &log);
        bad.push((
            "config_views_differ".into(),
            format!(
                "configuration {label}: the live subscriber of session {} received {:?}, a fresh reader of events.jsonl finds {:?} (first difference at position {at})",
                r.session_id,
                seq_types(&r.live),
                seq_types(&log_events)
            ),
        ));
    }
    match &r.snapshot {
        Err(e) => bad.push(("config_views_differ".into(), format!("configuration {label}: the snapshot of session {} cannot be read back ({e}); live {:?}", r.session_id, seq_types(&r.live)))),
        Ok(s) => {
            let sl = lines(s);
            if sl != log {
                let at = first_diff(&sl, &log);
                bad.push(("config_views_differ".into(), format!("configuration {label}: the snapshot of session {} holds {:?}, the log {:?} (first difference at position {at})", r.session_id, seq_types(s), seq_types(&log_events))));
            }
        }
    }
    // replaying the store from disk: the store's own validated replay (what replay_stream / verify_snapshot / every sidecar
    // rebuild goes through) must accept the store this run left behind, and reproduce the live frames
    if let Err(e) = &r.replay_validated {
        bad.push((
            "config_store_not_replayable".into(),
            format!(
                "configuration {label}: after ONE run the store no longer replays from disk (EventLog::replay_validated: {e}); the live subscriber of session {} received {:?}; the session's frames in events.jsonl in file order: {:?}",
                r.session_id,
                seq_types(&r.live),
                seq_types(&log_events)
            ),
        ));
    }
    match &r.replay_session {
        Err(e) => {
            if r.replay_validated.is_ok() {
                bad.push(("config_store_not_replayable".into(), format!("configuration {label}: replay_session({}) fails: {e}", r.session_id)));
            }
        }
        Ok(v) => {
            if lines(v) != live {
                bad.push(("config_replay_differs".into(), format!("configuration {label}: replay_session returns {:?}, the live subscriber received {:?}", seq_types(v), seq_types(&r.live))));
            }
        }
    }
    if let Err(e) = &r.verify_snapshot {
        if r.replay_validated.is_ok() {
            bad.push(("config_snapshot_verify_failed".into(), format!("configuration {label}: verify_snapshot of session {} fails: {e}", r.session_id)));
        }
    }
    if let Some(t) = &r.thread {
        let tl = lines(&t.live);
        let tlog: Vec<String> = t.log.iter().map(|(l, _)| l.clone()).collect();
        if tl != tlog {
            bad.push(("config_thread_views_differ".into(), format!("configuration {label}: thread {}: live {:?}, log {:?}", t.thread_id, seq_types(&t.live), seq_types(&t.log.iter().map(|(_, e)| e.clone()).collect::<Vec<_>>()))));
        }
        match &t.replay_events {
            Err(e) => {
                if r.replay_validated.is_ok() {
                    bad.push(("config_thread_views_differ".into(), format!("configuration {label}: replay_events of thread {} fails: {e}", t.thread_id)));
                }
            }
            Ok(v) => {
                if lines(v) != tlog {
                    bad.push(("config_thread_views_differ".into(), format!("configuration {label}: thread {}: replay_events {:?}, log {:?}", t.thread_id, seq_types(v), tlog.len())));
                }
            }
        }
    }
    bad
}

/// the heads of the provider requests of a stream: per request (position of its first frame in the stream, [(slot, seq)])
/// with slot 0 = the capture frame (`openresponses_request`), slot 1 = `openresponses_request_started`; a head = a
/// maximal run of such frames.  The position IS the run's counter there (one frame per number, from 0).
pub fn heads(v: &[Event]) -> Vec<(u64, Vec<(u64, u64)>)> {
    let mut out: Vec<(u64, Vec<(u64, u64)>)> = vec![];
    let mut cur: Option<(u64, Vec<(u64, u64)>)> = None;
    for (i, e) in v.iter().enumerate() {
        let slot = match e.kind {
            EventKind::OpenResponsesRequest { .. } => Some(0),
            EventKind::OpenResponsesRequestStarted { .. } => Some(1),
            _ => None,
        };
        match slot {
            Some(s) => cur.get_or_insert((i as u64, vec![])).1.push((s, e.seq)),
            None => {
                if let Some(c) = cur.take() {
                    out.push(c);
                }
            }
        }
    }
    if let Some(c) = cur.take() {
        out.push(c);
    }
    out
}

/// Coq term of type WireRun.head_case: capture switch, counter at the head, the (slot, seq) pairs observed
fn coq_head(capture: bool, base: u64, frames: &[(u64, u64)]) -> String {
    format!(
        "{{| hc_capture := {}; hc_base := {}; hc_frames := [{}] |}}",
        coq_bool(capture),
        coq_n(base),
        frames.iter().map(|(s, q)| format!("({}, {})", coq_n(*s), coq_n(*q))).collect::<Vec<_>>().join("; ")
    )
}

pub fn config_matrix(seed: u64, thorough: bool) -> SizedOutcome {
    let mut out = SizedOutcome::default();
    let t0 = Instant::now();
    let rt = match tokio::runtime::Builder::new_multi_thread().worker_threads(4).enable_all().build() {
        Ok(rt) => rt,
        Err(e) => {
            out.notes.push(format!("configuration matrix: no runtime: {e}"));
            return out;
        }
    };
    let mut runs = sm::runs(thorough);
    // rotate with the seed: the set is the same, what shares a process state with what is not
    let k = (seed as usize) % runs.len().max(1);
    runs.rotate_left(k);
    let mut reported = 0usize;
    let mut capture_runs = 0u64;
    for (i, (conf, extra)) in runs.iter().enumerate() {
        out.evaluations += 1;
        let replay = json!({"kind": "config_matrix", "conf_bits": conf.bits(), "conf": format!("{conf:?}"), "label": format!("{}{}", conf.label(), extra.label()), "extra": extra.json(),
            "how": "one SessionEngine on a fresh store; environment set from the configuration (RIP_OPENRESPONSES_DUMP_REQUEST / _MAX_BYTES), OpenResponsesConfig from the configuration, the local scripted provider serves session_matrix::agent::script(conf); a subscriber is attached before spawn_session; afterwards compare live frames, snapshots/<id>.json, the session's lines in events.jsonl, replay_session, replay_validated, verify_snapshot"});
        let res = catch_unwind(AssertUnwindSafe(|| rt.block_on(sm::run_conf(*conf, extra, "c03m"))));
        sm::apply_env(None);
        let case_id = -(8_000_001 + i as i64);
        match res {
            Err(p) => {
                let msg = p.downcast_ref::<String>().cloned().or_else(|| p.downcast_ref::<&str>().map(|s| s.to_string())).unwrap_or_default();
                out.violations.push(OracleViolation { case_id, what: format!("configuration {}: panic: {msg}", conf.label()), class: "panic".into(), replay });
            }
            Ok(Err(e)) => out.notes.push(format!("configuration {}{}: not run: {e}", conf.label(), extra.label())),
            Ok(Ok(r)) => {
                if !r.finished || r.lagged > 0 {
                    out.notes.push(format!("configuration {}{}: run not finished in time / subscriber lagged ({} frames, lagged {}): not judged", conf.label(), extra.label(), r.live.len(), r.lagged));
                    continue;
                }
                out.oracle_checks += 5 + r.thread.is_some() as u64 * 2;
                out.frames_compared += 3 * r.live.len() as u64;
                *out.distribution.entry("config.frames".into()).or_insert(0) += r.live.len() as u64;
                *out.distribution.entry(format!("config.capture{}", r.conf.capture)).or_insert(0) += 1;
                *out.distribution.entry(format!("config.outcome{}", r.conf.outcome)).or_insert(0) += 1;
                let (cap, started) = sm::capture_frames(&r.live);
                if cap > 0 {
                    capture_runs += 1;
                }
                let capture_on = r.conf.capture > 0 || r.extra.blocked_artifacts;
                if capture_on && !r.extra.blocked_artifacts && cap != started {
                    out.notes.push(format!("configuration {}{}: capture on, {cap} capture frames for {started} requests", conf.label(), extra.label()));
                }
                if r.extra.blocked_artifacts && (cap > 0 || started > 0) {
                    out.notes.push(format!("configuration {}{}: the artifact directory is a file, yet {cap} capture / {started} request frames were emitted", conf.label(), extra.label()));
                }
                let bad = judge(&r);
                for (class, what) in &bad {
                    if reported < 12 {
                        let mut rp = replay.clone();
                        rp["live"] = json!(seq_types(&r.live));
                        out.violations.push(OracleViolation { case_id, what: what.clone(), class: class.clone(), replay: rp });
                        reported += 1;
                    }
                    *out.distribution.entry(format!("config.violation.{class}")).or_insert(0) += 1;
                }
                // the request heads go to the model (from the LOG: what the store will replay)
                if let Ok(log) = &r.log {
                    let evs: Vec<Event> = log.iter().map(|(_, e)| e.clone()).collect();
                    for (base, h) in heads(&evs) {
                        out.cases.push((coq_head(capture_on && !r.extra.blocked_artifacts, base, &h), json!({"kind": "config_matrix_head", "conf_bits": conf.bits(), "label": conf.label(), "extra": extra.json(), "base": base, "head": h})));
                    }
                }
            }
        }
    }
    if capture_runs == 0 {
        out.notes.push("configuration matrix: NO run produced a capture frame (openresponses_request): the switch is not live in this harness".into());
    }
    *out.distribution.entry("config.runs".into()).or_insert(0) += out.evaluations;
    *out.distribution.entry("config.runs_with_capture_frames".into()).or_insert(0) += capture_runs;
    out.notes.push(format!("configuration matrix: {} runs ({} with capture frames), {} request heads to the model, {:.1}s", out.evaluations, capture_runs, out.cases.len(), t0.elapsed().as_secs_f64()));
    out
}

pub fn switch_notes(repo: &std::path::Path) -> Vec<String> {
    sm::agent::switches_in_source(repo).into_iter().map(|(n, how)| match how {
        Some(h) => format!("switch {n}: {h}"),
        None => format!("switch {n}: NOT in the harness's table (no case drives it)"),
    }).collect()
}

pub fn _unused(_: &Conf, _: &Extra, _: &Value) {}
