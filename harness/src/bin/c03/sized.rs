//! C03 (replay fidelity) — frames of EVERY size.
//!
//! The property quantifies over all frames the system can emit; nothing in it bounds a payload.  This module
//! drives the REAL emit paths of ripd with payloads from one byte to several MiB (after JSON escaping) and
//! of every character class that changes the written length or could make a writer or reader balk (plain
//! ASCII, quotes, backslashes, newlines, NUL and other control characters (six bytes each when escaped),
//! DEL, 2-, 3- and 4-byte UTF-8, U+2028, U+FFFD, the noncharacters U+FFFF / U+10FFFF):
//!
//! * prompt              -> `session_started.input` and `output_text_delta.delta` (no provider: `ack: <prompt>`)
//! * tool arguments      -> `tool_started.args` (`write` with a large `content`; also nested 124 levels AND large)
//! * tool output         -> one `tool_stdout.chunk` (`read` of a large file with `max_bytes` raised)
//! * provider event      -> `provider_event.raw` + `.data` + `output_text_delta` (scripted OpenResponses server)
//! * task arguments      -> `tool_task_spawned.args` (POST /tasks on the real router)
//! * continuity message  -> `continuity_message_appended.content` (`ContinuityStore::append_message`)
//!
//! all on ONE store (one `SessionEngine`; the tasks on a second one behind the HTTP router), a live
//! subscriber attached before every run.  Oracle (model-free), per stream: the frames the live subscriber
//! received = the stream's snapshot read back from disk = the stream's frames a fresh reader finds in
//! events.jsonl (for the continuity also = the sidecar file and `replay_events`), compared as the text
//! `serde_json::to_string` gives for each frame; nothing in the live stream or the snapshot that is not in
//! the log; at the end the whole log still passes `replay_validated` and the continuity written BEFORE all
//! the sessions still replays from the log.  A size at which a view loses a frame is then bisected.
//!
//! Correspondence with the model (coq/Model/WireSized.v): one case per stream = its frames in emit order,
//! each frame as its JSON tree with long strings RUN-LENGTH FOLDED (`SStr [(unit, repetitions); ..]`, an
//! exact, lossless encoding: the harness checks that unfolding gives back the string), the byte length and
//! the code-point sum of the line the real writer produced, and in which views the frame was found.  The model
//! computes length and sum on the folded form (`ssum`, proved equal to the sums over `print (unfold doc)` for
//! every document: `ssum_unfold`) and predicts the views from the emit order of the site and the gate of
//! `EventLog::append` as regenerated from the source (`gen_append_gate`).
#![allow(dead_code)]

use std::collections::BTreeMap;
use std::io::{Read, Seek, SeekFrom};
use std::panic::{catch_unwind, AssertUnwindSafe};
use std::path::{Path, PathBuf};
use std::sync::Arc;
use std::time::{Duration, Instant};

use rip_kernel::{Event, EventKind, StreamKind};
use rip_log::EventLog;
use ripd::{ContinuityStore, SessionEngine};
use rv::provider::{sse_event, Scripted, ScriptedProvider, SSE_DONE};
use rv::{coq_bool, coq_n, coq_str, OracleViolation, Rng, Scratch};
use serde_json::{json, Value};
use tokio::sync::broadcast::error::{RecvError, TryRecvError};

use super::{parse_json, J};

#[derive(Default)]
pub struct SizedOutcome {
    pub evaluations: u64,
    pub oracle_checks: u64,
    pub frames_compared: u64,
    pub violations: Vec<OracleViolation>,
    pub distribution: BTreeMap<String, u64>,
    pub notes: Vec<String>,
    /// Coq terms of type WireSized.sized_case + a replayable description of each
    pub cases: Vec<(String, Value)>,
}
impl SizedOutcome {
    fn bump(&mut self, k: &str, n: u64) {
        *self.distribution.entry(k.to_string()).or_insert(0) += n;
    }
}

const RUN_TIMEOUT: Duration = Duration::from_secs(600);
const SETTLE: Duration = Duration::from_secs(90);

/// (name, unit): a payload is `unit` repeated
pub const UNITS: &[(&str, &str)] = &[
    ("ascii", "x"),
    ("quote", "\""),
    ("backslash", "\\"),
    ("newline", "\n"),
    ("nul", "\u{0}"),
    ("ctl", "\u{1}"),
    ("del", "\u{7f}"),
    ("latin", "\u{e9}"),
    ("euro", "\u{20ac}"),
    ("linesep", "\u{2028}"),
    ("replacement", "\u{fffd}"),
    ("nonchar", "\u{ffff}"),
    ("emoji", "\u{1F600}"),
    ("last", "\u{10ffff}"),
    ("mixed", "a\"\\\n\u{1}\u{e9}\u{20ac}\u{1F600} "),
    ("tab_cr", "\t\r"),
];

/// bytes of the unit inside a JSON string as serde_json writes it
fn esc_bytes(unit: &str) -> usize {
    serde_json::to_string(unit).map(|s| s.len() - 2).unwrap_or(unit.len())
}

#[derive(Clone, Copy, Debug, PartialEq, Eq, PartialOrd, Ord)]
pub enum Kind {
    Prompt,
    ToolArgs,
    ToolArgsDeep,
    ToolOutput,
    Provider,
    TaskArgs,
    ContMessage,
}
impl Kind {
    fn name(self) -> &'static str {
        match self {
            Kind::Prompt => "prompt",
            Kind::ToolArgs => "tool_args",
            Kind::ToolArgsDeep => "tool_args_deep",
            Kind::ToolOutput => "tool_output",
            Kind::Provider => "provider_event",
            Kind::TaskArgs => "task_args",
            Kind::ContMessage => "continuity_message",
        }
    }
}

#[derive(Clone, Debug)]
pub struct Point {
    pub kind: Kind,
    pub unit: usize,
    /// bytes the payload takes inside ONE JSON string as written (escapes counted)
    pub target: usize,
}
impl Point {
    fn units(&self) -> usize {
        (self.target / esc_bytes(UNITS[self.unit].1)).max(1)
    }
    fn payload(&self) -> String {
        UNITS[self.unit].1.repeat(self.units())
    }
    fn json(&self) -> Value {
        json!({"kind": self.kind.name(), "unit": UNITS[self.unit].0, "unit_text": UNITS[self.unit].1, "repetitions": self.units(), "payload_bytes_as_written": self.units() * esc_bytes(UNITS[self.unit].1)})
    }
}

fn size_bucket(b: usize) -> &'static str {
    match b {
        0..=8191 => "line_bytes.a_under_8KiB",
        8192..=65535 => "line_bytes.b_8KiB_64KiB",
        65536..=524287 => "line_bytes.c_64KiB_512KiB",
        524288..=1048575 => "line_bytes.d_512KiB_1MiB",
        1048576..=2097151 => "line_bytes.e_1MiB_2MiB",
        2097152..=4194303 => "line_bytes.f_2MiB_4MiB",
        _ => "line_bytes.g_4MiB_and_more",
    }
}

/// the points of one run: fixed anchors around every size at which something in the write / read path changes
/// its way (BufWriter capacity 8 KiB, the 64 KiB chunks of the backwards scans, 1 / 2 / 4 MiB) + sizes drawn
/// log-uniformly from the seed
pub fn points(seed: u64, thorough: bool) -> Vec<Point> {
    let mut r = Rng::new(seed ^ 0x517e_d000);
    let nunits = UNITS.len();
    let mixed = UNITS.iter().position(|u| u.0 == "mixed").unwrap_or(0);
    let mut out = vec![];
    let anchors: &[usize] = &[1, 200, 7_900, 8_400, 65_200, 65_900, 300_000, 700_000, 1_048_000, 1_049_200, 1_600_000, 2_097_000, 2_098_000, 3_200_000, 4_194_000, 4_195_500, 5_300_000];
    for (i, t) in anchors.iter().enumerate() {
        let unit = if i % 3 == 0 { mixed } else { r.below(nunits as u64) as usize };
        out.push(Point { kind: Kind::Prompt, unit, target: *t });
    }
    if thorough {
        for u in 0..nunits {
            for t in [1_048_300usize, 1_049_000, 2_600_000] {
                out.push(Point { kind: Kind::Prompt, unit: u, target: t });
            }
        }
    }
    for kind in [Kind::ToolArgs, Kind::ToolOutput, Kind::ContMessage] {
        for t in [600_000usize, 1_300_000, 3_100_000] {
            out.push(Point { kind, unit: r.below(nunits as u64) as usize, target: t });
        }
    }
    out.push(Point { kind: Kind::ContMessage, unit: mixed, target: 5_000_000 });
    out.push(Point { kind: Kind::ToolArgsDeep, unit: r.below(nunits as u64) as usize, target: 1_500_000 });
    for t in [150_000usize, 420_000, 1_200_000] {
        out.push(Point { kind: Kind::Provider, unit: r.below(nunits as u64) as usize, target: t });
    }
    for t in [300_000usize, 1_200_000, 1_700_000] {
        out.push(Point { kind: Kind::TaskArgs, unit: r.below(nunits as u64) as usize, target: t });
    }
    let kinds = [Kind::Prompt, Kind::Prompt, Kind::ToolArgs, Kind::ToolOutput, Kind::Provider, Kind::TaskArgs, Kind::ContMessage];
    for _ in 0..(if thorough { 40 } else { 8 }) {
        // log-uniform between 1 byte and 6 MiB
        let bits = r.range(0, 22);
        let t = ((1u64 << bits) + r.below(1u64 << bits)).min(6 * 1024 * 1024) as usize;
        let kind = *r.pick(&kinds);
        let t = match kind {
            Kind::Provider => t.min(1_600_000),
            Kind::TaskArgs => t.min(1_800_000),
            _ => t,
        };
        out.push(Point { kind, unit: r.below(nunits as u64) as usize, target: t.max(1) });
    }
    out
}

// ------------------------------------------------------------------------------------------------
// run-length folding of long strings
// ------------------------------------------------------------------------------------------------

const FOLD_FROM: usize = 160;
const MIN_RUN: usize = 48;
const MAX_UNIT: usize = 24;

/// exact run-length encoding of a string: the concatenation of `unit` repeated `n` times, in order
pub fn fold_str(s: &str) -> Vec<(String, u64)> {
    let c: Vec<char> = s.chars().collect();
    if c.len() < FOLD_FROM {
        return vec![(s.to_string(), 1)];
    }
    let mut out: Vec<(String, u64)> = vec![];
    let mut lit = String::new();
    let mut i = 0;
    while i < c.len() {
        // the smallest period that gives a run worth folding
        let mut best = (0usize, 0usize);
        for p in 1..=MAX_UNIT.min(c.len() - i) {
            let mut r = 1;
            while i + (r + 1) * p <= c.len() && c[i + r * p..i + (r + 1) * p] == c[i..i + p] {
                r += 1;
            }
            if r >= 2 && r * p >= MIN_RUN {
                best = (p, r);
                break;
            }
        }
        if best.0 * best.1 >= MIN_RUN {
            if !lit.is_empty() {
                out.push((std::mem::take(&mut lit), 1));
            }
            out.push((c[i..i + best.0].iter().collect(), best.1 as u64));
            i += best.0 * best.1;
        } else {
            lit.push(c[i]);
            i += 1;
        }
    }
    if !lit.is_empty() || out.is_empty() {
        out.push((lit, 1));
    }
    out
}
fn unfold_str(r: &[(String, u64)]) -> String {
    let mut s = String::new();
    for (u, n) in r {
        for _ in 0..*n {
            s.push_str(u);
        }
    }
    s
}

/// the Coq term (WireSized.sjson) of a JSON tree, long strings folded; None when folding is not exact
fn coq_sjson(j: &J, out: &mut String) -> bool {
    match j {
        J::Null => out.push_str("SNull"),
        J::Bool(b) => out.push_str(if *b { "(SBool true)" } else { "(SBool false)" }),
        J::Num(t) => {
            out.push_str("(SNum ");
            out.push_str(&coq_str(t));
            out.push(')');
        }
        J::Str(s) => {
            let f = fold_str(s);
            if unfold_str(&f) != *s {
                return false;
            }
            out.push_str("(SStr [");
            for (i, (u, n)) in f.iter().enumerate() {
                if i > 0 {
                    out.push_str("; ");
                }
                out.push('(');
                out.push_str(&coq_str(u));
                out.push_str(", ");
                out.push_str(&coq_n(*n));
                out.push(')');
            }
            out.push_str("])");
        }
        J::Arr(v) => {
            out.push_str("(SArr [");
            for (i, x) in v.iter().enumerate() {
                if i > 0 {
                    out.push_str("; ");
                }
                if !coq_sjson(x, out) {
                    return false;
                }
            }
            out.push_str("])");
        }
        J::Obj(v) => {
            out.push_str("(SObj [");
            for (i, (k, x)) in v.iter().enumerate() {
                if i > 0 {
                    out.push_str("; ");
                }
                out.push('(');
                out.push_str(&coq_str(k));
                out.push_str(", ");
                if !coq_sjson(x, out) {
                    return false;
                }
                out.push(')');
            }
            out.push_str("])");
        }
    }
    true
}

// ------------------------------------------------------------------------------------------------
// views of one stream
// ------------------------------------------------------------------------------------------------

pub fn line_of(e: &Event) -> String {
    serde_json::to_string(e).unwrap_or_default()
}
fn ty_of(e: &Event) -> String {
    serde_json::to_value(&e.kind).ok().and_then(|v| v.get("type").and_then(|t| t.as_str()).map(|s| s.to_string())).unwrap_or_else(|| "?".into())
}

/// complete lines of a file from `offset` on, read with a handle of its own
pub fn lines_from(path: &Path, offset: u64) -> Result<(Vec<String>, u64), String> {
    let mut f = std::fs::File::open(path).map_err(|e| format!("open {}: {e}", path.display()))?;
    f.seek(SeekFrom::Start(offset)).map_err(|e| e.to_string())?;
    let mut buf = Vec::new();
    f.read_to_end(&mut buf).map_err(|e| e.to_string())?;
    let end = buf.iter().rposition(|b| *b == b'\n').map(|p| p + 1).unwrap_or(0);
    let text = String::from_utf8_lossy(&buf[..end]).into_owned();
    Ok((text.lines().filter(|l| !l.trim().is_empty()).map(|l| l.to_string()).collect(), offset + end as u64))
}
fn file_len(path: &Path) -> u64 {
    std::fs::metadata(path).map(|m| m.len()).unwrap_or(0)
}

/// frames of one stream among raw log lines (the line text is kept: it IS what the writer wrote)
pub fn stream_lines(lines: &[String], kind: StreamKind, id: &str) -> Result<Vec<(String, Event)>, String> {
    let mut out = vec![];
    for l in lines {
        if !l.contains(id) {
            continue;
        }
        let ev: Event = serde_json::from_str(l).map_err(|e| format!("a line of events.jsonl ({} bytes) does not parse: {e}", l.len()))?;
        if ev.stream_kind() == kind && ev.stream_id() == id {
            out.push((l.clone(), ev));
        }
    }
    Ok(out)
}

pub struct FrameObs {
    pub line: String,
    pub ty: String,
    pub seq: u64,
    pub in_live: bool,
    pub in_store: bool,
    pub in_log: bool,
}

pub struct StreamObs {
    pub point: Point,
    pub site_cont: bool,
    pub stream: String,
    pub frames: Vec<FrameObs>,
    pub errors: u64,
    /// (class, what, detail)
    pub bad: Vec<(String, String, Value)>,
}

fn frame_label(f: &FrameObs) -> String {
    format!("{}:{}({} B)", f.seq, f.ty, f.line.len())
}

/// joins the three views of one stream; `store_name` = "snapshot" or "sidecar"
fn join_views(point: &Point, site_cont: bool, stream: &str, live: &[Event], store_name: &str, store: Result<Vec<Event>, String>, log: Result<Vec<(String, Event)>, String>) -> StreamObs {
    let mut obs = StreamObs { point: point.clone(), site_cont, stream: stream.to_string(), frames: vec![], errors: 0, bad: vec![] };
    let live_lines: Vec<String> = live.iter().map(line_of).collect();
    let (store_lines, store_err): (Vec<String>, Option<String>) = match store {
        Ok(v) => (v.iter().map(line_of).collect(), None),
        Err(e) => (vec![], Some(e)),
    };
    let (log_lines, log_err): (Vec<String>, Option<String>) = match log {
        Ok(v) => (v.into_iter().map(|(l, _)| l).collect(), None),
        Err(e) => (vec![], Some(e)),
    };
    // union in live order, then whatever only the other views hold
    let mut all: Vec<(String, &Event)> = live_lines.iter().cloned().zip(live.iter()).collect();
    let extra_owned: Vec<(String, Event)> = store_lines
        .iter()
        .chain(log_lines.iter())
        .filter(|l| !live_lines.contains(l))
        .filter_map(|l| serde_json::from_str::<Event>(l).ok().map(|e| (l.clone(), e)))
        .collect();
    let mut seen: Vec<&String> = vec![];
    for (l, e) in &extra_owned {
        if !seen.contains(&l) {
            seen.push(l);
            all.push((l.clone(), e));
        }
    }
    for (l, e) in &all {
        obs.frames.push(FrameObs { ty: ty_of(e), seq: e.seq, in_live: live_lines.contains(l), in_store: store_lines.contains(l), in_log: log_lines.contains(l), line: l.clone() });
    }
    let p = point.json();
    if let Some(e) = log_err {
        obs.bad.push(("sized_log_unreadable".into(), format!("{} of {} written bytes: the stream's part of events.jsonl cannot be read back: {e}", point.kind.name(), point.target), json!({"point": p, "error": e})));
        return obs;
    }
    let not_logged: Vec<&FrameObs> = obs.frames.iter().filter(|f| (f.in_live || f.in_store) && !f.in_log).collect();
    if !not_logged.is_empty() {
        let first = not_logged[0];
        let has = |sel: &dyn Fn(&FrameObs) -> bool| obs.frames.iter().filter(|f| sel(f)).map(frame_label).collect::<Vec<_>>().join(", ");
        obs.bad.push((
            "frame_published_but_not_in_log".into(),
            format!(
                "{} whose payload takes {} bytes as written ({} x {:?}): the live subscriber of stream {} received [{}], the {store_name} holds [{}], a fresh reader of events.jsonl finds [{}] — frame {} (a line of {} bytes) was published{} and never reached the log{}",
                point.kind.name(),
                point.units() * esc_bytes(UNITS[point.unit].1),
                point.units(),
                UNITS[point.unit].1,
                stream,
                has(&|f| f.in_live),
                has(&|f| f.in_store),
                has(&|f| f.in_log),
                frame_label(first),
                first.line.len(),
                if first.in_store { format!(" and written to the {store_name}") } else { String::new() },
                if obs.frames.iter().any(|f| f.in_log && f.seq > first.seq) { ": the log holds the stream with a hole" } else { "" },
            ),
            json!({"point": p, "stream": stream, "frames": obs.frames.iter().map(|f| json!({"seq": f.seq, "type": f.ty, "line_bytes": f.line.len(), "live": f.in_live, store_name: f.in_store, "log": f.in_log})).collect::<Vec<_>>()}),
        ));
        return obs;
    }
    if let Some(e) = store_err {
        obs.bad.push(("sized_views_differ".into(), format!("{} of {} written bytes: the {store_name} of stream {stream} cannot be read back: {e}", point.kind.name(), point.target), json!({"point": p, "error": e})));
        return obs;
    }
    if live_lines != log_lines || store_lines != log_lines {
        let at = (0..live_lines.len().max(log_lines.len()).max(store_lines.len())).find(|i| live_lines.get(*i) != log_lines.get(*i) || store_lines.get(*i) != log_lines.get(*i)).unwrap_or(0);
        obs.bad.push((
            "sized_views_differ".into(),
            format!(
                "{} of {} written bytes: live stream ({} frames), {store_name} ({} frames) and log ({} frames) of stream {stream} differ at position {at}: live {:?} / {store_name} {:?} / log {:?}",
                point.kind.name(),
                point.target,
                live_lines.len(),
                store_lines.len(),
                log_lines.len(),
                live_lines.get(at).map(|l| clip(l)),
                store_lines.get(at).map(|l| clip(l)),
                log_lines.get(at).map(|l| clip(l)),
            ),
            json!({"point": p, "stream": stream, "position": at}),
        ));
    }
    obs
}

fn clip(s: &str) -> String {
    let mut t: String = s.chars().take(160).collect();
    if s.len() > t.len() {
        t.push_str(&format!("…(+{} bytes)", s.len() - t.len()));
    }
    t
}

// ------------------------------------------------------------------------------------------------
// the environment: one store for sessions + continuity, one router for tasks
// ------------------------------------------------------------------------------------------------

struct Env {
    data_dir: PathBuf,
    workspace: PathBuf,
    engine: SessionEngine,
    store: Arc<ContinuityStore>,
    cid: String,
    cont_rx: tokio::sync::broadcast::Receiver<Event>,
    cont_live: Vec<Event>,
    first_message_line: String,
    task_dir: PathBuf,
    task_app: Option<axum::Router>,
    n: usize,
    log_has_a_hole: bool,
}

impl Env {
    fn new(root: &Path) -> Result<Env, String> {
        let data_dir = root.join("data");
        let workspace = root.join("workspace");
        std::fs::create_dir_all(&workspace).map_err(|e| e.to_string())?;
        let engine = SessionEngine::new(data_dir.clone(), workspace.clone(), None)?;
        let store = engine.continuities();
        let mut cont_rx = store.subscribe();
        let cid = store.ensure_default()?;
        store.append_message(&cid, "user".into(), "cli".into(), "written before every sized frame \u{e9}\u{1F600}".into())?;
        let mut cont_live = vec![];
        while let Ok(ev) = cont_rx.try_recv() {
            if ev.stream_id() == cid {
                cont_live.push(ev);
            }
        }
        let first_message_line = cont_live.last().map(line_of).unwrap_or_default();
        Ok(Env { data_dir, workspace, engine, store, cid, cont_rx, cont_live, first_message_line, task_dir: root.join("tasks"), task_app: None, n: 0, log_has_a_hole: false })
    }
    fn log_path(&self) -> PathBuf {
        self.data_dir.join("events.jsonl")
    }
}

/// one session on the engine with a subscriber attached before the run; returns (session id, live frames)
pub async fn run_session(engine: &SessionEngine, input: String, cfg: Option<ripd::verif::OpenResponsesConfig>) -> Result<(String, Vec<Event>), String> {
    let handle = engine.create_session();
    let sid = handle.session_id.clone();
    let mut rx = handle.subscribe();
    let (tx, done) = tokio::sync::oneshot::channel();
    std::thread::spawn(move || {
        let Ok(rt) = tokio::runtime::Builder::new_current_thread().enable_time().build() else { return };
        let res = rt.block_on(async move {
            let mut frames: Vec<Event> = vec![];
            let mut lagged = 0u64;
            let t0 = Instant::now();
            loop {
                let left = RUN_TIMEOUT.checked_sub(t0.elapsed()).unwrap_or(Duration::from_millis(1));
                match tokio::time::timeout(left, rx.recv()).await {
                    Ok(Ok(ev)) => frames.push(ev),
                    Ok(Err(RecvError::Lagged(n))) => lagged += n,
                    // every sender is gone: run_session has returned (the snapshot is written before that)
                    Ok(Err(RecvError::Closed)) => break (frames, lagged, true),
                    Err(_) => break (frames, lagged, false),
                }
            }
        });
        let _ = tx.send(res);
    });
    engine.spawn_session(handle, input, None, cfg);
    let (live, lagged, finished) = done.await.map_err(|e| format!("collector: {e}"))?;
    if !finished {
        return Err(format!("the session did not finish within {RUN_TIMEOUT:?} ({} frames received)", live.len()));
    }
    if lagged > 0 {
        return Err(format!("the subscriber lagged by {lagged} frames"));
    }
    if !live.iter().any(|e| matches!(e.kind, EventKind::SessionEnded { .. })) {
        return Err(format!("no session_ended among the {} live frames", live.len()));
    }
    Ok((sid, live))
}

fn nested(depth: usize) -> Value {
    let mut v = json!(1);
    for _ in 0..depth {
        v = Value::Array(vec![v]);
    }
    v
}

async fn session_point(env: &mut Env, p: &Point) -> Result<StreamObs, String> {
    env.n += 1;
    let payload = p.payload();
    let mut provider: Option<ScriptedProvider> = None;
    let mut cfg = None;
    let input = match p.kind {
        Kind::Prompt => payload.clone(),
        Kind::ToolArgs => json!({"tool": "write", "args": {"path": format!("out/w{}.txt", env.n), "content": payload}}).to_string(),
        Kind::ToolArgsDeep => json!({"tool": "write", "args": {"path": format!("out/w{}.txt", env.n), "content": payload, "zz_deep": nested(rip_kernel::MAX_PAYLOAD_NESTING - 1)}}).to_string(),
        Kind::ToolOutput => {
            let name = format!("big{}.txt", env.n);
            std::fs::write(env.workspace.join(&name), payload.as_bytes()).map_err(|e| e.to_string())?;
            json!({"tool": "read", "args": {"path": name, "max_bytes": payload.len() + 64}}).to_string()
        }
        Kind::Provider => {
            let rid = format!("resp_sized_{}", env.n);
            let mut body = String::new();
            body.push_str(&sse_event("response.created", &json!({"type": "response.created", "sequence_number": 0, "response": {"id": rid}})));
            body.push_str(&sse_event("response.output_text.delta", &json!({"type": "response.output_text.delta", "sequence_number": 1, "item_id": "m1", "output_index": 0, "content_index": 0, "delta": payload})));
            body.push_str(&sse_event("response.completed", &json!({"type": "response.completed", "sequence_number": 2, "response": {"id": rid}})));
            body.push_str(SSE_DONE);
            let chunks: Vec<Vec<u8>> = body.as_bytes().chunks(256 * 1024).map(|c| c.to_vec()).collect();
            let sp = ScriptedProvider::start(vec![Scripted::sse(chunks)]);
            cfg = Some(ripd::verif::OpenResponsesConfig {
                endpoint: sp.url.clone(),
                api_key: None,
                model: Some("scripted".into()),
                headers: vec![],
                tool_choice: rip_provider_openresponses::ToolChoiceParam::auto(),
                followup_user_message: None,
                stateless_history: false,
                parallel_tool_calls: false,
            });
            provider = Some(sp);
            "say something long".to_string()
        }
        _ => return Err("not a session kind".into()),
    };
    let offset = file_len(&env.log_path());
    let (sid, live) = run_session(&env.engine, input, cfg).await?;
    drop(provider);
    let snap_path = env.data_dir.join("snapshots").join(format!("{sid}.json"));
    let snap = rip_log::read_snapshot(&snap_path).map_err(|e| e.to_string());
    let log = lines_from(&env.log_path(), offset).and_then(|(ls, _)| stream_lines(&ls, StreamKind::Session, &sid));
    let mut obs = join_views(p, false, &format!("Session/{sid}"), &live, "snapshot", snap, log);
    if !obs.bad.is_empty() {
        env.log_has_a_hole = true;
    }
    if obs.bad.is_empty() && !env.log_has_a_hole {
        // the store's own check of the snapshot against the log (it validates the WHOLE log: pointless once an earlier
        // stream was reported with a frame missing from it)
        if let Err(e) = EventLog::new(env.log_path()).and_then(|l| rip_log::verify_snapshot(&l, &snap_path)) {
            obs.bad.push(("sized_views_differ".into(), format!("{} of {} written bytes: verify_snapshot of session {sid} fails: {e}", p.kind.name(), p.target), json!({"point": p.json(), "error": e.to_string()})));
        }
    }
    Ok(obs)
}

async fn cont_point(env: &mut Env, p: &Point) -> Result<StreamObs, String> {
    env.n += 1;
    let side_path = env.data_dir.join("continuity_streams").join(format!("{}.jsonl", env.cid));
    let offset = file_len(&env.log_path());
    let side_offset = file_len(&side_path);
    let res = env.store.append_message(&env.cid, "user".into(), "cli".into(), p.payload());
    let mut live = vec![];
    loop {
        match env.cont_rx.try_recv() {
            Ok(ev) => {
                if ev.stream_id() == env.cid {
                    live.push(ev);
                }
            }
            Err(TryRecvError::Lagged(_)) => {}
            Err(_) => break,
        }
    }
    env.cont_live.extend(live.iter().cloned());
    let cid = env.cid.clone();
    let side = lines_from(&side_path, side_offset).and_then(|(ls, _)| ls.iter().map(|l| serde_json::from_str::<Event>(l).map_err(|e| format!("a sidecar line ({} bytes) does not parse: {e}", l.len()))).collect::<Result<Vec<Event>, String>>());
    let log = lines_from(&env.log_path(), offset).and_then(|(ls, _)| stream_lines(&ls, StreamKind::Continuity, &cid));
    let mut obs = join_views(p, true, &format!("Continuity/{cid}"), &live, "sidecar", side, log);
    if let Err(e) = res {
        obs.errors += 1;
        if !live.is_empty() {
            obs.bad.push(("sized_views_differ".into(), format!("append_message of {} written bytes returned an error ({e}) and a frame was published", p.target), json!({"point": p.json(), "error": e})));
        }
    } else if live.len() != 1 {
        obs.bad.push(("sized_views_differ".into(), format!("append_message of {} written bytes returned Ok and {} frames were published", p.target, live.len()), json!({"point": p.json()})));
    }
    Ok(obs)
}

async fn http_json(app: &axum::Router, method: &str, uri: &str, body: Option<Value>) -> Result<(u16, Value), String> {
    use http_body_util::BodyExt;
    use tower::ServiceExt;
    let mut b = axum::http::Request::builder().method(method).uri(uri);
    let body = match body {
        Some(v) => {
            b = b.header("content-type", "application/json");
            axum::body::Body::from(v.to_string())
        }
        None => axum::body::Body::empty(),
    };
    let req = b.body(body).map_err(|e| e.to_string())?;
    let resp = app.clone().oneshot(req).await.map_err(|e| e.to_string())?;
    let status = resp.status().as_u16();
    let bytes = resp.into_body().collect().await.map_err(|e| e.to_string())?.to_bytes();
    Ok((status, serde_json::from_slice(&bytes).unwrap_or(Value::Null)))
}

fn task_terminal(ev: &Event) -> bool {
    matches!(&ev.kind, EventKind::ToolTaskStatus { status, .. } if matches!(status, rip_kernel::ToolTaskStatus::Exited | rip_kernel::ToolTaskStatus::Cancelled | rip_kernel::ToolTaskStatus::Failed))
}

async fn task_sse(app: &axum::Router, task_id: &str) -> Result<Vec<Event>, String> {
    use http_body_util::BodyExt;
    use tower::ServiceExt;
    let req = axum::http::Request::builder().method("GET").uri(format!("/tasks/{task_id}/events")).body(axum::body::Body::empty()).map_err(|e| e.to_string())?;
    let resp = app.clone().oneshot(req).await.map_err(|e| e.to_string())?;
    if resp.status().as_u16() != 200 {
        return Err(format!("sse status {}", resp.status()));
    }
    let mut body = resp.into_body();
    let mut buf: Vec<u8> = Vec::new();
    let mut out = Vec::new();
    let started = Instant::now();
    loop {
        let left = RUN_TIMEOUT.checked_sub(started.elapsed()).ok_or_else(|| "timeout".to_string())?;
        let frame = match tokio::time::timeout(left, body.frame()).await {
            Err(_) => return Err("timeout".to_string()),
            Ok(None) => return Err("sse stream ended before the terminal status".to_string()),
            Ok(Some(Err(e))) => return Err(format!("sse body error: {e}")),
            Ok(Some(Ok(f))) => f,
        };
        if let Ok(data) = frame.into_data() {
            buf.extend_from_slice(&data);
        }
        while let Some(pos) = buf.windows(2).position(|w| w == b"\n\n") {
            let block: Vec<u8> = buf.drain(..pos + 2).collect();
            let text = String::from_utf8_lossy(&block).to_string();
            for line in text.lines() {
                if let Some(rest) = line.strip_prefix("data:") {
                    let rest = rest.strip_prefix(' ').unwrap_or(rest);
                    let ev: Event = serde_json::from_str(rest).map_err(|e| format!("sse frame does not parse: {e}"))?;
                    out.push(ev);
                }
            }
        }
        if out.last().map(task_terminal).unwrap_or(false) {
            return Ok(out);
        }
    }
}

async fn task_point(env: &mut Env, p: &Point) -> Result<StreamObs, String> {
    env.n += 1;
    if env.task_app.is_none() {
        let ws = env.task_dir.join("workspace");
        std::fs::create_dir_all(&ws).map_err(|e| e.to_string())?;
        env.task_app = Some(ripd::verif::build_app(env.task_dir.join("data"), ws, None));
    }
    let app = env.task_app.clone().unwrap();
    let log_path = env.task_dir.join("data").join("events.jsonl");
    let offset = file_len(&log_path);
    let payload = json!({"tool": "bash", "args": {"command": "printf 'sized ok'", "zz_pad": p.payload()}, "execution_mode": "pipes"});
    let (status, v) = http_json(&app, "POST", "/tasks", Some(payload)).await?;
    if status != 201 {
        return Err(format!("POST /tasks -> {status} (the router refused the request: no task, no frames)"));
    }
    let task_id = v.get("task_id").and_then(|x| x.as_str()).unwrap_or_default().to_string();
    let live = task_sse(&app, &task_id).await?;
    // the terminal frame is published before it is logged and before the snapshot is written: wait for both
    let snap_path = env.task_dir.join("data").join("task_snapshots").join(format!("{task_id}.json"));
    let t0 = Instant::now();
    let mut settled = false;
    while t0.elapsed() < SETTLE {
        let snap_ok = rip_log::read_snapshot(&snap_path).map(|s| s.len() >= live.len()).unwrap_or(false);
        let log_ok = lines_from(&log_path, offset).and_then(|(ls, _)| stream_lines(&ls, StreamKind::Task, &task_id)).map(|l| l.iter().any(|(_, e)| task_terminal(e))).unwrap_or(false);
        if snap_ok && log_ok {
            settled = true;
            break;
        }
        tokio::time::sleep(Duration::from_millis(20)).await;
    }
    if !settled {
        // the terminal frame is published BEFORE it is logged and before the snapshot is written: without both in place the
        // views cannot be judged (liveness is not C03) — a note, never a verdict
        return Err(format!("task {task_id}: terminal frame not in the log / snapshot not complete within {SETTLE:?}"));
    }
    let snap = rip_log::read_snapshot(&snap_path).map_err(|e| e.to_string());
    let log = lines_from(&log_path, offset).and_then(|(ls, _)| stream_lines(&ls, StreamKind::Task, &task_id));
    Ok(join_views(p, false, &format!("Task/{task_id}"), &live, "snapshot", snap, log))
}

async fn run_point(env: &mut Env, p: &Point) -> Result<StreamObs, String> {
    match p.kind {
        Kind::ContMessage => cont_point(env, p).await,
        Kind::TaskArgs => task_point(env, p).await,
        _ => session_point(env, p).await,
    }
}

/// end of the run: the whole store still replays, and the continuity still reads back from the log / the store
fn final_checks(env: &mut Env, out: &mut SizedOutcome, seed: u64) {
    let how = "one SessionEngine; ensure_default + one message; then one session / append_message per point (see the points in the distribution); then EventLog::new(events.jsonl).replay_validated(), replay_stream(Continuity, id), ContinuityStore::replay_events(id)";
    for (name, path) in [("the sessions' store", env.log_path()), ("the tasks' store", env.task_dir.join("data").join("events.jsonl"))] {
        if !path.exists() {
            continue;
        }
        out.oracle_checks += 1;
        let log = match EventLog::new(&path) {
            Ok(l) => l,
            Err(e) => {
                out.notes.push(format!("sized: cannot open {}: {e}", path.display()));
                continue;
            }
        };
        if let Err(e) = log.replay_validated() {
            out.violations.push(OracleViolation {
                case_id: -5_000_001,
                what: format!("after frames of every size were emitted, {name} no longer replays from disk (EventLog::replay_validated: {e}): every replay_stream / replay_session / log fallback of replay_events fails, frames that were delivered live can no longer be reproduced"),
                class: "log_no_longer_replays_after_sized_frames".into(),
                replay: json!({"kind": "sized_frames", "seed": seed, "error": e.to_string(), "how": how}),
            });
            return;
        }
    }
    // the continuity: live = log = replay_events, and the message written before everything else is still there
    out.oracle_checks += 2;
    let live: Vec<String> = env.cont_live.iter().map(line_of).collect();
    let log = EventLog::new(env.log_path()).and_then(|l| l.replay_stream(StreamKind::Continuity, &env.cid));
    let rep = env.store.replay_events(&env.cid);
    for (name, got) in [("EventLog::replay_stream", log), ("ContinuityStore::replay_events", rep)] {
        let bad = match &got {
            Ok(evs) => {
                let l: Vec<String> = evs.iter().map(line_of).collect();
                if l != live {
                    Some(format!("{} frames (seqs {:?}) while the live subscriber received {} (seqs {:?})", l.len(), evs.iter().map(|e| e.seq).collect::<Vec<_>>(), live.len(), env.cont_live.iter().map(|e| e.seq).collect::<Vec<_>>()))
                } else if !l.contains(&env.first_message_line) {
                    Some("not the message written before the sized frames".to_string())
                } else {
                    None
                }
            }
            Err(e) => Some(format!("an error: {e}")),
        };
        if let Some(b) = bad {
            out.violations.push(OracleViolation {
                case_id: -5_000_002,
                what: format!("after frames of every size were emitted, {name} of the continuity gives {b}"),
                class: "sized_views_differ".into(),
                replay: json!({"kind": "sized_frames", "seed": seed, "view": name, "how": how}),
            });
            break;
        }
    }
}

fn coq_case(obs: &StreamObs) -> Option<String> {
    let mut frames = vec![];
    for f in &obs.frames {
        let j = parse_json(&f.line).ok()?;
        let mut doc = String::new();
        if !coq_sjson(&j, &mut doc) {
            return None;
        }
        let cps: u64 = f.line.chars().map(|c| c as u64).sum();
        frames.push(format!(
            "{{| zf_doc := {doc}; zf_bytes := {}; zf_cps := {}; zf_live := {}; zf_store := {}; zf_log := {} |}}",
            coq_n(f.line.len() as u64),
            coq_n(cps),
            coq_bool(f.in_live),
            coq_bool(f.in_store),
            coq_bool(f.in_log)
        ));
    }
    let term = format!("{{| zc_cont := {}; zc_errors := {}; zc_frames := [{}] |}}", coq_bool(obs.site_cont), coq_n(obs.errors), frames.join("; "));
    if term.len() > 120_000 {
        return None;
    }
    Some(term)
}

async fn run_all(seed: u64, thorough: bool, root: &Path, out: &mut SizedOutcome) -> Result<(), String> {
    let mut env = Env::new(root)?;
    let pts = points(seed, thorough);
    // per kind: the largest target that passed and the smallest that failed (for the bisection)
    let mut passed: BTreeMap<Kind, (usize, usize)> = BTreeMap::new();
    let mut failed: BTreeMap<Kind, Point> = BTreeMap::new();
    let mut reported: Vec<(String, Kind)> = vec![];
    for p in &pts {
        out.evaluations += 1;
        out.bump(&format!("points.{}", p.kind.name()), 1);
        out.bump(&format!("unit.{}", UNITS[p.unit].0), 1);
        match run_point(&mut env, p).await {
            Ok(obs) => {
                out.oracle_checks += 3;
                out.frames_compared += 3 * obs.frames.len() as u64;
                for f in &obs.frames {
                    out.bump(size_bucket(f.line.len()), 1);
                }
                out.bump("append_errors", obs.errors);
                if obs.bad.is_empty() {
                    let e = passed.entry(p.kind).or_insert((0, p.unit));
                    if p.target > e.0 {
                        *e = (p.target, p.unit);
                    }
                } else if failed.get(&p.kind).map(|q| p.target < q.target).unwrap_or(true) {
                    failed.insert(p.kind, p.clone());
                }
                for (class, what, detail) in &obs.bad {
                    if reported.contains(&(class.clone(), p.kind)) {
                        out.bump("violations_of_a_class_already_reported", 1);
                        continue;
                    }
                    reported.push((class.clone(), p.kind));
                    out.violations.push(OracleViolation {
                        case_id: -(5_000_100 + out.evaluations as i64),
                        what: what.clone(),
                        class: class.clone(),
                        replay: json!({"kind": "sized_frames", "seed": seed, "detail": detail,
                            "how": "fresh SessionEngine (no provider unless the point is a provider event: then a scripted OpenResponses server answering created / output_text.delta(payload) / completed / [DONE]); a subscriber attached before the run; prompt = the payload; tool_args = {\"tool\":\"write\",\"args\":{\"path\":..,\"content\":payload}}; tool_output = {\"tool\":\"read\",\"args\":{\"path\":<file holding the payload>,\"max_bytes\":..}}; task_args = POST /tasks {\"tool\":\"bash\",\"args\":{\"command\":..,\"zz_pad\":payload}}; continuity_message = ContinuityStore::append_message(payload); compare live frames, snapshots/<id>.json (sidecar for the continuity) and the stream's lines in events.jsonl"}),
                    });
                }
                match coq_case(&obs) {
                    Some(term) => out.cases.push((term, json!({"sized": p.json(), "stream": obs.stream, "frames": obs.frames.iter().map(|f| json!({"seq": f.seq, "type": f.ty, "line_bytes": f.line.len(), "live": f.in_live, "store": f.in_store, "log": f.in_log})).collect::<Vec<_>>()}))),
                    None => out.bump("case_not_foldable_skipped", 1),
                }
            }
            Err(e) => {
                out.bump(&format!("not_run.{}", p.kind.name()), 1);
                if out.notes.len() < 12 {
                    out.notes.push(format!("sized {} of {} bytes ({}): not run: {e}", p.kind.name(), p.target, UNITS[p.unit].0));
                }
            }
        }
    }
    // bisect the size at which frames start to go missing (one kind is enough for the report)
    if let Some((kind, bad)) = failed.iter().next().map(|(k, p)| (*k, p.clone())) {
        let mut lo = passed.get(&kind).map(|x| x.0).filter(|t| *t < bad.target).unwrap_or(0);
        let mut hi = bad.target;
        let mut steps = 0;
        while hi - lo > 1 && steps < 24 {
            steps += 1;
            let mid = lo + (hi - lo) / 2;
            let p = Point { kind, unit: bad.unit, target: mid };
            match run_point(&mut env, &p).await {
                Ok(obs) if obs.bad.is_empty() => lo = mid,
                Ok(obs) => {
                    hi = mid;
                    if let Some(f) = obs.frames.iter().filter(|f| (f.in_live || f.in_store) && !f.in_log).map(|f| f.line.len()).min() {
                        out.distribution.insert("bisect.smallest_line_bytes_seen_missing_from_the_log".into(), f as u64);
                    }
                }
                Err(_) => break,
            }
        }
        out.notes.push(format!("sized: {} frames go missing between payloads of {lo} and {hi} written bytes (unit {:?}; bisected in {steps} runs)", kind.name(), UNITS[bad.unit].0));
        if let Some(v) = out.violations.iter_mut().find(|v| v.class == "frame_published_but_not_in_log") {
            v.replay["bisected"] = json!({"kind": kind.name(), "largest_payload_that_passed": lo, "smallest_payload_that_failed": hi, "unit": UNITS[bad.unit].0});
        }
    }
    final_checks(&mut env, out, seed);
    Ok(())
}

pub fn sized_frames(seed: u64, thorough: bool) -> SizedOutcome {
    let mut out = SizedOutcome::default();
    let t0 = Instant::now();
    let scratch = Scratch::new("c03z");
    let rt = match tokio::runtime::Builder::new_multi_thread().worker_threads(4).enable_all().build() {
        Ok(rt) => rt,
        Err(e) => {
            out.notes.push(format!("sized frames: no runtime: {e}"));
            return out;
        }
    };
    let res = catch_unwind(AssertUnwindSafe(|| rt.block_on(run_all(seed, thorough, scratch.path(), &mut out))));
    match res {
        Ok(Ok(())) => {}
        Ok(Err(e)) => out.notes.push(format!("sized frames: not run: {e}")),
        Err(p) => {
            let msg = p.downcast_ref::<String>().cloned().or_else(|| p.downcast_ref::<&str>().map(|s| s.to_string())).unwrap_or_default();
            out.violations.push(OracleViolation { case_id: -5_000_000, what: format!("sized frames: panic: {msg}"), class: "panic".into(), replay: json!({"kind": "sized_frames", "seed": seed}) });
        }
    }
    out.notes.push(format!("sized frames: {} points, {:.1}s", out.evaluations, t0.elapsed().as_secs_f64()));
    out
}

// ------------------------------------------------------------------------------------------------
// store level: EventLog::append takes every frame the codec can write
// ------------------------------------------------------------------------------------------------

/// Frames of eight types built as Rust values with payloads up the ladder, appended to a real `EventLog` on a
/// healthy disk: `append` must return Ok for each (nothing about a frame may make the log refuse it), a fresh
/// reader must find exactly the line, and a second `EventLog` must replay all of them.
pub fn append_ladder(seed: u64, thorough: bool) -> SizedOutcome {
    let mut out = SizedOutcome::default();
    let scratch = Scratch::new("c03a");
    let path = scratch.path().join("data").join("events.jsonl");
    let log = match EventLog::new(&path) {
        Ok(l) => l,
        Err(e) => {
            out.notes.push(format!("append ladder: cannot create a log: {e}"));
            return out;
        }
    };
    let mut r = Rng::new(seed ^ 0xadd_1add);
    let mut sizes: Vec<usize> = vec![0, 1, 8_100, 8_300, 65_400, 65_700, 520_000, 1_048_300, 1_048_900, 2_100_000, 4_200_000];
    for _ in 0..(if thorough { 30 } else { 6 }) {
        let bits = r.range(0, 22);
        sizes.push(((1u64 << bits) + r.below(1u64 << bits)).min(6 * 1024 * 1024) as usize);
    }
    let mut appended: Vec<String> = vec![];
    let mut offset = 0u64;
    let mut seqs: BTreeMap<String, u64> = BTreeMap::new();
    let mut refused = 0u64;
    for (si, size) in sizes.iter().enumerate() {
        let unit = UNITS[r.below(UNITS.len() as u64) as usize];
        let payload = unit.1.repeat((size / esc_bytes(unit.1)).max(if *size == 0 { 0 } else { 1 }));
        let kinds: Vec<(&str, &str, EventKind)> = vec![
            ("session_started", "s", EventKind::SessionStarted { input: payload.clone() }),
            ("output_text_delta", "s", EventKind::OutputTextDelta { delta: payload.clone() }),
            ("tool_started", "s", EventKind::ToolStarted { tool_id: "t".into(), name: "write".into(), args: json!({"path": "p", "content": payload}), timeout_ms: None }),
            ("tool_stdout", "s", EventKind::ToolStdout { tool_id: "t".into(), chunk: payload.clone() }),
            ("provider_event", "s", EventKind::ProviderEvent { provider: "openresponses".into(), status: rip_kernel::ProviderEventStatus::Event, event_name: Some("response.output_text.delta".into()), data: Some(json!({"type": "response.output_text.delta", "delta": payload})), raw: Some(json!({"type": "response.output_text.delta", "delta": payload}).to_string()), errors: vec![], response_errors: vec![] }),
            ("continuity_message_appended", "c", EventKind::ContinuityMessageAppended { actor_id: "user".into(), origin: "cli".into(), content: payload.clone() }),
        ];
        // quick: two frame types per size (rotating), thorough: all
        for (ki, (name, sid, kind)) in kinds.into_iter().enumerate() {
            if !thorough && (ki + si) % 3 != 0 {
                continue;
            }
            let seq = seqs.entry(sid.to_string()).or_insert(0);
            let ev = Event { id: format!("e{si}-{ki}"), session_id: sid.to_string(), timestamp_ms: 1_758_000_000_000, seq: *seq, kind };
            let line = line_of(&ev);
            out.evaluations += 1;
            out.oracle_checks += 1;
            out.bump(size_bucket(line.len()), 1);
            match catch_unwind(AssertUnwindSafe(|| log.append(&ev))) {
                Err(_) => {
                    out.violations.push(OracleViolation { case_id: -6_000_000, what: format!("EventLog::append panicked on a {name} frame of {} bytes", line.len()), class: "panic".into(), replay: json!({"frame_type": name, "line_bytes": line.len(), "unit": unit.0}) });
                    return out;
                }
                Ok(Err(e)) => {
                    refused += 1;
                    if refused == 1 {
                        out.violations.push(OracleViolation {
                            case_id: -6_000_001,
                            what: format!(
                                "EventLog::append refused a frame the kernel can produce, on a healthy disk: {name} with a payload of {} x {:?}, a line of {} bytes: `{e}` — the session / task emitters publish a frame and record it for the snapshot BEFORE this append and drop its result, so such a frame is live and in the snapshot and never in the log, and the stream's later frames leave a seq hole that fails every validated replay",
                                payload.chars().count() / unit.1.chars().count().max(1),
                                unit.1,
                                line.len()
                            ),
                            class: "append_refuses_frame".into(),
                            replay: json!({"frame_type": name, "line_bytes": line.len(), "unit": unit.0, "unit_text": unit.1, "error": e.to_string(), "seed": seed,
                                "how": "EventLog::new(<fresh file>); append(&Event { kind: <frame_type> with the payload = unit repeated, .. }) must return Ok"}),
                        });
                    }
                    continue;
                }
                Ok(Ok(())) => {}
            }
            *seq += 1;
            let want = format!("{line}\n");
            let got = lines_from(&path, offset);
            let ok = matches!(&got, Ok((ls, end)) if ls.len() == 1 && ls[0] == line && *end == offset + want.len() as u64);
            if !ok && !out.violations.iter().any(|v| v.class == "appended_frame_not_on_disk") {
                out.violations.push(OracleViolation {
                    case_id: -6_000_002,
                    what: format!("EventLog::append returned Ok for a {name} frame of {} bytes, but a fresh reader does not find exactly that line at the end of the file", line.len()),
                    class: "appended_frame_not_on_disk".into(),
                    replay: json!({"frame_type": name, "line_bytes": line.len(), "unit": unit.0, "seed": seed}),
                });
            }
            offset = file_len(&path);
            appended.push(line);
        }
    }
    out.bump("append_ladder.refused", refused);
    out.bump("append_ladder.appended", appended.len() as u64);
    out.oracle_checks += 1;
    match EventLog::new(&path).and_then(|l| l.replay_validated()) {
        Ok(evs) if evs.len() == appended.len() && evs.iter().zip(appended.iter()).all(|(e, l)| line_of(e) == *l) => {}
        other => {
            if refused == 0 {
                out.violations.push(OracleViolation {
                    case_id: -6_000_003,
                    what: format!("a second EventLog on the file replays {} while {} frames of every size were appended (append returned Ok for each)", match &other { Ok(e) => format!("{} frames", e.len()), Err(e) => format!("with error `{e}`") }, appended.len()),
                    class: "appended_frame_not_on_disk".into(),
                    replay: json!({"frames_appended": appended.len(), "seed": seed}),
                });
            }
        }
    }
    out
}
