#[path = "c03/hist.rs"]
mod hist;
#[path = "c03/extra.rs"]
mod extra;

fn show(o: extra::ExtraOutcome) {
    println!("evaluations={} checks={} frames_compared={} violations={}", o.evaluations, o.oracle_checks, o.frames_compared, o.violations.len());
    for (k, v) in &o.distribution {
        println!("  {k}: {v}");
    }
    for v in &o.violations {
        println!("VIOLATION case={} class={} what={}", v.case_id, v.class, v.what);
        println!("   replay={}", v.replay);
    }
    for n in &o.notes {
        println!("NOTE {n}");
    }
}

fn main() {
    let av: Vec<String> = std::env::args().collect();
    // c03histdev writers <seed> <rounds> <per-writer> | c03histdev long <files>
    if av.get(1).map(|s| s.as_str()) == Some("writers") {
        let g = |i: usize, d: u64| av.get(i).and_then(|s| s.parse().ok()).unwrap_or(d);
        return show(extra::concurrent_writers(g(2, 1), g(3, 4) as usize, g(4, 300) as usize));
    }
    if av.get(1).map(|s| s.as_str()) == Some("fulldisk") {
        return show(extra::session_on_full_disk());
    }
    if av.get(1).map(|s| s.as_str()) == Some("long") {
        return show(extra::long_session(av.get(2).and_then(|s| s.parse().ok()).unwrap_or(3000)));
    }
    let seed: u64 = av.get(1).and_then(|s| s.parse().ok()).unwrap_or(1);
    let n: usize = av.get(2).and_then(|s| s.parse().ok()).unwrap_or(30);
    let t0 = std::time::Instant::now();
    let o = hist::run_histories(seed, n, 200);
    println!("histories={} frames_compared={} oracle_checks={} violations={} lines={} elapsed={:.2}s", o.histories, o.frames_compared, o.oracle_checks, o.violations.len(), o.emitted_lines.len(), t0.elapsed().as_secs_f64());
    for (k, v) in &o.distribution {
        println!("  {k}: {v}");
    }
    for v in o.violations.iter().take(12) {
        println!("VIOLATION case={} class={} what={}", v.case_id, v.class, v.what);
        let r = serde_json::to_string(&v.replay).unwrap();
        println!("   replay={}", if r.len() > 3000 { &r[..3000] } else { &r });
    }
    for s in &o.samples {
        println!("SAMPLE {}", s);
    }
    for l in o.emitted_lines.iter().take(8) {
        println!("LINE {}", if l.len() > 300 { &l[..300] } else { l });
    }
    let mut types = std::collections::BTreeMap::new();
    for l in &o.emitted_lines {
        let v: serde_json::Value = serde_json::from_str(l).unwrap();
        *types.entry(v["type"].as_str().unwrap_or("?").to_string()).or_insert(0u32) += 1;
    }
    println!("emitted types: {:?}", types);
    for n in &o.notes {
        println!("NOTE {n}");
    }
}
