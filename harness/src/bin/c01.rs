//! C01 — per-stream total order (seq 0,1,2,.. no gap, no duplicate, file order) under any schedule.
//! Runs the REAL ContinuityStore on OS threads under the controlled scheduler (`rv::sched`): every
//! actor parks at the `cont.*` hook points of the append paths; the harness grants one segment at a
//! time following a schedule (exhaustive DFS for two actors, random for three and four), decides
//! enabledness of an actor about to take the seq mutex by the `verif_seq_free` probe (so a narrowed
//! critical section shows up as a real interleaving), and translates the trace of grants into the
//! micro-step schedule of coq/Model/ContStore.v.  Correspondence: final events.jsonl (validator
//! verdict + canonical log) vs `run sched` of the model, evaluated in Coq (`check_case_c01`).
//! Independent oracle: EventLog::replay_validated succeeds on the final store (also after a
//! reopen), every per-stream filter is 0,1,2,.., and the setup log is a byte prefix of the final log.
#[path = "../contlib/mod.rs"]
mod contlib;
#[path = "c01/seqcount.rs"]
mod seqcount;
#[path = "../session_matrix.rs"]
mod session_matrix;
#[path = "c01/confmatrix.rs"]
mod confmatrix;
#[path = "c01/sidewrites.rs"]
mod sidewrites;
use contlib::*;
use ripd::*;
use rv::sched::Sched;
use rv::*;
use serde_json::json;
use std::sync::Arc;
use std::time::Duration;

const UNKNOWN_ID: &str = "00000000-0000-4000-8000-00000000dead";

#[derive(Clone, Debug, PartialEq)]
enum Op {
    Append { t: u64, th: usize },
    PostNewest,
    Branch { th: usize },
    Handoff { th: usize },
    Read { th: usize },
    /// one tool_task_output_delta through the real TaskEmitter::emit of THE task of the case
    TaskEmit { stderr: bool },
    /// a whole run on a fresh session of the case's SessionEngine (ripd::verif::run_session_inline: what
    /// spawn_session hands to the executor), stub input or an `ls` tool envelope; `link` = thread ordinal
    /// of a linked run (POST /threads/{id}/messages): the run closes with append_run_ended on that thread
    SessRun { tool: bool, link: Option<usize> },
    /// ONE call that makes several locked appends: a compaction job run to completion by the caller
    /// (compaction_auto_v1: job_spawned, checkpoint_created .., job_ended; schedule = true:
    /// compaction_auto_schedule_v1 with execute: the schedule decision frame first).  The private append
    /// functions behind it are reachable no other way.  At most one such actor per case: its frames are
    /// recognised by their kinds.
    CompactionAuto { th: usize, schedule: bool },
}

#[derive(Clone, Debug, PartialEq)]
enum Setup {
    Msg { th: usize },
    Run { th: usize },
    Branch { th: usize },
    Fault { x: Fault, th: usize },
    Restart,
}

/// micro-step classes of coq/Model/ContStore.v (mirrors prog_of_cop)
#[derive(Clone, Copy, Debug, PartialEq)]
enum M {
    Target,
    Pick,
    Read,
    Lock,
    Choose,
    Log,
    Sidecar,
    Bcast,
    Advance,
    Unlock,
    Alloc,
    Index,
    SetNext,
    TLock,
    TChoose,
    TAppend,
    TUnlock,
    SEmit,
}

/// crash image request for the next `run_leaf`: (index of the coarse scheduling step at which the data dir and
/// the workspace are copied - every actor is parked at a hook point then -, destination, number of coarse
/// steps seen).  What the copy holds is what a killed authority leaves behind at that point of the schedule.
static CRASH: std::sync::Mutex<Option<(usize, std::path::PathBuf, usize)>> = std::sync::Mutex::new(None);

/// the frames ONE run of the stub input / of the `ls` tool envelope writes (measured once per harness
/// run on an un-raced session; the model's session actor emits exactly these kinds)
static RUN_CODES: std::sync::OnceLock<[Vec<u64>; 2]> = std::sync::OnceLock::new();
fn run_codes(tool: bool) -> Vec<u64> {
    RUN_CODES.get().map(|c| c[tool as usize].clone()).unwrap_or_default()
}

fn locked_append() -> Vec<M> {
    vec![M::Lock, M::Choose, M::Log, M::Sidecar, M::Bcast, M::Advance, M::Unlock]
}
fn lineage() -> Vec<M> {
    vec![M::Lock, M::Alloc, M::Log, M::Sidecar, M::Bcast, M::Index, M::SetNext, M::Log, M::Sidecar, M::Bcast, M::SetNext, M::Unlock]
}
fn prog(op: &Op, job_kinds: &[u64]) -> Vec<M> {
    match op {
        Op::Append { .. } => [vec![M::Target], locked_append()].concat(),
        Op::PostNewest => [vec![M::Pick], locked_append()].concat(),
        Op::Branch { .. } | Op::Handoff { .. } => [vec![M::Target, M::Read], lineage()].concat(),
        Op::Read { .. } => vec![M::Target, M::Read],
        Op::TaskEmit { .. } => vec![M::TLock, M::TChoose, M::Bcast, M::TAppend, M::TUnlock],
        Op::SessRun { tool, link } => {
            let mut v = vec![M::SEmit; run_codes(*tool).len()];
            if link.is_some() {
                v.push(M::Target);
                v.extend(locked_append());
            }
            v
        }
        // what the call appended is known after the run
        Op::CompactionAuto { .. } => job_kinds.iter().flat_map(|_| [vec![M::Target], locked_append()].concat()).collect(),
    }
}

fn op_coq(op: &Op) -> String {
    match op {
        Op::Append { t, th } => format!("OAppend {} {}", coq_etype(*t), coq_nat(*th as u64)),
        Op::PostNewest => "OPostNewest".into(),
        Op::Branch { th } => format!("OBranch {}", coq_nat(*th as u64)),
        Op::Handoff { th } => format!("OHandoff {}", coq_nat(*th as u64)),
        Op::Read { th } => format!("ORead {}", coq_nat(*th as u64)),
        Op::TaskEmit { .. } => "OTaskEmit EToolTaskOutputDelta".into(),
        Op::SessRun { .. } | Op::CompactionAuto { .. } => "ORead 0%nat".into(), // never printed: mixed cases go through mop_coq
    }
}
fn mop_coq(op: &Op, job_kinds: &[u64]) -> String {
    match op {
        Op::CompactionAuto { th, .. } => format!("MAppends {} [{}]", coq_nat(*th as u64), job_kinds.iter().map(|c| coq_etype(*c)).collect::<Vec<_>>().join("; ")),
        Op::SessRun { tool, link } => format!(
            "MRun [{}] {}",
            run_codes(*tool).iter().map(|c| coq_etype(*c)).collect::<Vec<_>>().join("; "),
            match link {
                Some(th) => format!("(Some {})", coq_nat(*th as u64)),
                None => "None".into(),
            }
        ),
        o => format!("MOp ({})", op_coq(o)),
    }
}
fn setup_coq(s: &Setup) -> String {
    match s {
        Setup::Msg { th } => format!("KCap (CapAppend EContinuityMessageAppended) {} fact_ok", coq_nat(*th as u64)),
        Setup::Run { th } => format!("KCap (CapAppend EContinuityRunSpawned) {} fact_ok", coq_nat(*th as u64)),
        Setup::Branch { th } => format!("KCap CapBranch {} fact_ok", coq_nat(*th as u64)),
        Setup::Fault { x, th } => {
            let xs = match x {
                Fault::Delete => "XDelete".to_string(),
                Fault::CutLine => "XCutLine".to_string(),
                Fault::TearTail => "XTearTail".to_string(),
                Fault::Empty => "XEmpty".to_string(),
                Fault::Rollback(k) => format!("(XRollback {})", coq_nat(*k as u64)),
            };
            format!("KFault {xs} {}", coq_nat(*th as u64))
        }
        Setup::Restart => "KRestart".into(),
    }
}

fn ids_of(env: &Env) -> Vec<String> {
    created_ids(&parse_log(&env.log_bytes()).unwrap_or_default())
}
fn id_at(ids: &[String], th: usize) -> String {
    ids.get(th).cloned().unwrap_or_else(|| UNKNOWN_ID.to_string())
}

fn append_kind(st: &ContinuityStore, id: &str, t: u64, tag: u64) -> Result<String, String> {
    let (a, o) = ("user".to_string(), "harness".to_string());
    let mid = "m0".to_string();
    match t {
        4 => st.append_message(id, a, o, format!("msg {tag}")),
        5 => st.append_run_spawned(id, &mid, "run-1", a, o),
        13 => st.append_run_ended(id, &mid, "run-1", "completed".into(), a, o),
        14 => st.append_tool_side_effects(
            &ContinuityRunLink { continuity_id: id.to_string(), message_id: mid, actor_id: a, origin: o },
            "run-1",
            ToolSideEffects { tool_id: "t1".into(), tool_name: "write".into(), affected_paths: Some(vec!["a.txt".into()]), checkpoint_id: None },
        ),
        6 => ripd::verif::append_context_selection_decided(st, id, "run-1".into(), mid, "recent_messages_v1".into(), vec![], a, o),
        7 => ripd::verif::append_context_compiled(st, id, "run-1".into(), "art".into(), "recent_messages_v1".into(), 0, None, a, o),
        _ => ripd::verif::append_provider_cursor_updated(st, id, "openresponses".into(), Some("http://e".into()), Some("m".into()), Some(json!({"previous_response_id": "r"})), "set".into(), Some("run-1".into()), a, o),
    }
}

fn do_setup(env: &mut Env, setup: &[Setup]) {
    env.store.ensure_default().expect("default thread");
    for s in setup {
        let ids = ids_of(env);
        match s {
            Setup::Msg { th } => {
                let _ = append_kind(&env.store, &id_at(&ids, *th), 4, 0);
            }
            Setup::Run { th } => {
                let _ = append_kind(&env.store, &id_at(&ids, *th), 5, 0);
            }
            Setup::Branch { th } => {
                let _ = env.store.branch(&id_at(&ids, *th), None, None, None, "user".into(), "harness".into());
            }
            Setup::Fault { x, th } => {
                if let Some(id) = ids.get(*th) {
                    apply_fault(env, id, *x);
                }
            }
            Setup::Restart => env.restart(),
        }
    }
}

fn do_op(store: &ContinuityStore, log_path: &std::path::Path, ids: &[String], op: &Op, tag: u64, engine: Option<&Arc<ripd::SessionEngine>>) {
    match op {
        Op::Append { t, th } => {
            let _ = append_kind(store, &id_at(ids, *th), *t, tag);
        }
        Op::PostNewest => {
            // a client that read thread.list: newest listed thread = the listed id whose creation
            // frame is last in the log
            let listed: Vec<String> = store.list().into_iter().map(|m| m.continuity_id).collect();
            let order = created_ids(&parse_log(&std::fs::read(log_path).unwrap_or_default()).unwrap_or_default());
            let target = order.iter().rev().find(|id| listed.contains(id)).cloned();
            rip_kernel::verif::point("cont.h_picked");
            if let Some(id) = target {
                let _ = append_kind(store, &id, 4, tag);
            }
        }
        Op::Branch { th } => {
            let _ = store.branch(&id_at(ids, *th), None, None, None, "user".into(), "harness".into());
        }
        Op::Handoff { th } => {
            let _ = store.handoff(&id_at(ids, *th), None, (Some("# s".into()), None), None, None, ("user".into(), "harness".into()));
        }
        Op::Read { th } => {
            let _ = store.replay_events(&id_at(ids, *th));
        }
        Op::TaskEmit { .. } => {}
        Op::CompactionAuto { th, schedule } => {
            let id = id_at(ids, *th);
            let (a, o) = ("user".to_string(), "harness".to_string());
            if *schedule {
                let _ = store.compaction_auto_schedule_v1(&id, CompactionAutoScheduleV1Request { stride_messages: Some(1), max_new_checkpoints: Some(2), block_on_inflight: Some(false), execute: Some(true), dry_run: Some(false), actor_id: a, origin: o });
            } else {
                let _ = store.compaction_auto_v1(&id, CompactionAutoV1Request { stride_messages: Some(1), max_new_checkpoints: Some(2), dry_run: Some(false), actor_id: a, origin: o });
            }
        }
        Op::SessRun { tool, link } => {
            if let Some(engine) = engine {
                let rt = tokio::runtime::Builder::new_current_thread().enable_all().build().unwrap();
                let handle = engine.create_session();
                let link = link.map(|th| ContinuityRunLink { continuity_id: id_at(ids, th), message_id: "m0".into(), actor_id: "user".into(), origin: "harness".into() });
                rt.block_on(ripd::verif::run_session_inline(engine, handle, race_input(*tool, tag as u32), link));
            }
        }
    }
}

/// how far the model program of an actor advances when the real thread arrives at `point`
struct Pc {
    steps: Vec<M>,
    op_end: Vec<usize>, // exclusive end index of each op
    pc: usize,
    op: usize, // index of the call the real thread is in
}
impl Pc {
    fn new(ops: &[Op], job_kinds: &[u64]) -> Pc {
        let mut steps = vec![];
        let mut op_end = vec![];
        for o in ops {
            steps.extend(prog(o, job_kinds));
            op_end.push(steps.len());
        }
        Pc { steps, op_end, pc: 0, op: 0 }
    }
    fn cur_end(&self) -> usize {
        self.op_end.get(self.op).cloned().unwrap_or(self.steps.len())
    }
    fn through(&mut self, pred: impl Fn(M) -> bool) -> usize {
        let end = self.cur_end();
        let mut i = self.pc;
        while i < end && !pred(self.steps[i]) {
            i += 1;
        }
        let to = if i < end { i + 1 } else { end };
        let n = to - self.pc;
        self.pc = to;
        n
    }
    fn upto(&mut self, pred: impl Fn(M) -> bool) -> usize {
        let end = self.cur_end();
        let mut i = self.pc;
        while i < end && !pred(self.steps[i]) {
            i += 1;
        }
        let n = i - self.pc;
        self.pc = i;
        n
    }
    fn arrive(&mut self, point: &str) -> usize {
        match point {
            "cont.h_picked" => self.through(|m| m == M::Pick),
            "cont.before_lock" => self.upto(|m| m == M::Lock),
            "cont.locked" => self.through(|m| m == M::Lock),
            "cont.logged" => self.through(|m| m == M::Log),
            "cont.sidecar" => self.through(|m| m == M::Sidecar),
            "cont.bcast" => self.through(|m| m == M::Bcast),
            "cont.advanced" => self.through(|m| m == M::Advance),
            "cont.index_saved" => self.through(|m| m == M::Index),
            "cont.before_setnext" => self.upto(|m| m == M::SetNext),
            "cont.setnext" => self.through(|m| m == M::SetNext),
            "cont.h_opdone" => {
                // the call returned.  When it returned early (`?` in load_next_seq_for: the step
                // about to run is Choose) the model's early return skips the rest of the call, so
                // exactly that one step is granted.
                let end = self.cur_end();
                let n = if self.pc < end && self.steps[self.pc] == M::Choose { 1 } else { end - self.pc };
                self.pc = end;
                self.op += 1;
                n
            }
            "task.seq_chosen" => self.through(|m| m == M::TChoose),
            "task.sent" => self.through(|m| m == M::Bcast),
            "task.h_done" => {
                let end = self.cur_end();
                let n = end - self.pc;
                self.pc = end;
                self.op += 1;
                n
            }
            "done" => {
                let n = self.steps.len() - self.pc;
                self.pc = self.steps.len();
                n
            }
            _ => 0, // log.*, cache.*: inside one micro-step
        }
    }
}

struct Leaf {
    model_sched: Vec<u64>,
    obs: Vec<u64>,
    violation: Option<(String, String)>,
    inconclusive: bool,
    choices: Vec<usize>,
    widths: Vec<usize>,
    grants: usize,
    job_kinds: Vec<u64>,
}

fn coarse(p: &str) -> bool {
    p.starts_with("cont.") || p == "start" || p == "sess.before_emit"
}

/// Runs setup sequentially, then the actors under the scheduler; `choose(decision index, width)`
/// picks among the enabled actors at every real decision.
fn run_leaf(setup: &[Setup], actors: &[Vec<Op>], choose: &mut dyn FnMut(usize, usize) -> usize) -> Leaf {
    let scratch = Scratch::new("c01");
    // a case with runs needs a SessionEngine: the store and the log are then the engine's own (such cases
    // have no restart / fault in their set-up)
    let with_runs = actors.iter().flatten().any(|o| matches!(o, Op::SessRun { .. }));
    let engine_rt = if with_runs { Some(tokio::runtime::Builder::new_multi_thread().worker_threads(1).enable_all().build().unwrap()) } else { None };
    let engine: Option<Arc<ripd::SessionEngine>> = engine_rt.as_ref().and_then(|rt| {
        let _g = rt.enter();
        let data_dir = scratch.path().join("data");
        let ws = scratch.path().join("ws");
        std::fs::create_dir_all(&data_dir).ok()?;
        std::fs::create_dir_all(&ws).ok()?;
        let _ = std::fs::write(ws.join("a.txt"), b"hello\n");
        ripd::SessionEngine::new(data_dir, ws, None).ok().map(Arc::new)
    });
    let mut env = match &engine {
        Some(e) => Env {
            root: scratch.path().to_path_buf(),
            data_dir: scratch.path().join("data"),
            ws: scratch.path().join("ws"),
            log: Arc::new(rip_log::EventLog::new(scratch.path().join("data").join("events.jsonl")).expect("event log")),
            store: e.continuities(),
        },
        None => Env::open(scratch.path()),
    };
    do_setup(&mut env, setup);
    let before = env.log_bytes();
    let ids = Arc::new(ids_of(&env));
    let mut sched = Sched::new();
    if let Some(s) = Arc::get_mut(&mut sched) {
        // an actor that neither parks again nor finishes within this time is blocked on a lock the
        // harness does not know about (or the box is overloaded): the leaf is then inconclusive and
        // is not compared with the model; the oracle still applies (it holds under any schedule)
        s.step_timeout = Duration::from_secs(4);
    }
    sched.install();
    let mut handles = vec![];
    for (a, ops) in actors.iter().enumerate() {
        let store = env.store.clone();
        let ids = ids.clone();
        let ops = ops.clone();
        let lp = env.log_path();
        let engine = engine.clone();
        handles.push(sched.spawn(a, move || {
            for (k, op) in ops.iter().enumerate() {
                do_op(&store, &lp, &ids, op, (a * 10 + k) as u64, engine.as_ref());
                rip_kernel::verif::point("cont.h_opdone");
            }
        }));
    }
    let store = env.store.clone();
    // an actor granted at cont.before_lock owns the seq mutex until its call returns
    let holding: Arc<std::sync::Mutex<Vec<bool>>> = Arc::new(std::sync::Mutex::new(vec![false; actors.len()]));
    let holding2 = holding.clone();
    let enabled = move |a: usize, p: &'static str| -> bool {
        if p == "cont.before_lock" {
            store.verif_seq_free()
        } else if p == "cont.before_setnext" {
            // today the counter is set through the guard the call already owns; code that takes a
            // temporary guard here (the pre-repair shape) must find the mutex free
            holding2.lock().unwrap()[a] || store.verif_seq_free()
        } else {
            true
        }
    };
    let mut sticky: Option<usize> = None;
    let mut choices = vec![];
    let mut widths = vec![];
    let crash_src = env.root.clone();
    let store_p = env.store.clone();
    let holding3 = holding.clone();
    // decision points: the cont.* / start / sess.before_emit points, and - only when a continuity append
    // arrives at the log writer WITHOUT the seq mutex it took (a critical section that ends before the log
    // append: never the case on the code as built) - the point right before EventLog::append
    // ... and NOT the return from an actor's last call: nothing another actor can observe happens after it,
    // so it is granted at once instead of doubling the schedule tree at every later decision
    let n_ops: Vec<usize> = actors.iter().map(|o| o.len()).collect();
    let ops_done: Arc<std::sync::Mutex<Vec<usize>>> = Arc::new(std::sync::Mutex::new(vec![0; actors.len()]));
    let ops_done2 = ops_done.clone();
    // latched: once an append was seen at the log writer without its seq mutex it stays a decision point
    // until it is granted (another actor taking the mutex meanwhile must not make it run at once)
    let early: Arc<std::sync::Mutex<Vec<bool>>> = Arc::new(std::sync::Mutex::new(vec![false; actors.len()]));
    let early2 = early.clone();
    let is_coarse = move |a: usize, p: &str| -> bool {
        if p == "cont.h_opdone" {
            return ops_done2.lock().unwrap().get(a).map(|d| d + 1 < n_ops[a]).unwrap_or(true);
        }
        if p == "log.before_lock" && holding3.lock().unwrap().get(a).cloned().unwrap_or(false) {
            let mut e = early2.lock().unwrap();
            if e[a] || store_p.verif_seq_free() {
                e[a] = true;
                return true;
            }
        }
        coarse(p)
    };
    let trace = sched.run(
        |en| {
            {
                let mut h = holding.lock().unwrap();
                for (a, p) in en.iter() {
                    if *p == "cont.h_opdone" || *p == "start" {
                        h[*a] = false;
                    }
                }
            }
            let granted = |a: usize, p: &str| {
                if p == "cont.h_opdone" {
                    ops_done.lock().unwrap()[a] += 1;
                }
                if p == "log.before_lock" {
                    early.lock().unwrap()[a] = false;
                }
            };
            if let Some(s) = sticky {
                if let Some((a, p)) = en.iter().find(|(a, _)| *a == s) {
                    if !is_coarse(*a, p) {
                        granted(*a, p);
                        return Some(*a);
                    }
                }
            }
            if let Some((a, p)) = en.iter().find(|(a, p)| !is_coarse(*a, p)) {
                sticky = Some(*a);
                granted(*a, p);
                return Some(*a);
            }
            if let Some((at, dest, seen)) = CRASH.lock().unwrap().as_mut() {
                if *seen == *at {
                    let _ = rv::sched::copy_dir(&crash_src, dest);
                }
                *seen += 1;
            }
            let i = if en.len() > 1 {
                let i = choose(choices.len(), en.len()).min(en.len() - 1);
                choices.push(i);
                widths.push(en.len());
                i
            } else {
                0
            };
            sticky = Some(en[i].0);
            if en[i].1 == "cont.before_lock" {
                holding.lock().unwrap()[en[i].0] = true;
            }
            granted(en[i].0, en[i].1);
            Some(en[i].0)
        },
        &enabled,
    );
    for h in handles {
        let _ = h.join();
    }
    Sched::uninstall();

    // ---- trace -> model schedule
    // the frames the (single) compaction actor appended: continuity frames of the job kinds, in file order
    let job_kinds: Vec<u64> = {
        let all = env.log_bytes();
        let added = if all.len() >= before.len() { parse_log(&all[before.len()..]).unwrap_or_default() } else { vec![] };
        added.iter().filter(|h| matches!(h.code, 9 | 10 | 11 | 12)).map(|h| h.code).collect()
    };
    let mut pcs: Vec<Pc> = actors.iter().map(|ops| Pc::new(ops, &job_kinds)).collect();
    let mut model_sched = vec![];
    for (i, (a, p)) in trace.steps.iter().enumerate() {
        let arrival = trace.steps[i + 1..].iter().find(|(b, _)| b == a).map(|(_, p)| *p).unwrap_or("done");
        // a run granted at sess.sent goes through EventLog::append: one emit of the model's session actor
        let mut n = if *p == "sess.sent" { pcs[*a].through(|m| m == M::SEmit) } else { 0 };
        n += pcs[*a].arrive(arrival);
        for _ in 0..n {
            model_sched.push(*a as u64);
        }
    }
    let inconclusive = trace.in_flight_timeouts > 0 || trace.deadlock;
    drop(engine);
    drop(engine_rt);

    // ---- independent oracle
    let after = env.log_bytes();
    let mut violation = None;
    let parsed = parse_log(&after);
    if !trace.panicked.is_empty() {
        violation = Some(("an actor panicked".to_string(), "panic".to_string()));
    } else if trace.deadlock {
        violation = Some(("no actor enabled although not all are done".to_string(), "scheduler_deadlock".to_string()));
    } else if after.len() < before.len() || after[..before.len()] != before[..] {
        violation = Some(("log content before the concurrent phase is no longer a prefix".into(), "log_prefix_changed".into()));
    } else {
        match &parsed {
            Err(e) => violation = Some((format!("events.jsonl is not whole frames: {e}"), "partial_frame".into())),
            Ok(hs) => {
                let fresh = rip_log::EventLog::new(env.log_path()).and_then(|l| l.replay_validated().map(|_| ()));
                let live = env.log.replay_validated().map(|_| ());
                let v = first_order_violation(hs);
                if v.is_some() || fresh.is_err() || live.is_err() {
                    let what = v.clone().or_else(|| fresh.err().map(|e| e.to_string())).or_else(|| live.err().map(|e| e.to_string())).unwrap_or_default();
                    violation = Some((what, classify(setup, hs, before.len(), &after)));
                }
            }
        }
    }
    let hs = parsed.unwrap_or_default();
    let mut obs = vec![if first_order_violation(&hs).is_none() { 1 } else { 0 }];
    obs.extend(canon_log(&hs));
    Leaf { model_sched, obs, violation, inconclusive, choices, widths, grants: trace.steps.len(), job_kinds }
}

fn coarse_task(p: &str) -> bool {
    p.starts_with("task.") || p == "start" || p == "log.before_lock"
}

/// >= 2 actors emitting on ONE task through the real TaskEmitter::emit (the stdout pump, the stderr
/// pump and the control paths of a task share its seq counter), under the step scheduler.
fn run_task_leaf(actors: &[Vec<Op>], choose: &mut dyn FnMut(usize, usize) -> usize) -> Leaf {
    let scratch = Scratch::new("c01t");
    let data_dir = scratch.path().join("data");
    let ws = scratch.path().join("ws");
    std::fs::create_dir_all(&data_dir).unwrap();
    std::fs::create_dir_all(&ws).unwrap();
    let rt = tokio::runtime::Builder::new_current_thread().enable_all().build().unwrap();
    let (_app, driver) = rt.block_on(async { ripd::verif::build_app_with_task_driver(data_dir.clone(), ws.clone()) });
    let log_path = data_dir.join("events.jsonl");
    let before = std::fs::read(&log_path).unwrap_or_default();
    let mut sched = Sched::new();
    if let Some(s) = Arc::get_mut(&mut sched) {
        s.step_timeout = Duration::from_secs(4);
    }
    sched.install();
    let mut handles = vec![];
    for (a, ops) in actors.iter().enumerate() {
        let d = driver.clone();
        let ops = ops.clone();
        handles.push(sched.spawn(a, move || {
            let rt = tokio::runtime::Builder::new_current_thread().enable_all().build().unwrap();
            for (k, op) in ops.iter().enumerate() {
                if let Op::TaskEmit { stderr } = op {
                    rt.block_on(d.emit_output(*stderr, &format!("a{a}k{k}")));
                }
                rip_kernel::verif::point("task.h_done");
            }
        }));
    }
    let d = driver.clone();
    let enabled = move |_a: usize, p: &'static str| -> bool {
        match p {
            "task.before_emit" => d.seq_free(),
            "task.seq_chosen" => d.buffer_free(),
            _ => true,
        }
    };
    let mut sticky: Option<usize> = None;
    let mut choices = vec![];
    let mut widths = vec![];
    let trace = sched.run(
        |en| {
            if let Some(s) = sticky {
                if let Some((a, p)) = en.iter().find(|(a, _)| *a == s) {
                    if !coarse_task(p) {
                        return Some(*a);
                    }
                }
            }
            if let Some((a, _)) = en.iter().find(|(_, p)| !coarse_task(p)) {
                sticky = Some(*a);
                return Some(*a);
            }
            let i = if en.len() > 1 {
                let i = choose(choices.len(), en.len()).min(en.len() - 1);
                choices.push(i);
                widths.push(en.len());
                i
            } else {
                0
            };
            sticky = Some(en[i].0);
            Some(en[i].0)
        },
        &enabled,
    );
    for h in handles {
        let _ = h.join();
    }
    Sched::uninstall();
    let mut pcs: Vec<Pc> = actors.iter().map(|ops| Pc::new(ops, &[])).collect();
    let mut model_sched = vec![];
    for (i, (a, _)) in trace.steps.iter().enumerate() {
        let arrival = trace.steps[i + 1..].iter().find(|(b, _)| b == a).map(|(_, p)| *p).unwrap_or("done");
        let n = pcs[*a].arrive(arrival);
        for _ in 0..n {
            model_sched.push(*a as u64);
        }
    }
    let inconclusive = trace.in_flight_timeouts > 0 || trace.deadlock;
    let after = std::fs::read(&log_path).unwrap_or_default();
    let mut violation = None;
    let suffix = if after.len() >= before.len() && after[..before.len()] == before[..] { after[before.len()..].to_vec() } else { vec![] };
    let parsed = parse_log(&suffix);
    if !trace.panicked.is_empty() {
        violation = Some(("an emitter panicked".to_string(), "panic".to_string()));
    } else if trace.deadlock {
        violation = Some(("no emitter enabled although not all are done".to_string(), "scheduler_deadlock".to_string()));
    } else if after.len() < before.len() || after[..before.len()] != before[..] {
        violation = Some(("log content before the emitters ran is no longer a prefix".into(), "log_prefix_changed".into()));
    } else {
        match &parsed {
            Err(e) => violation = Some((format!("events.jsonl is not whole frames: {e}"), "partial_frame".into())),
            Ok(hs) => {
                let fresh = rip_log::EventLog::new(&log_path).and_then(|l| l.replay_validated().map(|_| ()));
                let v = first_order_violation(hs);
                let expected: usize = actors.iter().map(|o| o.len()).sum();
                if v.is_some() || fresh.is_err() {
                    let what = v.clone().or_else(|| fresh.err().map(|e| e.to_string())).unwrap_or_default();
                    violation = Some((what, "task_stream_file_order".into()));
                } else if hs.len() != expected && !inconclusive {
                    violation = Some((format!("{} task frames in the log, {} emitted", hs.len(), expected), "task_frame_lost".into()));
                }
            }
        }
    }
    let hs = parsed.unwrap_or_default();
    let mut obs = vec![if first_order_violation(&hs).is_none() { 1 } else { 0 }];
    obs.extend(canon_log(&hs));
    drop(rt);
    Leaf { model_sched, obs, violation, inconclusive, choices, widths, grants: trace.steps.len(), job_kinds: vec![] }
}

/// free-running search: a real pipes task printing to stdout and stderr at once on a multi-thread
/// runtime; oracle only (file order of every stream, validated replay)
fn task_stress(ctx: &mut Ctx, lines: u32, seed: u64) {
    let scratch = Scratch::new("c01s");
    let data_dir = scratch.path().join("data");
    let ws = scratch.path().join("ws");
    std::fs::create_dir_all(&data_dir).unwrap();
    std::fs::create_dir_all(&ws).unwrap();
    let rt = tokio::runtime::Builder::new_multi_thread().worker_threads(4).enable_all().build().unwrap();
    let log_path = data_dir.join("events.jsonl");
    let done = rt.block_on(async {
        let engine = match ripd::SessionEngine::new(data_dir.clone(), ws.clone(), None) {
            Ok(e) => Arc::new(e),
            Err(_) => return false,
        };
        // a short pause per round so that the two pipes deliver many separate chunks (one frame each)
        let cmd = format!("for i in $(seq 1 {lines}); do echo out-$i-{seed}; echo err-$i-{seed} 1>&2; sleep 0.002; done");
        let id = ripd::verif::spawn_shell_task(&engine, "bash", json!({ "command": cmd }), false);
        // wait (generously) for the terminal status frame of the task
        for _ in 0..1200 {
            tokio::time::sleep(Duration::from_millis(50)).await;
            if let Ok(hs) = parse_log(&std::fs::read(&log_path).unwrap_or_default()) {
                let fin = hs.iter().any(|h| h.sid == id && matches!(&h.ev.kind, rip_kernel::EventKind::ToolTaskStatus { status, .. } if format!("{status:?}").to_lowercase().contains("exit") || format!("{status:?}").to_lowercase().contains("fail")));
                if fin {
                    tokio::time::sleep(Duration::from_millis(100)).await;
                    return true;
                }
            }
        }
        false
    });
    ctx.res.evaluations += 1;
    ctx.leaves += 1;
    ctx.res.oracle_checks += 1;
    ctx.res.bump("kind=task_stress_free_running");
    if !done {
        ctx.res.bump("task_stress_not_finished_in_time");
    }
    let bytes = std::fs::read(&log_path).unwrap_or_default();
    // an unterminated last line can only be the frame being written when we stopped waiting
    let cut = bytes.iter().rposition(|b| *b == b'\n').map(|i| i + 1).unwrap_or(0);
    match parse_log(&bytes[..cut]) {
        Err(e) => ctx.res.oracle_violations.push(OracleViolation { case_id: -1, what: format!("task stress: {e}"), class: "partial_frame".into(), replay: json!({"task_stress_lines": lines, "seed": seed}) }),
        Ok(hs) => {
            ctx.res.bump_by("task_stress_frames", hs.len() as u64);
            if let Some(v) = first_order_violation(&hs) {
                ctx.res.oracle_violations.push(OracleViolation { case_id: -1, what: format!("task stress (stdout and stderr pumps of one pipes task): {v}"), class: "task_stream_file_order".into(), replay: json!({"task_stress_lines": lines, "seed": seed}) });
                ctx.res.bump("violation=task_stream_file_order");
            }
        }
    }
    drop(rt);
}

/// free-running search (no scheduler: windows that lie between hook points): a thread with a few frames,
/// optionally a child whose lineage frame names it, then `rounds` times: authority restart (every counter
/// cold), 4 client threads released together by a spin gate each make one append to the thread (message,
/// run frames, side effects, cursor), one uncontended post.  Oracle only: every stream 0,1,2,.. in file
/// order, validated replay succeeds.
fn cold_counter_stress(ctx: &mut Ctx, seed: u64) {
    let mut r = Rng::new(seed ^ 0xc01d);
    let scratch = Scratch::new("c01c");
    let mut env = Env::open(scratch.path());
    env.store.ensure_default().expect("default thread");
    let ids = ids_of(&env);
    let id = id_at(&ids, 0);
    for k in 0..r.range(1, 4) {
        let _ = append_kind(&env.store, &id, 4, k);
    }
    let with_child = r.chance(1, 2);
    if with_child {
        let _ = env.store.branch(&id, None, None, None, "user".into(), "harness".into());
    }
    let rounds = 8;
    let kinds_all = [4u64, 4, 4, 5, 13, 14, 8];
    for round in 0..rounds {
        env.restart();
        let n = 4usize;
        let gate = std::sync::atomic::AtomicUsize::new(0);
        let kinds: Vec<u64> = (0..n).map(|i| if i < 2 { 4 } else { *r.pick(&kinds_all) }).collect();
        std::thread::scope(|sc| {
            for (i, k) in kinds.iter().enumerate() {
                let (gate, store, id) = (&gate, env.store.clone(), id.clone());
                let k = *k;
                sc.spawn(move || {
                    gate.fetch_add(1, std::sync::atomic::Ordering::SeqCst);
                    while gate.load(std::sync::atomic::Ordering::SeqCst) < n {
                        std::hint::spin_loop();
                    }
                    let _ = std::panic::catch_unwind(std::panic::AssertUnwindSafe(|| append_kind(&store, &id, k, (round * 10 + i) as u64)));
                });
            }
        });
        let _ = append_kind(&env.store, &id, 4, 99);
    }
    ctx.res.evaluations += 1;
    ctx.leaves += 1;
    ctx.res.oracle_checks += 1;
    ctx.res.bump("kind=cold_counter_stress_free_running");
    let bytes = env.log_bytes();
    let fresh = rip_log::EventLog::new(env.log_path()).and_then(|l| l.replay_validated().map(|_| ()));
    let replay = json!({"cold_counter_stress": {"seed": seed, "rounds": rounds, "clients": 4, "child_lineage_frame_names_the_thread": with_child}});
    match parse_log(&bytes) {
        Err(e) => ctx.res.oracle_violations.push(OracleViolation { case_id: -1, what: format!("cold counter stress: {e}"), class: "partial_frame".into(), replay }),
        Ok(hs) => {
            ctx.res.bump_by("cold_counter_stress_frames", hs.len() as u64);
            let v = first_order_violation(&hs);
            if v.is_some() || fresh.is_err() {
                let seqs: Vec<u64> = hs.iter().filter(|h| h.sid == id).map(|h| h.seq).collect();
                let what = format!("restart, then 4 clients append to one thread at the same instant ({rounds} rounds): {}; the thread reads {seqs:?} in file order", v.or_else(|| fresh.err().map(|e| e.to_string())).unwrap_or_default());
                if ctx.res.oracle_violations.len() < 20 {
                    ctx.res.oracle_violations.push(OracleViolation { case_id: -1, what, class: "cold_counter_first_writers_race".into(), replay });
                }
                ctx.res.bump("violation=cold_counter_first_writers_race");
            }
        }
    }
}

fn http_req(method: &str, uri: &str, body: Option<serde_json::Value>) -> axum::http::Request<axum::body::Body> {
    let b = axum::http::Request::builder().method(method).uri(uri);
    match body {
        Some(v) => b.header("content-type", "application/json").body(axum::body::Body::from(v.to_string())).unwrap(),
        None => b.body(axum::body::Body::empty()).unwrap(),
    }
}
async fn call_json(app: &axum::Router, r: axum::http::Request<axum::body::Body>) -> (u16, serde_json::Value) {
    use http_body_util::BodyExt;
    use tower::ServiceExt;
    let resp = app.clone().oneshot(r).await.expect("infallible");
    let st = resp.status().as_u16();
    let bytes = resp.into_body().collect().await.map(|b| b.to_bytes()).unwrap_or_default();
    (st, serde_json::from_slice(&bytes).unwrap_or(serde_json::Value::Null))
}

/// free-running search at the HTTP router (the glue the store-level cases do not see): on one authority,
/// all at once, released by a spin gate: clients posting messages to one thread (each post starts a linked
/// run: message, run_spawned, the run's session stream, run_ended), a client branching the thread and
/// posting to the child, one handing it off, one compaction checkpoint, a session getting two inputs, a
/// pipes task printing to stdout and stderr.  Oracle only: every stream of events.jsonl is 0,1,2,.. in
/// file order and a validated replay succeeds.
fn router_mix(ctx: &mut Ctx, seed: u64) {
    let mut r = Rng::new(seed ^ 0x7007);
    let scratch = Scratch::new("c01m");
    let data_dir = scratch.path().join("data");
    let ws = scratch.path().join("ws");
    std::fs::create_dir_all(&data_dir).unwrap();
    std::fs::create_dir_all(&ws).unwrap();
    let rt = tokio::runtime::Builder::new_multi_thread().worker_threads(4).enable_all().build().unwrap();
    let h = rt.handle().clone();
    let app = {
        let _g = rt.enter();
        ripd::verif::build_app(data_dir.clone(), ws.clone(), None)
    };
    let log_path = data_dir.join("events.jsonl");
    let (_, v) = h.block_on(call_json(&app, http_req("POST", "/threads/ensure", None)));
    let thread = v.get("thread_id").and_then(|x| x.as_str()).unwrap_or("").to_string();
    // a little history first, so that branch / handoff / checkpoint have something to cut
    let mut warm = 0u64;
    for k in 0..r.range(1, 3) {
        let (st, _) = h.block_on(call_json(&app, http_req("POST", &format!("/threads/{thread}/messages"), Some(json!({"content": format!("warm-up {k}")})))));
        if st == 202 {
            warm += 1;
        }
    }
    let posts = std::sync::atomic::AtomicU64::new(warm);
    let inputs = std::sync::atomic::AtomicU64::new(0);
    let tasks = std::sync::atomic::AtomicU64::new(0);
    let jobs = std::sync::atomic::AtomicU64::new(0);
    let n_clients = 8usize;
    let gate = std::sync::atomic::AtomicUsize::new(0);
    let lines = r.range(20, 60);
    std::thread::scope(|sc| {
        for c in 0..n_clients {
            let (app, h, thread, gate, posts, inputs, tasks, jobs) = (&app, &h, &thread, &gate, &posts, &inputs, &tasks, &jobs);
            sc.spawn(move || {
                use std::sync::atomic::Ordering::SeqCst;
                gate.fetch_add(1, SeqCst);
                while gate.load(SeqCst) < n_clients {
                    std::hint::spin_loop();
                }
                let post = |tid: &str, text: String| {
                    let (st, _) = h.block_on(call_json(app, http_req("POST", &format!("/threads/{tid}/messages"), Some(json!({"content": text})))));
                    if st == 202 {
                        posts.fetch_add(1, SeqCst);
                    }
                };
                let _ = std::panic::catch_unwind(std::panic::AssertUnwindSafe(|| match c {
                    0..=2 => {
                        for k in 0..2 {
                            post(thread, format!("client {c} message {k}"));
                        }
                    }
                    3 => {
                        let (st, v) = h.block_on(call_json(app, http_req("POST", &format!("/threads/{thread}/branch"), Some(json!({})))));
                        if let (true, Some(child)) = (st < 300, v.get("thread_id").and_then(|x| x.as_str())) {
                            post(child, "to the child".into());
                        }
                        post(thread, "after the branch".into());
                    }
                    4 => {
                        let (st, v) = h.block_on(call_json(app, http_req("POST", &format!("/threads/{thread}/handoff"), Some(json!({"summary_markdown": "# handed off"})))));
                        if let (true, Some(child)) = (st < 300, v.get("thread_id").and_then(|x| x.as_str())) {
                            post(child, "to the handoff".into());
                        }
                    }
                    5 => {
                        let _ = h.block_on(call_json(app, http_req("POST", &format!("/threads/{thread}/compaction-checkpoint"), Some(json!({"summary_markdown": "# checkpoint", "stride_messages": 1})))));
                        // a compaction job: its task appends job_spawned / checkpoint_created / job_ended while the posts go on
                        let (st, _) = h.block_on(call_json(app, http_req("POST", &format!("/threads/{thread}/compaction-auto"), Some(json!({"stride_messages": 1, "max_new_checkpoints": 2, "actor_id": "user", "origin": "harness"})))));
                        if st == 202 {
                            jobs.fetch_add(1, SeqCst);
                        }
                        post(thread, "after the checkpoint".into());
                    }
                    6 => {
                        let (_, v) = h.block_on(call_json(app, http_req("POST", "/sessions", None)));
                        if let Some(sid) = v.get("session_id").and_then(|x| x.as_str()) {
                            for k in 0..2 {
                                let (st, _) = h.block_on(call_json(app, http_req("POST", &format!("/sessions/{sid}/input"), Some(json!({"input": format!("unlinked input {k}")})))));
                                if st == 202 {
                                    inputs.fetch_add(1, SeqCst);
                                }
                            }
                        }
                    }
                    _ => {
                        // a pipes task printing to stdout and stderr; while it runs its control paths write to the same
                        // task stream: stdin written, signal, cancel (each emits frames through the task's one counter)
                        let cmd = format!("for i in $(seq 1 {lines}); do echo out-$i; echo err-$i 1>&2; sleep 0.003; done; cat");
                        let (st, v) = h.block_on(call_json(app, http_req("POST", "/tasks", Some(json!({"tool": "bash", "args": {"command": cmd}})))));
                        if st == 201 {
                            tasks.fetch_add(1, SeqCst);
                            if let Some(tid) = v.get("task_id").and_then(|x| x.as_str()) {
                                for k in 0..3 {
                                    std::thread::sleep(Duration::from_millis(15));
                                    let _ = h.block_on(call_json(app, http_req("POST", &format!("/tasks/{tid}/stdin"), Some(json!({"chunk_b64": "aGkK"})))));
                                    if k == 1 {
                                        let _ = h.block_on(call_json(app, http_req("POST", &format!("/tasks/{tid}/signal"), Some(json!({"signal": "SIGUSR1"})))));
                                    }
                                }
                                std::thread::sleep(Duration::from_millis(40));
                                let _ = h.block_on(call_json(app, http_req("POST", &format!("/tasks/{tid}/signal"), Some(json!({"signal": "INT"})))));
                                let _ = h.block_on(call_json(app, http_req("POST", &format!("/tasks/{tid}/cancel"), Some(json!({"reason": "harness"})))));
                            }
                        }
                    }
                }));
            });
        }
    });
    use std::sync::atomic::Ordering::SeqCst;
    let (posts, inputs, tasks, jobs) = (posts.load(SeqCst), inputs.load(SeqCst), tasks.load(SeqCst), jobs.load(SeqCst));
    let read = || -> Vec<Hdr> {
        let bytes = std::fs::read(&log_path).unwrap_or_default();
        let cut = bytes.iter().rposition(|b| *b == b'\n').map(|i| i + 1).unwrap_or(0);
        parse_log(&bytes[..cut]).unwrap_or_default()
    };
    // quiescence: every accepted post's run has its run_ended frame, every run its session_ended, the task a
    // terminal status; the clock only bounds a run that never ends (not this property's business)
    let mut quiet = false;
    for _ in 0..2400 {
        let hs = read();
        let run_ended = hs.iter().filter(|x| matches!(x.ev.kind, rip_kernel::EventKind::ContinuityRunEnded { .. })).count() as u64;
        let sess_ended = hs.iter().filter(|x| matches!(x.ev.kind, rip_kernel::EventKind::SessionEnded { .. })).count() as u64;
        let task_fin = hs.iter().filter(|x| matches!(&x.ev.kind, rip_kernel::EventKind::ToolTaskStatus { status, .. } if { let s = format!("{status:?}").to_lowercase(); s.contains("exit") || s.contains("fail") || s.contains("cancel") })).count() as u64;
        let job_ended = hs.iter().filter(|x| matches!(x.ev.kind, rip_kernel::EventKind::ContinuityJobEnded { .. })).count() as u64;
        if run_ended >= posts && sess_ended >= posts + inputs && task_fin >= tasks && job_ended >= jobs {
            std::thread::sleep(Duration::from_millis(150));
            quiet = true;
            break;
        }
        std::thread::sleep(Duration::from_millis(25));
    }
    ctx.res.evaluations += 1;
    ctx.leaves += 1;
    ctx.res.oracle_checks += 1;
    ctx.res.bump("kind=router_mix_free_running");
    ctx.res.bump_by("router_mix_posts_accepted", posts);
    if !quiet {
        ctx.res.bump("router_mix_not_quiet_in_time");
    }
    let hs = read();
    ctx.res.bump_by("router_mix_frames", hs.len() as u64);
    ctx.res.bump_by("router_mix_task_control_frames", hs.iter().filter(|x| matches!(x.code, 32 | 33 | 35 | 36 | 37)).count() as u64);
    ctx.res.bump_by("router_mix_job_and_checkpoint_frames", hs.iter().filter(|x| matches!(x.code, 9 | 10 | 11 | 12)).count() as u64);
    let streams: std::collections::BTreeSet<(u64, String)> = hs.iter().map(|x| (kind_code(x.kind), x.sid.clone())).collect();
    ctx.res.bump_by("router_mix_streams", streams.len() as u64);
    let fresh = if quiet { rip_log::EventLog::new(&log_path).and_then(|l| l.replay_validated().map(|_| ())) } else { Ok(()) };
    let v = first_order_violation(&hs);
    if v.is_some() || fresh.is_err() {
        let what = format!("router mix ({posts} posts, {inputs} session inputs, {tasks} task, branch, handoff, checkpoint at once): {}", v.or_else(|| fresh.err().map(|e| e.to_string())).unwrap_or_default());
        if ctx.res.oracle_violations.len() < 20 {
            ctx.res.oracle_violations.push(OracleViolation { case_id: -1, what, class: "router_mix_stream_file_order".into(), replay: json!({"router_mix": {"seed": seed}}) });
        }
        ctx.res.bump("violation=router_mix_stream_file_order");
    }
    drop(app);
    drop(rt);
}

/// A handful of provider-script sessions (run streams are written by session.rs with a run-local
/// counter threaded through the provider pipe and the tool runner): oracle only - every stream of the
/// final log is 0,1,2,.. in file order.
fn session_case(ctx: &mut Ctx, wsg: &mut CaseWriter, variant: usize) {
    use rv::provider::{sse_event, Scripted, SSE_DONE};
    let ev = |name: &str, v: serde_json::Value| sse_event(name, &v);
    let created = |r: &str| ev("response.created", json!({"type": "response.created", "sequence_number": 0, "response": {"id": r}}));
    let completed = |r: &str, n: u64| ev("response.completed", json!({"type": "response.completed", "sequence_number": n, "response": {"id": r}}));
    let delta = |n: u64| ev("response.output_text.delta", json!({"type": "response.output_text.delta", "sequence_number": n, "item_id": "m1", "output_index": 0, "content_index": 0, "delta": format!("d{n}")}));
    let call = |n: u64, name: &str, args: &str| {
        ev("response.output_item.done", json!({"type": "response.output_item.done", "sequence_number": n, "output_index": 0,
            "item": {"type": "function_call", "id": "fc_0", "call_id": "call_0", "name": name, "arguments": args, "status": "completed"}}))
    };
    let text_resp = |r: &str| Scripted::sse_text(&format!("{}{}{}{}", created(r), delta(1), completed(r, 2), SSE_DONE));
    let call_resp = |r: &str, name: &str, args: &str| Scripted::sse_text(&format!("{}{}{}{}", created(r), call(1, name, args), completed(r, 2), SSE_DONE));
    use rip_provider_openresponses::ToolChoiceParam as T;
    // (script, stateless_history, tool_choice)
    let (script, stateless, choice, label) = match variant {
        0 => (vec![text_resp("r0")], false, T::auto(), "text"),
        1 => (vec![call_resp("r0", "ls", "{\"path\":\".\"}"), text_resp("r1")], false, T::auto(), "ls_call_then_text"),
        2 => (vec![call_resp("r0", "ls", "{\"path\":\".\"}"), text_resp("r1")], true, T::auto(), "stateless_ls_call_then_text"),
        // the follow-up request replays a function call with an empty name: it fails local validation
        3 => (vec![call_resp("r0", "", "{}"), text_resp("r1")], true, T::auto(), "stateless_empty_name_call_invalid_followup"),
        4 => (vec![call_resp("r0", "no_such_tool", "{}"), text_resp("r1")], false, T::auto(), "unknown_tool_call"),
        // the very first request fails local validation
        5 => (vec![text_resp("r0")], false, T::new(json!({"type": "function"})), "invalid_tool_choice_first_request"),
        // a call the tool_choice bars (refused without running: tool_started + tool_failed built in session.rs)
        6 => (vec![call_resp("r0", "bash", "{\"command\":\"echo hi\"}"), text_resp("r1")], false, T::specific_function("ls"), "call_barred_by_tool_choice"),
        // a mutating call: automatic checkpoint frames before the tool frames, workspace lock taken
        7 => (vec![call_resp("r0", "write", "{\"path\":\"b.txt\",\"content\":\"x\"}"), text_resp("r1")], false, T::auto(), "write_call_with_checkpoint"),
        // provider answers 500: transport-error frame, then the closing frames
        _ => (vec![Scripted::http_error(500, "boom")], false, T::auto(), "http_500"),
    };
    run_scripted_session(ctx, wsg, label, script, stateless, choice, json!({"session_script": label}), 50);
}

/// one prompt session through the real engine (SessionEngine::spawn_session) against a local provider that
/// answers request k with script[k]; oracle: every stream of the log is 0,1,2,.. in file order and a
/// validated replay of a fresh EventLog succeeds; the session's stream is compared with the model's session actor
fn run_scripted_session(ctx: &mut Ctx, wsg: &mut CaseWriter, label: &str, script: Vec<rv::provider::Scripted>, stateless: bool, choice: rip_provider_openresponses::ToolChoiceParam, replay: serde_json::Value, poll_ms: u64) {
    use rv::provider::ScriptedProvider;
    let scratch = Scratch::new("c01r");
    let data_dir = scratch.path().join("data");
    let ws = scratch.path().join("ws");
    std::fs::create_dir_all(&data_dir).unwrap();
    std::fs::create_dir_all(&ws).unwrap();
    let _ = std::fs::write(ws.join("a.txt"), b"hello\n");
    let provider = ScriptedProvider::start(script);
    let cfg = ripd::verif::OpenResponsesConfig {
        endpoint: provider.url.clone(),
        api_key: None,
        model: Some("scripted".into()),
        headers: vec![],
        tool_choice: choice,
        followup_user_message: None,
        stateless_history: stateless,
        parallel_tool_calls: false,
    };
    let rt = tokio::runtime::Builder::new_multi_thread().worker_threads(2).enable_all().build().unwrap();
    let log_path = data_dir.join("events.jsonl");
    let ended = rt.block_on(async {
        let engine = match ripd::SessionEngine::new(data_dir.clone(), ws.clone(), None) {
            Ok(e) => e,
            Err(_) => return false,
        };
        let handle = engine.create_session();
        let sid = handle.session_id.clone();
        engine.spawn_session(handle, "do it".to_string(), None, Some(cfg));
        for _ in 0..(60_000 / poll_ms.max(1)) {
            tokio::time::sleep(Duration::from_millis(poll_ms)).await;
            let bytes = std::fs::read(&log_path).unwrap_or_default();
            let cut = bytes.iter().rposition(|b| *b == b'\n').map(|i| i + 1).unwrap_or(0);
            if let Ok(hs) = parse_log(&bytes[..cut]) {
                if hs.iter().any(|h| h.sid == sid && matches!(h.ev.kind, rip_kernel::EventKind::SessionEnded { .. })) {
                    tokio::time::sleep(Duration::from_millis(poll_ms * 3)).await;
                    return true;
                }
            }
        }
        false
    });
    ctx.res.evaluations += 1;
    ctx.leaves += 1;
    ctx.res.oracle_checks += 1;
    ctx.res.bump(&format!("kind=session_script_{label}"));
    if !ended {
        ctx.res.bump("session_not_ended_in_time");
    }
    let bytes = std::fs::read(&log_path).unwrap_or_default();
    let cut = bytes.iter().rposition(|b| *b == b'\n').map(|i| i + 1).unwrap_or(0);
    match parse_log(&bytes[..cut]) {
        Err(e) => ctx.res.oracle_violations.push(OracleViolation { case_id: -1, what: format!("session script {label}: {e}"), class: "partial_frame".into(), replay: replay.clone() }),
        Ok(hs) => {
            ctx.res.bump_by("session_script_frames", hs.len() as u64);
            // the run's stream against the session actor of the model (MSessEmit: frame at the run-local
            // counter, counter + 1): the frame kinds are taken from the file, the numbering is the model's
            if let (false, true, Some(first)) = (ctx.oracle_only, ended, hs.iter().find(|h| h.kind == rip_kernel::StreamKind::Session)) {
                let sid = first.sid.clone();
                let stream: Vec<&Hdr> = hs.iter().filter(|h| h.kind == rip_kernel::StreamKind::Session && h.sid == sid).collect();
                let in_order = stream.iter().enumerate().all(|(i, h)| h.seq == i as u64);
                let mut obs = vec![1, in_order as u64];
                for h in &stream {
                    obs.extend([0, h.seq, h.code]);
                }
                let id = wsg.push(format!(
                    "{{| sg_n := 1; sg_ts := [{}]; sg_sched := [0]; sg_expect := {} |}}",
                    stream.iter().map(|h| coq_etype(h.code)).collect::<Vec<_>>().join("; "),
                    coq_list_n(&obs)
                ));
                ctx.res.case_index.insert(id.to_string(), replay.clone());
            }
            let validated = rip_log::EventLog::new(log_path.clone()).and_then(|l| l.replay_validated()).map(|_| ()).map_err(|e| e.to_string());
            let what = match (first_order_violation(&hs), validated) {
                (Some(v), _) => Some(format!("session script {label}: {v}")),
                (None, Err(e)) => Some(format!("session script {label}: validated replay of the log fails: {e}")),
                _ => None,
            };
            if let Some(what) = what {
                if ctx.res.oracle_violations.len() < 20 {
                    ctx.res.oracle_violations.push(OracleViolation { case_id: -1, what, class: "session_stream_file_order".into(), replay: replay.clone() });
                }
                ctx.res.bump("violation=session_stream_file_order");
            }
        }
    }
    drop(rt);
    drop(provider);
}

// ---- concurrent inputs to ONE session.  The gate (`race`, `race_point`) is copied from
// harness/src/bin/c07.rs (builder run07b): `stepped = false` releases n OS threads together through a
// spin gate (a race, many rounds); `stepped = true` is deterministic - every caller is held at the
// rip_verif point `session.spawn.guarded` (after the started-guard, before the run task is spawned); the
// next caller starts only when the previous one sits at the point or has returned (condvar, no clock);
// then all are released.  With an atomic guard exactly one caller reaches the point, with
// check-then-set all n do and all n are accepted.
thread_local! {
    static RACER: std::cell::Cell<Option<usize>> = const { std::cell::Cell::new(None) };
}
#[derive(Default)]
struct RaceState {
    parked: std::collections::BTreeSet<usize>,
    finished: std::collections::BTreeSet<usize>,
    released: bool,
}
static RACE: std::sync::Mutex<Option<RaceState>> = std::sync::Mutex::new(None);
static RACE_CV: std::sync::Condvar = std::sync::Condvar::new();
/// how often a racer was seen parked at the guard point (tells whether the hook point exists in this tree)
static RACE_PARKS: std::sync::atomic::AtomicU64 = std::sync::atomic::AtomicU64::new(0);

/// called from the global hook
fn race_point() {
    let Some(me) = RACER.with(|r| r.get()) else { return };
    let mut g = RACE.lock().unwrap();
    let Some(st) = g.as_mut() else { return };
    st.parked.insert(me);
    RACE_PARKS.fetch_add(1, std::sync::atomic::Ordering::SeqCst);
    RACE_CV.notify_all();
    while !g.as_ref().map(|s| s.released).unwrap_or(true) {
        g = RACE_CV.wait(g).unwrap();
    }
}

/// `n` threads run `f(i)` (true = the input was accepted) against one session; returns how many were accepted
fn race<F: Fn(usize) -> bool + Sync>(n: usize, stepped: bool, f: F) -> u32 {
    use std::sync::atomic::Ordering;
    let gate = std::sync::atomic::AtomicUsize::new(0);
    *RACE.lock().unwrap() = if stepped { Some(RaceState::default()) } else { None };
    let accepted = std::thread::scope(|sc| {
        let mut hs = vec![];
        for i in 0..n {
            let (f, gate) = (&f, &gate);
            hs.push(sc.spawn(move || {
                if stepped {
                    RACER.with(|r| r.set(Some(i)));
                } else {
                    gate.fetch_add(1, Ordering::SeqCst);
                    while gate.load(Ordering::SeqCst) < n {
                        std::hint::spin_loop();
                    }
                }
                let ok = std::panic::catch_unwind(std::panic::AssertUnwindSafe(|| f(i))).unwrap_or(false);
                if stepped {
                    let mut g = RACE.lock().unwrap();
                    if let Some(st) = g.as_mut() {
                        st.finished.insert(i);
                    }
                    RACE_CV.notify_all();
                }
                ok
            }));
            if stepped {
                // the next thread starts only when this one sits at the guard point or is through (no clock involved)
                let mut g = RACE.lock().unwrap();
                while !g.as_ref().map(|s| s.parked.contains(&i) || s.finished.contains(&i)).unwrap_or(true) {
                    g = RACE_CV.wait(g).unwrap();
                }
            }
        }
        if stepped {
            if let Some(st) = RACE.lock().unwrap().as_mut() {
                st.released = true;
            }
            RACE_CV.notify_all();
        }
        hs.into_iter().map(|h| h.join().unwrap_or(false)).filter(|b| *b).count() as u32
    });
    *RACE.lock().unwrap() = None;
    accepted
}

/// the input of a raced session: the kernel's stub run, or a tool envelope (the run then threads its
/// counter through the tool runner: started / stdout / ended frames)
fn race_input(tool: bool, k: u32) -> String {
    if tool {
        json!({"tool": "ls", "args": {"path": "."}}).to_string()
    } else {
        format!("concurrent input {k}")
    }
}

/// `rounds` fresh sessions; to each, `n` clients post the same input at the same instant
/// (`SessionEngine::spawn_session` on clones of the handle - what POST /sessions/{id}/input calls).
/// Oracle (C01's, on the file): every stream of events.jsonl is 0,1,2,.. in file order and a validated
/// replay of a fresh EventLog succeeds.  Stepped rounds are also compared with the model
/// (Model/SessGuard.v: the guard as built, played on the forced schedule, then the accepted runs).
fn session_race(ctx: &mut Ctx, wsg: &mut CaseWriter, n: usize, stepped: bool, rounds: u32, tool: bool) {
    let scratch = Scratch::new("c01g");
    let data_dir = scratch.path().join("data");
    let ws = scratch.path().join("ws");
    std::fs::create_dir_all(&data_dir).unwrap();
    std::fs::create_dir_all(&ws).unwrap();
    let _ = std::fs::write(ws.join("a.txt"), b"hello\n");
    let rt = tokio::runtime::Builder::new_multi_thread().worker_threads(4).enable_all().build().unwrap();
    let log_path = data_dir.join("events.jsonl");
    let engine = {
        let _g = rt.enter();
        match ripd::SessionEngine::new(data_dir.clone(), ws.clone(), None) {
            Ok(e) => Arc::new(e),
            Err(_) => return,
        }
    };
    let read = |path: &std::path::Path| -> Vec<Hdr> {
        let bytes = std::fs::read(path).unwrap_or_default();
        let cut = bytes.iter().rposition(|b| *b == b'\n').map(|i| i + 1).unwrap_or(0);
        parse_log(&bytes[..cut]).unwrap_or_default()
    };
    let ended = |hs: &[Hdr]| hs.iter().filter(|h| matches!(h.ev.kind, rip_kernel::EventKind::SessionEnded { .. })).count() as u64;
    // generous and load-independent: waits for the frames, the clock only bounds a run that never ends
    let wait_ended = |want: u64| -> bool {
        for _ in 0..2400 {
            if ended(&read(&log_path)) >= want {
                std::thread::sleep(Duration::from_millis(60));
                return true;
            }
            std::thread::sleep(Duration::from_millis(25));
        }
        false
    };
    rip_kernel::verif::set_hook(Some(Arc::new(|name: &'static str| {
        if name == "session.spawn.guarded" {
            race_point();
        }
    })));
    // calibration: what ONE run of this input writes (an un-raced session)
    let h = rt.handle().clone();
    let cal = engine.create_session();
    {
        let _g = h.enter();
        engine.spawn_session(cal.clone(), race_input(tool, 0), None, None);
    }
    let cal_ok = wait_ended(1);
    let run_codes: Vec<u64> = read(&log_path).iter().filter(|x| x.sid == cal.session_id).map(|x| x.code).collect();
    let mut total: u64 = 1;
    let mut sessions: Vec<(String, u32)> = vec![];
    let parks_before = RACE_PARKS.load(std::sync::atomic::Ordering::SeqCst);
    for r in 0..rounds {
        let handle = engine.create_session();
        let text = race_input(tool, r + 1);
        let accepted = race(n, stepped, |_who| {
            let _g = h.enter();
            engine.spawn_session(handle.clone(), text.clone(), None, None)
        });
        total += accepted as u64;
        sessions.push((handle.session_id.clone(), accepted));
    }
    let done = cal_ok && wait_ended(total);
    rip_kernel::verif::set_hook(None);
    let parks = RACE_PARKS.load(std::sync::atomic::Ordering::SeqCst) - parks_before;
    let kind = format!("session_inputs_{}_{}x{}", if stepped { "stepped" } else { "raced" }, n, if tool { "tool" } else { "stub" });
    ctx.res.bump_by(&format!("kind={kind}"), rounds as u64);
    ctx.res.bump_by("session_race_inputs_accepted", total - 1);
    ctx.res.bump_by("session_race_inputs_sent", rounds as u64 * n as u64);
    if stepped {
        ctx.res.bump_by("session_race_parked_at_guard_point", parks);
    }
    if !done {
        ctx.res.bump("session_race_runs_not_ended_in_time");
    }
    let hs = read(&log_path);
    let fresh = rip_log::EventLog::new(&log_path).and_then(|l| l.replay_validated().map(|_| ()));
    let replay = |sid: &str, accepted: u32, seqs: &[u64]| json!({"session_inputs": {"clients": n, "stepped": stepped, "tool_input": tool, "accepted": accepted, "session": sid, "seqs_in_file_order": seqs}});
    let mut flagged = 0;
    for (sid, accepted) in &sessions {
        ctx.res.evaluations += 1;
        ctx.leaves += 1;
        ctx.res.oracle_checks += 1;
        let stream: Vec<&Hdr> = hs.iter().filter(|x| x.sid == *sid).collect();
        let seqs: Vec<u64> = stream.iter().map(|x| x.seq).collect();
        let in_order = seqs.iter().enumerate().all(|(i, s)| *s == i as u64);
        if n >= 2 {
            ctx.distinct.add(&format!("{kind}{sid}"));
        }
        let mut case_id = -1i64;
        if stepped && !ctx.oracle_only && done {
            let mut obs = vec![*accepted as u64, in_order as u64];
            for x in &stream {
                obs.extend([0, x.seq, x.code]);
            }
            // the forced schedule: every caller takes its first guard step in turn, then (check-then-set only)
            // the held callers take their second
            let sched: Vec<u64> = (0..n as u64).chain(0..n as u64).collect();
            let id = wsg.push(format!(
                "{{| sg_n := {}; sg_ts := [{}]; sg_sched := {}; sg_expect := {} |}}",
                n,
                run_codes.iter().map(|c| coq_etype(*c)).collect::<Vec<_>>().join("; "),
                coq_list_n(&sched),
                coq_list_n(&obs)
            ));
            case_id = id as i64;
            if ctx.res.case_index.len() < 3000 {
                ctx.res.case_index.insert(id.to_string(), replay(sid, *accepted, &seqs));
            }
        }
        if !in_order && flagged < 3 && ctx.res.oracle_violations.len() < 20 {
            flagged += 1;
            // executable class: a session stream that restarts at 0 while more than one input was accepted
            let class = if *accepted > 1 && seqs.iter().filter(|s| **s == 0).count() > 1 { "two_runs_write_one_session_stream" } else { "session_stream_file_order" };
            ctx.res.oracle_violations.push(OracleViolation {
                case_id,
                what: format!("{n} clients posted input to session {} at the same instant ({}): {accepted} accepted; its stream reads {seqs:?} in file order{}", &sid[..8], if stepped { "stepped through session.spawn.guarded" } else { "released together" }, fresh.as_ref().err().map(|e| format!("; validated replay: {e}")).unwrap_or_default()),
                class: class.into(),
                replay: replay(sid, *accepted, &seqs),
            });
            ctx.res.bump(&format!("violation={class}"));
        }
    }
    if let (Err(e), 0) = (&fresh, flagged) {
        if ctx.res.oracle_violations.len() < 20 {
            let class = first_order_violation(&hs).map(|_| "session_stream_file_order").unwrap_or("validated_replay_fails");
            ctx.res.oracle_violations.push(OracleViolation { case_id: -1, what: format!("concurrent session inputs ({kind}): validated replay fails: {e}"), class: class.into(), replay: json!({"session_inputs": {"clients": n, "stepped": stepped, "tool_input": tool}}) });
        }
    }
    if ctx.res.samples.len() < 3 {
        if let Some((sid, acc)) = sessions.first() {
            let seqs: Vec<u64> = hs.iter().filter(|x| x.sid == *sid).map(|x| x.seq).collect();
            ctx.res.samples.push(replay(sid, *acc, &seqs));
        }
    }
    drop(engine);
    drop(rt);
}

/// "histories that cross an authority restart": the authority dies at a chosen point of a schedule (image of
/// data dir + workspace taken while every actor is parked: a log line without its sidecar line, a child with its
/// creation frame and no lineage frame, an index entry without frames, ..), a new authority is started on the
/// image and every thread of the image gets appends (message, run frames, a branch, a compaction job).
/// Oracle only: every stream of the image's final log is 0,1,2,.. in file order, validated replay succeeds.
fn crash_then_continue(ctx: &mut Ctx, case: &Case, r: &mut Rng, at: usize) {
    if ctx.stop() {
        return;
    }
    let image = Scratch::new("c01x");
    *CRASH.lock().unwrap() = Some((at, image.path().to_path_buf(), 0));
    let _ = run_leaf(&case.setup, &case.actors, &mut |_i, w| r.below(w as u64) as usize);
    let seen = CRASH.lock().unwrap().take().map(|c| c.2).unwrap_or(0);
    ctx.res.evaluations += 1;
    ctx.leaves += 1;
    ctx.res.bump("kind=crash_at_schedule_point_then_restart");
    if seen <= at || !image.path().join("data").join("events.jsonl").exists() {
        ctx.res.bump("crash_point_beyond_schedule");
        return;
    }
    // an image whose log does not end at a line boundary can only come from an actor the scheduler had given
    // up waiting for (in flight on an overloaded box) and that was writing while the copy ran; what a restart
    // does with a torn tail is another property's business (C02 / C05)
    if std::fs::read(image.path().join("data").join("events.jsonl")).map(|b| b.last().map(|c| *c != b'\n').unwrap_or(false)).unwrap_or(true) {
        ctx.res.bump("crash_image_torn_tail_skipped");
        return;
    }
    ctx.res.oracle_checks += 1;
    let env = Env::open(image.path());
    let crashed = env.log_bytes();
    // the image may end in a partial line only if the log writer was caught mid-append: it never is (actors
    // park outside the write), so the image must parse
    let hs0 = match parse_log(&crashed) {
        Ok(h) => h,
        Err(e) => {
            ctx.res.oracle_violations.push(OracleViolation { case_id: -1, what: format!("crash image at step {at}: {e}"), class: "partial_frame".into(), replay: json!({"crash_at": at, "case": case.json(&[])}) });
            return;
        }
    };
    let ids = created_ids(&hs0);
    let _ = env.store.ensure_default();
    for (k, id) in ids.iter().enumerate() {
        let _ = append_kind(&env.store, id, 4, k as u64);
        let _ = append_kind(&env.store, id, *r.pick(&[5u64, 13, 14, 8]), k as u64);
    }
    if let Some(id) = ids.first() {
        let _ = env.store.branch(id, None, None, None, "user".into(), "harness".into());
        let _ = env.store.compaction_auto_v1(id, CompactionAutoV1Request { stride_messages: Some(1), max_new_checkpoints: Some(1), dry_run: Some(false), actor_id: "user".into(), origin: "harness".into() });
        let _ = append_kind(&env.store, id, 4, 77);
    }
    let after = env.log_bytes();
    let fresh = rip_log::EventLog::new(env.log_path()).and_then(|l| l.replay_validated().map(|_| ()));
    let v = parse_log(&after).map_err(|e| e.to_string()).and_then(|hs| match first_order_violation(&hs) {
        Some(v) => Err(v),
        None => Ok(hs.len()),
    });
    ctx.res.bump_by("crash_image_frames", hs0.len() as u64);
    let prefix_ok = after.len() >= crashed.len() && after[..crashed.len()] == crashed[..];
    if v.is_err() || fresh.is_err() || !prefix_ok {
        let what = format!("authority killed at scheduling step {at} of {seen}, restarted on the image, appends to every thread: {}", v.err().or_else(|| fresh.err().map(|e| e.to_string())).unwrap_or_else(|| "the image's log is no longer a prefix".into()));
        if ctx.res.oracle_violations.len() < 20 {
            ctx.res.oracle_violations.push(OracleViolation { case_id: -1, what, class: "order_broken_after_crash_restart".into(), replay: json!({"crash_at": at, "case": case.json(&[])}) });
        }
        ctx.res.bump("violation=order_broken_after_crash_restart");
    }
}

/// the frame kinds one un-raced run of the stub input / the `ls` envelope writes
fn calibrate_run(tool: bool) -> Vec<u64> {
    let scratch = Scratch::new("c01k");
    let data_dir = scratch.path().join("data");
    let ws = scratch.path().join("ws");
    std::fs::create_dir_all(&data_dir).unwrap();
    std::fs::create_dir_all(&ws).unwrap();
    let _ = std::fs::write(ws.join("a.txt"), b"hello\n");
    let rt = tokio::runtime::Builder::new_current_thread().enable_all().build().unwrap();
    let engine = {
        let _g = rt.enter();
        match ripd::SessionEngine::new(data_dir.clone(), ws, None) {
            Ok(e) => Arc::new(e),
            Err(_) => return vec![],
        }
    };
    let handle = engine.create_session();
    let sid = handle.session_id.clone();
    rt.block_on(ripd::verif::run_session_inline(&engine, handle, race_input(tool, 0), None));
    let hs = parse_log(&std::fs::read(data_dir.join("events.jsonl")).unwrap_or_default()).unwrap_or_default();
    hs.iter().filter(|h| h.sid == sid).map(|h| h.code).collect()
}

/// executable class of an order violation (computed on the failing case)
fn classify(setup: &[Setup], hs: &[Hdr], before_len: usize, after: &[u8]) -> String {
    // which stream is broken, and was that thread created during the concurrent phase?
    let mut exp: std::collections::HashMap<String, u64> = Default::default();
    let mut broken: Option<String> = None;
    for h in hs {
        let e = exp.entry(h.sid.clone()).or_insert(0);
        if h.seq != *e {
            match h.kind {
                rip_kernel::StreamKind::Session => return "session_stream_file_order".into(),
                rip_kernel::StreamKind::Task => return "task_stream_file_order".into(),
                _ => {}
            }
            broken = Some(h.sid.clone());
            break;
        }
        *e += 1;
    }
    let old_ids = created_ids(&parse_log(&after[..before_len]).unwrap_or_default());
    let stale_restart = {
        // a well-formed stale prefix (cut at a line boundary) followed by a restart
        let mut armed = false;
        let mut hit = false;
        for s in setup {
            match s {
                Setup::Fault { x: Fault::CutLine, .. } | Setup::Fault { x: Fault::Rollback(_), .. } => armed = true,
                Setup::Restart if armed => hit = true,
                _ => {}
            }
        }
        hit
    };
    match broken {
        Some(id) if !old_ids.contains(&id) => "child_lineage_frame_races_with_post".into(),
        Some(_) if stale_restart => "stale_sidecar_prefix_reissues_seq".into(),
        _ => "seq_order_violation".into(),
    }
}

struct Case {
    setup: Vec<Setup>,
    actors: Vec<Vec<Op>>,
}
impl Case {
    fn is_mix(&self) -> bool {
        self.actors.iter().flatten().any(|o| matches!(o, Op::SessRun { .. } | Op::CompactionAuto { .. }))
    }
    fn coq(&self, leaf: &Leaf) -> String {
        if self.is_mix() {
            return format!(
                "{{| mx_setup := [KCap CapEnsureDefault 0%nat fact_ok{}{}]; mx_actors := [{}]; mx_sched := {}; mx_expect := {} |}}",
                if self.setup.is_empty() { "" } else { "; " },
                self.setup.iter().map(setup_coq).collect::<Vec<_>>().join("; "),
                self.actors.iter().map(|ops| format!("[{}]", ops.iter().map(|o| mop_coq(o, &leaf.job_kinds)).collect::<Vec<_>>().join("; "))).collect::<Vec<_>>().join("; "),
                coq_list_n(&leaf.model_sched),
                coq_list_n(&leaf.obs)
            );
        }
        if self.actors.iter().flatten().any(|o| matches!(o, Op::TaskEmit { .. })) {
            return format!(
                "{{| c1_setup := []; c1_actors := [{}]; c1_sched := {}; c1_expect := {} |}}",
                self.actors.iter().map(|ops| format!("[{}]", ops.iter().map(op_coq).collect::<Vec<_>>().join("; "))).collect::<Vec<_>>().join("; "),
                coq_list_n(&leaf.model_sched),
                coq_list_n(&leaf.obs)
            );
        }
        format!(
            "{{| c1_setup := [KCap CapEnsureDefault 0%nat fact_ok{}{}]; c1_actors := [{}]; c1_sched := {}; c1_expect := {} |}}",
            if self.setup.is_empty() { "" } else { "; " },
            self.setup.iter().map(setup_coq).collect::<Vec<_>>().join("; "),
            self.actors.iter().map(|ops| format!("[{}]", ops.iter().map(op_coq).collect::<Vec<_>>().join("; "))).collect::<Vec<_>>().join("; "),
            coq_list_n(&leaf.model_sched),
            coq_list_n(&leaf.obs)
        )
    }
    fn json(&self, choices: &[usize]) -> serde_json::Value {
        json!({"setup": format!("{:?}", self.setup), "actors": format!("{:?}", self.actors), "choices": choices})
    }
}

struct Ctx {
    deadline: std::time::Instant,
    res: RunResult,
    w: CaseWriter,
    wmx: CaseWriter,
    distinct: Distinct,
    oracle_only: bool,
    leaves: u64,
    t_mark: std::time::Instant,
}
impl Ctx {
    /// wall-clock budget used up, or enough violations collected
    fn stop(&mut self) -> bool {
        if std::time::Instant::now() > self.deadline || self.res.oracle_violations.len() >= 20 {
            self.res.bump("stopped_early_budget_or_violations");
            true
        } else {
            false
        }
    }
    /// wall time since the previous mark, booked under `what` (where the quick tier's time goes)
    fn mark(&mut self, what: &str) {
        let now = std::time::Instant::now();
        self.res.bump_by(&format!("wall_ms={what}"), now.duration_since(self.t_mark).as_millis() as u64);
        self.t_mark = now;
    }
    fn record(&mut self, case: &Case, leaf: &Leaf, kind: &str) {
        self.mark(kind);
        self.res.evaluations += 1;
        self.leaves += 1;
        self.res.oracle_checks += 1;
        self.res.bump(&format!("kind={kind}"));
        self.res.bump_by("grants", leaf.grants as u64);
        self.res.bump_by("decisions", leaf.choices.len() as u64);
        self.res.bump(&format!("actors={}", case.actors.len()));
        let id_for_violation;
        if leaf.inconclusive && leaf.violation.is_none() {
            self.res.bump("inconclusive_not_compared");
            id_for_violation = -1;
        } else if !self.oracle_only {
            let id = if case.is_mix() { self.wmx.push(case.coq(leaf)) } else { self.w.push(case.coq(leaf)) };
            id_for_violation = id as i64;
            if self.res.case_index.len() < 3000 {
                self.res.case_index.insert(id.to_string(), case.json(&leaf.choices));
            }
        } else {
            id_for_violation = -1;
        }
        if let Some((what, class)) = &leaf.violation {
            if self.res.oracle_violations.len() < 20 {
                self.res.oracle_violations.push(OracleViolation { case_id: id_for_violation, what: what.clone(), class: class.clone(), replay: case.json(&leaf.choices) });
            }
            self.res.bump(&format!("violation={class}"));
        }
        if leaf.choices.len() >= 2 {
            self.distinct.add(&format!("{:?}{:?}{:?}", case.setup, case.actors, leaf.choices));
        }
        if self.res.samples.len() < 2 && leaf.choices.len() >= 3 {
            self.res.samples.push(case.json(&leaf.choices));
        }
    }
}

/// all interleavings (DFS over the tree of enabled actors), at most `cap` leaves
fn exhaustive(ctx: &mut Ctx, case: &Case, cap: usize, kind: &str) {
    let mut prefix: Vec<usize> = vec![];
    let mut n = 0;
    let mut blocked = 0;
    let is_task = case.actors.iter().flatten().any(|o| matches!(o, Op::TaskEmit { .. }));
    loop {
        if ctx.stop() {
            break;
        }
        let p = prefix.clone();
        let leaf = if is_task {
            run_task_leaf(&case.actors, &mut |i, _w| p.get(i).cloned().unwrap_or(0))
        } else {
            run_leaf(&case.setup, &case.actors, &mut |i, _w| p.get(i).cloned().unwrap_or(0))
        };
        ctx.record(case, &leaf, kind);
        n += 1;
        // an actor that blocks on a lock the harness does not know about costs the in-flight timeout on
        // every leaf: after a few such leaves the group is given up (coverage is lost, nothing is
        // concluded) so that the wall budget is left for the other groups
        if leaf.inconclusive {
            blocked += 1;
            if blocked >= 4 {
                ctx.res.bump("group_abandoned_actor_blocked_on_unknown_lock");
                break;
            }
        }
        // next prefix: rightmost decision that still has an untried alternative
        let mut next = None;
        for i in (0..leaf.choices.len()).rev() {
            if leaf.choices[i] + 1 < leaf.widths[i] {
                let mut q = leaf.choices[..i].to_vec();
                q.push(leaf.choices[i] + 1);
                next = Some(q);
                break;
            }
        }
        match next {
            Some(q) if n < cap => prefix = q,
            Some(_) => {
                ctx.res.bump("exhaustive_capped");
                // depth-first enumeration varies the LAST decisions first: a capped group has only seen schedules
                // that differ near the end, so a third as many sampled schedules are added (uniform choice at
                // every decision, seeded by the group's position)
                if !is_task {
                    let mut rr = Rng::new(0x5a17 ^ (ctx.leaves << 8) ^ cap as u64);
                    for _ in 0..(cap / 3).max(4) {
                        if ctx.stop() {
                            break;
                        }
                        let leaf = run_leaf(&case.setup, &case.actors, &mut |_i, w| rr.below(w as u64) as usize);
                        ctx.record(case, &leaf, &format!("{kind}_sampled"));
                    }
                }
                break;
            }
            None => {
                ctx.res.bump("exhaustive_complete");
                break;
            }
        }
    }
}

fn random_leaf(ctx: &mut Ctx, case: &Case, r: &mut Rng, kind: &str) {
    if ctx.stop() {
        return;
    }
    let leaf = run_leaf(&case.setup, &case.actors, &mut |_i, w| r.below(w as u64) as usize);
    ctx.record(case, &leaf, kind);
}

fn gen_op(r: &mut Rng, threads: usize) -> Op {
    let th = if r.chance(1, 12) { 99 } else { r.below(threads as u64) as usize };
    match r.below(20) {
        0..=6 => Op::Append { t: 4, th },
        7 => Op::Append { t: 5, th },
        8 => Op::Append { t: 13, th },
        9 => Op::Append { t: 14, th },
        10 => Op::Append { t: *r.pick(&[6u64, 7, 8]), th },
        11..=13 => Op::PostNewest,
        14 | 15 => Op::Branch { th: th.min(threads - 1) },
        16 => Op::Handoff { th: th.min(threads - 1) },
        _ => Op::Read { th },
    }
}

fn gen_setup(r: &mut Rng, with_restart: bool) -> (Vec<Setup>, usize) {
    let mut s = vec![];
    let mut threads = 1usize;
    for _ in 0..r.range(0, 5) {
        let th = r.below(threads as u64) as usize;
        match r.below(6) {
            0..=3 => s.push(Setup::Msg { th }),
            4 => s.push(Setup::Run { th }),
            _ => {
                s.push(Setup::Branch { th });
                threads += 1;
            }
        }
    }
    if with_restart {
        let th = r.below(threads as u64) as usize;
        // faults after which the sidecar is absent, unparsable at its tail, or still equal to the stream
        // (Coherent); the stale-prefix faults are exercised by the dedicated S3 cases
        match r.below(4) {
            0 => s.push(Setup::Fault { x: Fault::Delete, th }),
            1 => s.push(Setup::Fault { x: Fault::TearTail, th }),
            2 => s.push(Setup::Fault { x: Fault::Empty, th }),
            _ => {}
        }
        s.push(Setup::Restart);
    }
    (s, threads)
}

fn main() {
    let a = parse_args();
    // no configuration of the machine may leak into the runs the router starts
    for (k, _) in std::env::vars() {
        if k.starts_with("RIP_") || k == "OPENAI_API_KEY" || k == "OPENROUTER_API_KEY" {
            std::env::remove_var(&k);
        }
    }
    let cfg_home = Scratch::new("c01cfg");
    std::env::set_var("RIP_CONFIG_HOME", cfg_home.path());
    let mut res = RunResult::new("C01", &a);
    res.rule = "case = sequential setup history on the real ContinuityStore (messages, runs, branches, sidecar faults, restart) followed by 2-4 concurrent actors (locked appends of 7 kinds, post-to-newest-listed, branch, handoff, replay) run on OS threads under the controlled scheduler; one evaluation = one complete schedule (leaf); exhaustive = every interleaving of two one-call actors at the cont.* points; non-trivial = at least two real scheduling decisions; distinct by (setup, actors, decision list)".into();
    let w = CaseWriter::new(&a.out, "Model.Frames Model.Log Model.ContStore", "check_case_c01", "model_obs_c01", 40);
    let budget = if a.thorough() { 1200 } else { 300 };
    let wmx = CaseWriter::new(&a.out.join("mix"), "Model.Frames Model.Log Model.ContStore Model.SessGuard", "check_case_mix", "model_obs_mix", 40).with_base(2_000_000);
    let _ = RUN_CODES.set([calibrate_run(false), calibrate_run(true)]);
    let mut ctx = Ctx { deadline: std::time::Instant::now() + Duration::from_secs(budget), res, w, wmx, distinct: Distinct::default(), oracle_only: a.oracle_only(), leaves: 0, t_mark: std::time::Instant::now() };
    ctx.res.notes.push(format!("frames of one run (etype codes): stub {:?}, ls envelope {:?}", run_codes(false), run_codes(true)));
    let mut r = Rng::new(a.seed);
    let thorough = a.thorough();

    // `--only crash` (self-tests): nothing but the crash-image group
    let only_crash = a.extra.get("only").map(|v| v == "crash").unwrap_or(false);
    // `--only seq` (self-tests): nothing but the counter-vs-frames groups (provider pipe, refused log writes)
    let only_seq = a.extra.get("only").map(|v| v == "seq").unwrap_or(false);
    'pre: {
    if only_crash || only_seq {
        break 'pre;
    }
    // ---- corpus: S3 (stale prefix + restart)
    for x in [Fault::CutLine, Fault::Rollback(2)] {
        let s3 = Case {
            setup: vec![Setup::Msg { th: 0 }, Setup::Msg { th: 0 }, Setup::Msg { th: 0 }, Setup::Fault { x, th: 0 }, Setup::Restart],
            actors: vec![vec![Op::Append { t: 4, th: 0 }], vec![Op::Append { t: 5, th: 0 }]],
        };
        exhaustive(&mut ctx, &s3, 30, "corpus_s3_stale_prefix_restart");
    }

    // ---- a READ between the restart and the first append (stale well-formed sidecar prefix): the read
    // path must not influence the numbering
    for x in [Fault::CutLine, Fault::Rollback(2)] {
        let case = Case {
            setup: vec![Setup::Msg { th: 0 }, Setup::Msg { th: 0 }, Setup::Msg { th: 0 }, Setup::Fault { x, th: 0 }, Setup::Restart],
            actors: vec![vec![Op::Read { th: 0 }, Op::Append { t: 4, th: 0 }], vec![Op::Append { t: 5, th: 0 }]],
        };
        exhaustive(&mut ctx, &case, 40, "corpus_stale_prefix_restart_read_then_append");
    }

    // ---- cold counter: the FIRST writers of a thread after a restart (every append function recovers the
    // next seq from the log on first use): message x message, every hook-reachable append function x
    // message, three writers; with and without a lineage frame of a child naming the thread at the log's end
    for (k, branch_before) in [(4u64, false), (4, true), (5, false), (13, false), (14, true), (6, false), (7, false), (8, true)] {
        let mut setup = vec![Setup::Msg { th: 0 }, Setup::Msg { th: 0 }];
        if branch_before {
            setup.push(Setup::Branch { th: 0 });
        }
        setup.push(Setup::Restart);
        let case = Case { setup, actors: vec![vec![Op::Append { t: 4, th: 0 }], vec![Op::Append { t: k, th: 0 }]] };
        exhaustive(&mut ctx, &case, if thorough { 200 } else { 22 }, "exhaustive_cold_counter_first_writers");
        // sampled schedules as well: the depth-first order varies the LAST decisions first, and a group is
        // given up when actors block on a lock the harness does not know about
        for _ in 0..(if thorough { 60 } else { 8 }) {
            random_leaf(&mut ctx, &case, &mut r, "random_cold_counter_first_writers");
        }
    }
    {
        let setup = vec![Setup::Msg { th: 0 }, Setup::Run { th: 0 }, Setup::Branch { th: 0 }, Setup::Restart];
        let case = Case { setup, actors: vec![vec![Op::Append { t: 4, th: 0 }], vec![Op::Append { t: 4, th: 0 }], vec![Op::Append { t: 13, th: 0 }, Op::Append { t: 4, th: 1 }]] };
        exhaustive(&mut ctx, &case, if thorough { 300 } else { 40 }, "exhaustive_cold_counter_first_writers");
        for _ in 0..(if thorough { 100 } else { 12 }) {
            random_leaf(&mut ctx, &case, &mut r, "random_cold_counter_first_writers");
        }
    }
    for k in 0..(if thorough { 40 } else { 6 }) {
        if !ctx.stop() {
            cold_counter_stress(&mut ctx, a.seed * 1000 + k);
            ctx.mark("cold_counter_stress");
        }
    }

    }
    // ---- the counter and the frames in the log (Model/SeqCount.v): the provider pipe borrowing the run-local
    // counter, and log writes that fail at every continuity writer while the authority keeps running
    let mut wsg = CaseWriter::new(&a.out.join("sg"), "Model.Frames Model.Log Model.ContStore Model.SessGuard", "check_case_sg", "model_obs_sg", 40).with_base(1_000_000);
    let mut wpc = CaseWriter::new(&a.out.join("pc"), "Model.Frames Model.Log Model.ContStore Model.SessGuard Model.SeqCount", "check_case_pc", "model_obs_pc", 40).with_base(3_000_000);
    let mut waf = CaseWriter::new(&a.out.join("af"), "Model.Frames Model.Log Model.ContStore Model.SessGuard Model.SeqCount", "check_case_af", "model_obs_af", 40).with_base(4_000_000);
    let mut wsw = CaseWriter::new(&a.out.join("sw"), "Model.Frames Model.Log Model.ContStore Model.C02Decide Model.SeqCreate", "check_case_sw", "model_obs_sw", 20).with_base(7_000_000);
    let mut whd = CaseWriter::new(&a.out.join("hd"), "Model.WireRun Gen.RequestHead", "check_head", "head_obs", 200).with_base(6_000_000);
    if !only_crash {
        // session streams under every configuration switch session.rs branches on (request capture, stateless, tool_choice, ..)
        confmatrix::config_matrix(&mut ctx, &mut wsg, &mut whd, a.seed, thorough);
        let mut r2 = Rng::new(a.seed ^ 0x5e9c_0417);
        seqcount::pipe_threaded(&mut ctx, &mut wpc, &mut r2, if thorough { 1500 } else { 150 });
        seqcount::grammar_sessions(&mut ctx, &mut wsg, &mut r2, if thorough { 120 } else { 20 });
        seqcount::append_failures(&mut ctx, &mut waf, &mut r2, thorough);
        seqcount::session_refused_write(&mut ctx);
        // the STORE's side write (continuities/index.json) fails around every creating call, then the retry
        sidewrites::store_side_write_failures(&mut ctx, &mut wsw, &mut r2, thorough);
    }
    if only_seq {
        ctx.deadline = std::time::Instant::now();
    }

    // ---- the authority dies at a point of a schedule (every coarse step of a few cases, sampled ones of random cases)
    {
        let cases = vec![
            Case { setup: vec![Setup::Msg { th: 0 }], actors: vec![vec![Op::Branch { th: 0 }], vec![Op::PostNewest]] },
            Case { setup: vec![Setup::Msg { th: 0 }, Setup::Msg { th: 0 }], actors: vec![vec![Op::Handoff { th: 0 }, Op::Append { t: 4, th: 1 }], vec![Op::Append { t: 13, th: 0 }]] },
            Case { setup: vec![Setup::Msg { th: 0 }, Setup::Msg { th: 0 }, Setup::Msg { th: 0 }], actors: vec![vec![Op::CompactionAuto { th: 0, schedule: true }], vec![Op::Append { t: 4, th: 0 }]] },
        ];
        for case in &cases {
            for at in 0..(if thorough { 60 } else { 24 }) {
                crash_then_continue(&mut ctx, case, &mut r, at);
            }
            ctx.mark("crash_at_schedule_point_then_restart");
        }
        for _ in 0..(if thorough { 300 } else { 30 }) {
            let (setup, threads) = gen_setup(&mut r, false);
            let na = r.range(2, 3) as usize;
            let actors: Vec<Vec<Op>> = (0..na).map(|_| (0..r.range(1, 2)).map(|_| gen_op(&mut r, threads)).collect()).collect();
            let at = r.below(30) as usize;
            crash_then_continue(&mut ctx, &Case { setup, actors }, &mut r, at);
        }
        ctx.mark("crash_at_schedule_point_then_restart");
    }

    if only_crash {
        ctx.deadline = std::time::Instant::now();
    }
    // ---- corpus S5 (child lineage frame vs a post to the freshly listed child)
    let s5 = Case { setup: vec![Setup::Msg { th: 0 }], actors: vec![vec![Op::Branch { th: 0 }], vec![Op::PostNewest]] };
    exhaustive(&mut ctx, &s5, if thorough { 1500 } else { 400 }, "corpus_s5_branch_vs_post_newest");
    let s5h = Case { setup: vec![Setup::Msg { th: 0 }], actors: vec![vec![Op::Handoff { th: 0 }], vec![Op::PostNewest]] };
    exhaustive(&mut ctx, &s5h, if thorough { 800 } else { 150 }, "corpus_s5_handoff_vs_post_newest");

    // ---- task stream: concurrent emitters of ONE task (stdout pump, stderr pump, control path)
    let e = |stderr: bool| Op::TaskEmit { stderr };
    let task_cases: Vec<Vec<Vec<Op>>> = vec![
        vec![vec![e(false)], vec![e(true)]],
        vec![vec![e(false), e(false)], vec![e(true), e(true)]],
        vec![vec![e(false)], vec![e(true)], vec![e(false)]],
    ];
    for (i, actors) in task_cases.into_iter().enumerate() {
        let case = Case { setup: vec![], actors };
        exhaustive(&mut ctx, &case, if thorough { 600 } else { [60, 120, 120][i] }, "exhaustive_task_emitters");
    }
    for k in 0..(if thorough { 12 } else { 2 }) {
        if !ctx.stop() {
            task_stress(&mut ctx, if thorough { 400 } else { 150 }, a.seed * 100 + k);
            ctx.mark("task_stress");
        }
    }

    // ---- runs next to store writers under the scheduler (compared with the model: check_case_mix)
    let run = |tool: bool, link: Option<usize>| Op::SessRun { tool, link };
    let mixes: Vec<(Vec<Setup>, Vec<Vec<Op>>, usize)> = vec![
        (vec![], vec![vec![run(false, None)], vec![run(false, None)]], 30),
        (vec![Setup::Msg { th: 0 }], vec![vec![run(false, Some(0))], vec![Op::Append { t: 4, th: 0 }]], 40),
        (vec![Setup::Msg { th: 0 }], vec![vec![run(false, Some(0))], vec![run(true, Some(0))]], 40),
        (vec![Setup::Msg { th: 0 }, Setup::Branch { th: 0 }], vec![vec![run(true, None)], vec![run(false, Some(1))], vec![Op::Branch { th: 0 }, Op::Append { t: 13, th: 1 }]], 40),
    ];
    // a compaction job run to completion (job_spawned, checkpoint_created x k, job_ended through the private
    // append functions) against a message append / a linked run / a branch on the same thread
    let msgs = |n: usize| -> Vec<Setup> { (0..n).map(|_| Setup::Msg { th: 0 }).collect() };
    let mut mixes = mixes;
    mixes.push((msgs(3), vec![vec![Op::CompactionAuto { th: 0, schedule: false }], vec![Op::Append { t: 4, th: 0 }]], 50));
    mixes.push((msgs(3), vec![vec![Op::CompactionAuto { th: 0, schedule: true }], vec![Op::Append { t: 13, th: 0 }, Op::Append { t: 4, th: 0 }]], 50));
    mixes.push((msgs(2), vec![vec![Op::CompactionAuto { th: 0, schedule: false }], vec![run(false, Some(0))], vec![Op::Branch { th: 0 }]], 40));
    // (no calibration, no model program for a run: the mixed cases are skipped, nothing is concluded)
    let calibrated = !run_codes(false).is_empty() && !run_codes(true).is_empty();
    if !calibrated {
        ctx.res.bump("run_calibration_failed_mixed_cases_skipped");
    }
    for (setup, actors, cap) in mixes {
        if !calibrated {
            break;
        }
        let case = Case { setup, actors };
        exhaustive(&mut ctx, &case, if thorough { 300 } else { cap }, "exhaustive_runs_and_store_writers");
    }
    for _ in 0..(if !calibrated { 0 } else if thorough { 600 } else { 40 }) {
        let (setup, threads) = gen_setup(&mut r, false);
        let na = r.range(2, 4) as usize;
        let mut actors: Vec<Vec<Op>> = (0..na).map(|_| (0..r.range(1, 2)).map(|_| gen_op(&mut r, threads)).collect()).collect();
        if r.chance(1, 3) {
            let th = r.below(threads as u64) as usize;
            actors.push(vec![Op::CompactionAuto { th, schedule: r.chance(1, 2) }]);
        }
        // at least one actor is a run (one run per actor: a session stream has one run-local counter)
        let k = r.range(1, na as u64 - 1) as usize;
        for a in actors.iter_mut().take(k) {
            *a = vec![run(r.chance(1, 3), if r.chance(1, 2) { Some(r.below(threads as u64) as usize) } else { None })];
        }
        let case = Case { setup, actors };
        random_leaf(&mut ctx, &case, &mut r, "random_runs_and_store_writers");
    }

    // ---- everything at once through the HTTP router
    for k in 0..(if thorough { 30 } else { 4 }) {
        if !ctx.stop() {
            router_mix(&mut ctx, a.seed * 100 + k);
            ctx.mark("router_mix");
        }
    }

    // ---- run (session) streams driven by provider scripts, incl. requests that fail local validation
    for v in 0..9 {
        if !ctx.stop() {
            session_case(&mut ctx, &mut wsg, v);
            ctx.mark("session_scripts");
        }
    }

    // ---- concurrent inputs to ONE session: the started-guard of spawn_session is what makes a session
    // stream single-writer.  Stepped (deterministic, compared with the model) and raced (spin gate).
    for (n, tool) in [(2usize, false), (3, false), (4, true), (2, true)] {
        if !ctx.stop() {
            session_race(&mut ctx, &mut wsg, n, true, if thorough { 12 } else { 3 }, tool);
            ctx.mark("session_inputs_stepped");
        }
    }
    for (n, rounds, tool) in [(2usize, 60u32, false), (4, 20, false), (3, 20, true)] {
        if !ctx.stop() {
            session_race(&mut ctx, &mut wsg, n, false, if thorough { rounds * 6 } else { rounds }, tool);
            ctx.mark("session_inputs_raced");
        }
    }

    // ---- exhaustive two-actor cases
    let pairs: Vec<(Op, Op)> = vec![
        (Op::Append { t: 4, th: 0 }, Op::Append { t: 4, th: 0 }),
        (Op::Append { t: 4, th: 0 }, Op::Append { t: 13, th: 1 }),
        (Op::Append { t: 4, th: 0 }, Op::Branch { th: 0 }),
        (Op::Branch { th: 0 }, Op::Branch { th: 0 }),
        (Op::Append { t: 8, th: 0 }, Op::Read { th: 0 }),
        (Op::Append { t: 4, th: 99 }, Op::PostNewest),
    ];
    for (i, (x, y)) in pairs.iter().enumerate() {
        if !thorough && i >= 4 {
            break;
        }
        let setup = vec![Setup::Msg { th: 0 }, Setup::Branch { th: 0 }];
        let case = Case { setup, actors: vec![vec![x.clone()], vec![y.clone()]] };
        exhaustive(&mut ctx, &case, if thorough { 600 } else { 120 }, "exhaustive_pair");
    }
    // every hook-reachable append function against a message append on the same thread
    for k in [5u64, 13, 14, 6, 7, 8] {
        let case = Case { setup: vec![Setup::Msg { th: 0 }], actors: vec![vec![Op::Append { t: k, th: 0 }], vec![Op::Append { t: 4, th: 0 }]] };
        exhaustive(&mut ctx, &case, if thorough { 300 } else { 40 }, "exhaustive_each_append_fn");
    }
    // restart variants: every sidecar condition x two appenders, cold next_seq cache
    for x in [None, Some(Fault::Delete), Some(Fault::TearTail), Some(Fault::Empty)] {
        let mut setup = vec![Setup::Msg { th: 0 }, Setup::Msg { th: 0 }];
        if let Some(x) = x {
            setup.push(Setup::Fault { x, th: 0 });
        }
        setup.push(Setup::Restart);
        let case = Case { setup, actors: vec![vec![Op::Append { t: 4, th: 0 }], vec![Op::Append { t: 5, th: 0 }, Op::Read { th: 0 }]] };
        exhaustive(&mut ctx, &case, if thorough { 300 } else { 25 }, "exhaustive_restart");
    }

    // ---- random 2-4 actors, 1-3 calls each
    let n = if thorough { 3000 } else { 220 };
    for i in 0..n {
        let (setup, threads) = gen_setup(&mut r, i % 3 == 0);
        let na = r.range(2, 4) as usize;
        let actors: Vec<Vec<Op>> = (0..na).map(|_| (0..r.range(1, 3)).map(|_| gen_op(&mut r, threads)).collect()).collect();
        let case = Case { setup, actors };
        random_leaf(&mut ctx, &case, &mut r, "random");
    }

    ctx.w.flush();
    ctx.wmx.flush();
    wsg.flush();
    wpc.flush();
    waf.flush();
    whd.flush();
    wsw.flush();
    ctx.res.distinct_nontrivial = ctx.distinct.count();
    ctx.res.case_files = ctx.w.files.iter().chain(ctx.wmx.files.iter()).chain(wsg.files.iter()).chain(wpc.files.iter()).chain(waf.files.iter()).chain(whd.files.iter()).chain(wsw.files.iter()).map(|p| p.display().to_string()).collect();
    ctx.res.write(&a.out);
    println!("c01: {} schedules, {} oracle violations", ctx.leaves, ctx.res.oracle_violations.len());
}
