//! C18 — the real authority-lock functions of ripd (try_acquire, write_meta, Drop, read_*, pid_liveness,
//! try_cleanup_stale_authority_files, try_cleanup_corrupt_lock_file) run by in-process contenders under a
//! lock-step scheduler (one grant = the code between two `auth.*` points), compared step by step with
//! coq/Model/Authority.v, plus the independent oracle (never two live guards; no rename/removal of a file
//! that belongs to another live pid).
use ripd::verif::authority as hk;
use ripd::{AuthorityLockGuard, PidLiveness};
use rv::*;
use serde_json::json;
use std::cell::Cell;
use std::mem::ManuallyDrop;
use std::path::{Path, PathBuf};
use std::sync::{Arc, Condvar, Mutex};
use std::time::{Duration, Instant};

#[path = "c18/uid.rs"]
mod uid;

// ------------------------------------------------------------------ case description
#[derive(Clone, Debug, PartialEq)]
enum Call {
    Acquire,
    WriteMeta,
    Drop,
    Stale(u64),
    Corrupt,
    ReadLock,
    ReadMeta,
    LockExists,
    Live(u64),
}
#[derive(Clone, Debug, PartialEq)]
enum Drv {
    Script(Vec<Call>),
    Server,
    Client,
}
#[derive(Clone, Debug, PartialEq)]
enum LockF {
    Absent,
    Half(u64),
    Rec(u64),
}
#[derive(Clone, Debug, PartialEq)]
enum MetaF {
    Absent,
    Rec(u64),
}
#[derive(Clone, Debug)]
struct Contender {
    pid: u64,
    drv: Drv,
}
#[derive(Clone, Debug, PartialEq)]
enum Ev {
    Step(usize, u64),
    Crash(usize),
}
#[derive(Clone, Debug)]
struct Case {
    lock: LockF,
    meta: MetaF,
    /// a live process that is not a contender (its files are the leftover): pid
    bystander: Option<u64>,
    /// the bystander is an authority (owns a guard); false = a live pid that holds nothing (a starter between its create
    /// and its write, or a live pid named by a left-over meta.json)
    bystander_guard: bool,
    cont: Vec<Contender>,
    /// the timer answers respect the grace assumption (true everywhere except the needs-grace witness)
    assume_grace: bool,
    real_pids: bool,
}

const DEAD: u64 = 900;
const DEAD2: u64 = 901;
const BYST: u64 = 800;

// ------------------------------------------------------------------ lock-step scheduler
#[derive(Clone, Copy, PartialEq, Debug)]
enum Cmd {
    Go,
    Crash,
}
#[derive(Default, Clone)]
struct View {
    parked: Option<&'static str>,
    done: bool,
    crashed: bool,
    cmd: Option<Cmd>,
    oracle: u64,
    grace_ok: bool,
    guard: bool,
    last: u64,
    in_stale: bool,
    in_corrupt: bool,
    in_meta_branch: bool,
}
struct Ctl {
    mu: Mutex<Vec<View>>,
    cv: Condvar,
}
thread_local! {
    static ACTOR: Cell<Option<usize>> = const { Cell::new(None) };
    static CTL: std::cell::RefCell<Option<Arc<Ctl>>> = const { std::cell::RefCell::new(None) };
}
struct Crashed;

fn park(name: &'static str) {
    let Some(id) = ACTOR.with(|a| a.get()) else { return };
    let ctl = CTL.with(|c| c.borrow().clone()).expect("ctl");
    let mut g = ctl.mu.lock().unwrap();
    g[id].parked = Some(name);
    ctl.cv.notify_all();
    loop {
        if let Some(c) = g[id].cmd.take() {
            g[id].parked = None;
            drop(g);
            if c == Cmd::Crash {
                std::panic::resume_unwind(Box::new(Crashed));
            }
            return;
        }
        g = ctl.cv.wait(g).unwrap();
    }
}
impl Ctl {
    fn settle(&self, id: usize) -> bool {
        let mut g = self.mu.lock().unwrap();
        // generous and load-independent: a grant is one file-system call; only a genuinely stuck contender gets here
        let deadline = Instant::now() + Duration::from_secs(180);
        while g[id].parked.is_none() && !g[id].done {
            let (gg, t) = self.cv.wait_timeout(g, Duration::from_millis(200)).unwrap();
            g = gg;
            if t.timed_out() && Instant::now() > deadline {
                return false;
            }
        }
        true
    }
    fn grant(&self, id: usize, cmd: Cmd, oracle: u64, grace_ok: bool) -> bool {
        {
            let mut g = self.mu.lock().unwrap();
            g[id].cmd = Some(cmd);
            g[id].oracle = oracle;
            g[id].grace_ok = grace_ok;
            g[id].parked = None;
            self.cv.notify_all();
        }
        self.settle(id)
    }
    fn view(&self, id: usize) -> View {
        self.mu.lock().unwrap()[id].clone()
    }
    fn set<F: FnOnce(&mut View)>(&self, id: usize, f: F) {
        f(&mut self.mu.lock().unwrap()[id]);
    }
}

// ------------------------------------------------------------------ the contender (drives the REAL functions)
fn lock_code_of(r: &Result<Option<ripd::AuthorityLockRecord>, String>) -> u64 {
    match r {
        Ok(None) => 0,
        Err(_) => 1,
        Ok(Some(rec)) => 2 + rec.pid as u64,
    }
}
fn meta_code_of(r: &Result<Option<ripd::AuthorityMeta>, String>) -> u64 {
    match r {
        Ok(None) => 0,
        Err(_) => 1,
        Ok(Some(m)) => 2 + m.pid as u64,
    }
}

struct Actor {
    id: usize,
    ctl: Arc<Ctl>,
    data: PathBuf,
    ws: PathBuf,
    guard: Option<ManuallyDrop<AuthorityLockGuard>>,
}
impl Actor {
    fn note(&self, last: u64) {
        let g = self.guard.is_some();
        self.ctl.set(self.id, |v| {
            v.last = last;
            v.guard = g;
        });
    }
    fn oracle(&self) -> (u64, bool) {
        let v = self.ctl.view(self.id);
        (v.oracle, v.grace_ok)
    }
    fn acquire(&mut self) -> bool {
        match AuthorityLockGuard::try_acquire(&self.data, &self.ws) {
            Ok(g) => {
                self.guard = Some(ManuallyDrop::new(g));
                self.note(1);
                true
            }
            Err(_) => {
                self.note(0);
                false
            }
        }
    }
    fn write_meta(&mut self) -> Option<bool> {
        let ok = self.guard.as_ref()?.write_meta("http://127.0.0.1:1").is_ok();
        self.note(ok as u64);
        Some(ok)
    }
    fn drop_guard(&mut self) -> Option<()> {
        let mut g = self.guard.take()?;
        // a crash inside Drop unwinds out of here; the guard is already taken, nothing runs twice
        unsafe { ManuallyDrop::drop(&mut g) };
        self.note(1);
        Some(())
    }
    fn stale(&mut self, d: u64) -> bool {
        self.ctl.set(self.id, |v| v.in_stale = true);
        let r = ripd::try_cleanup_stale_authority_files(&self.data, d as u32, 1234).unwrap_or(false);
        self.ctl.set(self.id, |v| v.in_stale = false);
        self.note(r as u64);
        r
    }
    fn corrupt(&mut self) -> bool {
        self.ctl.set(self.id, |v| v.in_corrupt = true);
        let r = ripd::try_cleanup_corrupt_lock_file(&self.data).unwrap_or(false);
        self.ctl.set(self.id, |v| v.in_corrupt = false);
        self.note(r as u64);
        r
    }
    fn read_lock(&mut self) -> u64 {
        let c = lock_code_of(&ripd::read_authority_lock_record(&self.data));
        self.note(c);
        c
    }
    fn read_meta(&mut self) -> u64 {
        let c = meta_code_of(&ripd::read_authority_meta(&self.data));
        self.note(c);
        c
    }
    fn lock_exists(&mut self) -> bool {
        park("drv.lock_exists");
        let b = ripd::authority_lock_path(&self.data).exists();
        self.note(b as u64);
        b
    }
    fn live(&mut self, p: u64) -> bool {
        let l = ripd::pid_liveness(p as u32);
        let alive = !matches!(l, PidLiveness::Dead);
        self.note(alive as u64);
        alive
    }
    /// client, meta.json branch: liveness of the meta pid (same real function, different model pc)
    fn live_m(&mut self, p: u64) -> bool {
        self.ctl.set(self.id, |v| v.in_meta_branch = true);
        let l = ripd::pid_liveness(p as u32);
        self.ctl.set(self.id, |v| v.in_meta_branch = false);
        let alive = !matches!(l, PidLiveness::Dead);
        self.note(alive as u64);
        alive
    }
    fn lock_exists_m(&mut self) -> bool {
        park("drv.lock_exists_m");
        let b = ripd::authority_lock_path(&self.data).exists();
        self.note(b as u64);
        b
    }
    fn ping(&mut self) -> bool {
        park("drv.ping");
        let b = self.oracle().0 & 1 == 1;
        self.note(b as u64);
        b
    }
    fn grace(&self) -> bool {
        let (o, ok) = self.oracle();
        (o >> 1) & 1 == 1 && ok
    }
    fn deadline(&self) -> bool {
        (self.oracle().0 >> 2) & 1 == 1
    }

    fn run_script(&mut self, cs: &[Call]) {
        for c in cs {
            match c {
                Call::Acquire => {
                    self.acquire();
                }
                Call::WriteMeta => {
                    self.write_meta();
                }
                Call::Drop => {
                    self.drop_guard();
                }
                Call::Stale(d) => {
                    self.stale(*d);
                }
                Call::Corrupt => {
                    self.corrupt();
                }
                Call::ReadLock => {
                    self.read_lock();
                }
                Call::ReadMeta => {
                    self.read_meta();
                }
                Call::LockExists => {
                    self.lock_exists();
                }
                Call::Live(p) => {
                    self.live(*p);
                }
            }
        }
    }

    /// ripd/src/server.rs acquire_authority_lock_with_recovery + serve, with the HTTP ping, the 1 s invalid-lock
    /// timer and the 2 s deadline replaced by the scheduler's oracle bits (T1 ties the call order to the source).
    fn run_server(&mut self) {
        loop {
            if self.acquire() {
                break;
            }
            let meta = self.read_meta();
            let reachable = if meta >= 2 { self.ping() } else { false };
            if reachable {
                return;
            }
            let l = self.read_lock();
            if l >= 2 {
                if !self.live(l - 2) {
                    if self.stale(l - 2) {
                        continue;
                    }
                }
                return;
            } else if l == 0 {
                if self.deadline() {
                    return;
                }
            } else {
                if self.grace() && self.corrupt() {
                    continue;
                }
                if self.deadline() {
                    return;
                }
            }
        }
        if self.write_meta() == Some(true) {
            park("drv.serving");
        }
        self.drop_guard();
    }

    /// rip-cli/src/local_authority.rs ensure_local_authority_with_paths (spawn_local_authority = another contender)
    fn run_client(&mut self) {
        loop {
            let meta = self.read_meta();
            if meta >= 2 {
                if self.ping() {
                    return;
                }
                if !self.live_m(meta - 2) {
                    if self.lock_exists_m() {
                        if self.stale(meta - 2) {
                            continue;
                        }
                    }
                    // else: spawn_local_authority (another contender), continue == fall through to the deadline test
                }
            } else if self.lock_exists() {
                let l = self.read_lock();
                if l >= 2 {
                    if !self.live(l - 2) && self.stale(l - 2) {
                        continue;
                    }
                } else if l == 1 && self.grace() && self.corrupt() {
                    continue;
                }
            }
            if self.deadline() {
                return;
            }
        }
    }
}

// ------------------------------------------------------------------ file-system observation
fn data_lock(data: &Path) -> u64 {
    if !ripd::authority_lock_path(data).exists() {
        return 0;
    }
    match std::fs::read_to_string(ripd::authority_lock_path(data)) {
        Err(_) => 0,
        Ok(s) => serde_json::from_str::<serde_json::Value>(&s).ok().and_then(|v| v.get("pid").and_then(|p| p.as_u64())).map(|p| 2 + p).unwrap_or(1),
    }
}
fn meta_file(p: &Path) -> u64 {
    match std::fs::read_to_string(p) {
        Err(_) => 0,
        Ok(s) => serde_json::from_str::<serde_json::Value>(&s).ok().and_then(|v| v.get("pid").and_then(|p| p.as_u64())).map(|p| 2 + p).unwrap_or(1),
    }
}

fn pc_code(v: &View) -> u64 {
    if v.done {
        return 0;
    }
    match v.parked {
        None => 99,
        Some(n) => match n {
            "start" => 98,
            "auth.acquire.before_create" => 1,
            "auth.acquire.created" => 2,
            "auth.meta.before_tmp_write" => 3,
            "auth.meta.before_remove" => 4,
            "auth.meta.before_rename" => 5,
            "auth.drop.before_remove_meta" => 6,
            "auth.drop.before_remove_lock" => 7,
            "auth.read_meta" => {
                if v.in_stale {
                    16
                } else if v.in_corrupt {
                    22
                } else {
                    8
                }
            }
            "auth.read_lock" => {
                if v.in_stale {
                    14
                } else {
                    9
                }
            }
            "drv.lock_exists" => 10,
            "drv.lock_exists_m" => 25,
            "auth.liveness" => {
                if v.in_corrupt {
                    23
                } else if v.in_meta_branch {
                    24
                } else {
                    11
                }
            }
            "drv.ping" => 12,
            "auth.stale.before_exists" => 13,
            "auth.stale.before_rename" => 15,
            "auth.stale.before_meta_rename" => 17,
            "auth.corrupt.before_exists" => 18,
            "auth.corrupt.before_meta_exists" => 19,
            "auth.corrupt.before_rename" => 20,
            "drv.serving" => 21,
            _ => 97,
        },
    }
}

// ------------------------------------------------------------------ running one case under a schedule policy
#[derive(Clone, Debug, Default)]
struct Take {
    step: usize,
    pc: u64,
    by: u64,
    victim: u64,
    meta: bool,
    /// the check that precedes this rename in the code was passed legitimately by this actor: its last re-read of the
    /// lock (stale) / read of the lock by its loop (corrupt) / read of the meta (stale meta) saw a file of a DEAD pid
    checked: bool,
    /// compared with the model's ghost flag, but not a violation (see `publishing_over_non_authority`)
    exempt: bool,
}
#[derive(Default)]
struct Outcome {
    events: Vec<Ev>,
    obs: Vec<u64>,
    /// at each executed position: the contenders that could have been stepped instead
    alts: Vec<Vec<usize>>,
    takes: Vec<Take>,
    max_holders: usize,
    first_double: Option<usize>,
    stuck: bool,
    pcs_seen: Vec<u64>,
}

fn write_lock_file(data: &Path, l: &LockF, ws: &Path) {
    let p = ripd::authority_lock_path(data);
    match l {
        LockF::Absent => {}
        LockF::Half(_) => std::fs::write(p, b"").unwrap(),
        LockF::Rec(pid) => std::fs::write(p, format!("{}\n", json!({"pid": pid, "started_at_ms": 1000, "workspace_root": ws.to_string_lossy()}))).unwrap(),
    }
}
fn write_meta_file(data: &Path, m: &MetaF, ws: &Path) {
    if let MetaF::Rec(pid) = m {
        std::fs::write(ripd::authority_meta_path(data), json!({"endpoint": "http://127.0.0.1:1", "pid": pid, "started_at_ms": 1021, "workspace_root": ws.to_string_lossy()}).to_string()).unwrap();
    }
}

/// `policy(position, steppable contenders, pcs) -> event`; None stops the run.
fn run_case(c: &Case, policy: &mut dyn FnMut(usize, &[usize], &[u64]) -> Option<Ev>, max_events: usize) -> Outcome {
    let sc = Scratch::new("c18");
    let data = sc.path().join("data");
    let ws = sc.path().join("ws");
    std::fs::create_dir_all(ripd::authority_dir(&data)).unwrap();
    std::fs::create_dir_all(&ws).unwrap();
    write_lock_file(&data, &c.lock, &ws);
    write_meta_file(&data, &c.meta, &ws);
    let n = c.cont.len();
    let ctl = Arc::new(Ctl { mu: Mutex::new(vec![View::default(); n]), cv: Condvar::new() });
    // liveness table: contenders and the bystander alive, fabricated leftovers dead
    let mut pids: Vec<u64> = c.cont.iter().map(|x| x.pid).collect();
    if !c.real_pids {
        hk::set_liveness(DEAD as u32, Some(PidLiveness::Dead));
        hk::set_liveness(DEAD2 as u32, Some(PidLiveness::Dead));
        hk::set_liveness(BYST as u32, Some(if c.bystander.is_some() { PidLiveness::Alive } else { PidLiveness::Dead }));
        for p in &pids {
            hk::set_liveness(*p as u32, Some(PidLiveness::Alive));
        }
    }
    let mut alive: Vec<bool> = vec![true; n];
    let mut handles = vec![];
    for (i, ct) in c.cont.iter().enumerate() {
        let ctl2 = ctl.clone();
        let (data2, ws2, drv, pid, real) = (data.clone(), ws.clone(), ct.drv.clone(), ct.pid, c.real_pids);
        handles.push(std::thread::spawn(move || {
            ACTOR.with(|a| a.set(Some(i)));
            CTL.with(|cc| *cc.borrow_mut() = Some(ctl2.clone()));
            if !real {
                hk::set_thread_pid(Some(pid as u32));
            }
            let r = std::panic::catch_unwind(std::panic::AssertUnwindSafe(|| {
                park("start");
                let mut a = Actor { id: i, ctl: ctl2.clone(), data: data2, ws: ws2, guard: None };
                match &drv {
                    Drv::Script(cs) => a.run_script(cs),
                    Drv::Server => a.run_server(),
                    Drv::Client => a.run_client(),
                }
                // a script may end holding the guard: the process keeps it (no Drop)
                std::mem::forget(a.guard.take());
            }));
            let crashed = matches!(&r, Err(e) if e.is::<Crashed>());
            let mut g = ctl2.mu.lock().unwrap();
            g[i].done = true;
            g[i].crashed = crashed;
            if let Err(e) = r {
                if !e.is::<Crashed>() {
                    g[i].last = 777_777; // real panic
                }
            }
            ctl2.cv.notify_all();
        }));
    }
    let mut out = Outcome::default();
    // bring every contender to its first real point ("start" is not a model step)
    for i in 0..n {
        ctl.settle(i);
        if !ctl.grant(i, Cmd::Go, 0, true) {
            out.stuck = true;
        }
    }
    // ghost: pid that created the inode currently at the lock path
    let mut creator: Option<u64> = match &c.lock {
        LockF::Absent => None,
        LockF::Half(p) | LockF::Rec(p) => Some(*p),
    };
    let is_alive = |p: u64, alive: &Vec<bool>, c: &Case| -> bool { c.bystander == Some(p) || c.cont.iter().enumerate().any(|(j, x)| x.pid == p && alive[j]) };
    let snapshot = |out: &mut Vec<u64>, alive: &Vec<bool>, ctl: &Ctl| {
        out.push(data_lock(&data));
        out.push(meta_file(&ripd::authority_meta_path(&data)));
        out.push(meta_file(&ripd::authority_meta_path(&data).with_extension("tmp")));
        if c.bystander.is_some() {
            out.extend(if c.bystander_guard { [21, 1, 0, 1] } else { [0, 0, 0, 1] });
        }
        for i in 0..n {
            let v = ctl.view(i);
            let pc = if !alive[i] { 1000 } else { pc_code(&v) };
            out.extend([pc, v.guard as u64, v.last, alive[i] as u64]);
        }
    };
    // the initial observation (dead contenders report their frozen pc through `frozen`)
    let mut frozen: Vec<Option<u64>> = vec![None; n];
    let obs_now = |out: &mut Outcome, alive: &Vec<bool>, frozen: &Vec<Option<u64>>, ctl: &Ctl| {
        let mut o = vec![];
        snapshot(&mut o, alive, ctl);
        // patch frozen pcs of crashed contenders
        let base = 3 + if c.bystander.is_some() { 4 } else { 0 };
        for i in 0..n {
            if let Some(f) = frozen[i] {
                o[base + 4 * i] = f;
            }
        }
        out.obs.extend(o);
    };
    obs_now(&mut out, &alive, &frozen, &ctl);
    // what each actor's last check saw: Some(true) = a file of a dead pid (resp. a half-written lock of a dead creator)
    let mut reread_ok: Vec<Option<bool>> = vec![None; n];
    let mut rdlock_ok: Vec<Option<bool>> = vec![None; n];
    let mut stmeta_ok: Vec<Option<bool>> = vec![None; n];
    let mut pos = 0usize;
    while pos < max_events {
        let views: Vec<View> = (0..n).map(|i| ctl.view(i)).collect();
        let steppable: Vec<usize> = (0..n).filter(|i| alive[*i] && !views[*i].done).collect();
        if steppable.is_empty() {
            break;
        }
        let pcs: Vec<u64> = (0..n).map(|i| if alive[i] { pc_code(&views[i]) } else { 1000 }).collect();
        let Some(ev) = policy(pos, &steppable, &pcs) else { break };
        out.alts.push(steppable.clone());
        match ev {
            Ev::Crash(i) => {
                if alive[i] && !views[i].done {
                    frozen[i] = Some(pcs[i]);
                    alive[i] = false;
                    if !c.real_pids {
                        hk::set_liveness(c.cont[i].pid as u32, Some(PidLiveness::Dead));
                    }
                    ctl.grant(i, Cmd::Crash, 0, true);
                } else if alive[i] {
                    // crashing a finished process: it is just dead from now on
                    frozen[i] = Some(0);
                    alive[i] = false;
                    if !c.real_pids {
                        hk::set_liveness(c.cont[i].pid as u32, Some(PidLiveness::Dead));
                    }
                }
            }
            Ev::Step(i, o) => {
                if alive[i] && !views[i].done {
                    let pc = pcs[i];
                    out.pcs_seen.push(pc);
                    let me = c.cont[i].pid;
                    let lock_before = data_lock(&data);
                    let meta_before = meta_file(&ripd::authority_meta_path(&data));
                    let grace_ok = !c.assume_grace || !creator.map(|p| is_alive(p, &alive, c)).unwrap_or(false);
                    let dead_code = |code: u64| code >= 2 && !is_alive(code - 2, &alive, c);
                    match pc {
                        13 => reread_ok[i] = None,
                        14 => reread_ok[i] = Some(dead_code(lock_before)),
                        9 => rdlock_ok[i] = Some(lock_before == 1 && !creator.map(|p| is_alive(p, &alive, c)).unwrap_or(false)),
                        16 => stmeta_ok[i] = Some(dead_code(meta_before)),
                        _ => {}
                    }
                    if !ctl.grant(i, Cmd::Go, o, grace_ok) {
                        out.stuck = true;
                        break;
                    }
                    let lock_after = data_lock(&data);
                    let meta_after = meta_file(&ripd::authority_meta_path(&data));
                    // ghost creator + independent "took a live pid's file" oracle
                    if lock_before == 0 && lock_after != 0 {
                        creator = Some(me);
                    }
                    if lock_before != 0 && lock_after == 0 {
                        if let Some(v) = creator {
                            if v != me && is_alive(v, &alive, c) {
                                let checked = match pc {
                                    15 => reread_ok[i] == Some(true),
                                    20 => rdlock_ok[i] == Some(true),
                                    _ => false,
                                };
                                out.takes.push(Take { step: pos, pc, by: me, victim: v, meta: false, checked, exempt: false });
                            }
                        }
                        creator = None;
                    }
                    if meta_before >= 2 && meta_after != meta_before {
                        let v = meta_before - 2;
                        // a left-over meta.json naming a live pid that is NOT an authority (pid reuse / a hung process that lost
                        // its lock) is rightly replaced when the new lock holder publishes its endpoint (write_meta, pc 4/5) and
                        // removed when the lock holder releases (Drop, pc 6)
                        let publishing_over_non_authority = (pc == 4 || pc == 5 || pc == 6) && c.bystander == Some(v) && !c.bystander_guard;
                        if v != me && is_alive(v, &alive, c) {
                            out.takes.push(Take { step: pos, pc, by: me, victim: v, meta: true, checked: pc == 17 && stmeta_ok[i] == Some(true), exempt: publishing_over_non_authority });
                        }
                    }
                }
            }
        }
        out.events.push(ev);
        obs_now(&mut out, &alive, &frozen, &ctl);
        // independent oracle: live guards
        let holders = (0..n).filter(|i| alive[*i] && ctl.view(*i).guard).count() + (c.bystander.is_some() && c.bystander_guard) as usize;
        if holders > out.max_holders {
            out.max_holders = holders;
        }
        if holders > 1 && out.first_double.is_none() {
            out.first_double = Some(pos);
        }
        pos += 1;
    }
    // unwind whoever is still parked
    for i in 0..n {
        let v = ctl.view(i);
        if !v.done {
            ctl.grant(i, Cmd::Crash, 0, true);
        }
    }
    for h in handles {
        let _ = h.join();
    }
    for i in 0..n {
        if ctl.view(i).last == 777_777 {
            out.stuck = true;
        }
    }
    let _ = pids.pop();
    out
}

// ------------------------------------------------------------------ Coq printing
fn coq_call(c: &Call) -> String {
    match c {
        Call::Acquire => "CAcquire".into(),
        Call::WriteMeta => "CWriteMeta".into(),
        Call::Drop => "CDrop".into(),
        Call::Stale(d) => format!("CStale {d}"),
        Call::Corrupt => "CCorrupt".into(),
        Call::ReadLock => "CReadLock".into(),
        Call::ReadMeta => "CReadMeta".into(),
        Call::LockExists => "CLockExists".into(),
        Call::Live(p) => format!("CLive {p}"),
    }
}
fn coq_case(c: &Case, o: &Outcome) -> String {
    let mut procs: Vec<String> = vec![];
    if let Some(b) = c.bystander {
        procs.push(if c.bystander_guard { format!("serving {b}") } else { format!("fresh {b} (DScript [])") });
    }
    for ct in &c.cont {
        let d = match &ct.drv {
            Drv::Script(cs) => format!("(DScript {})", coq_list(cs, coq_call)),
            Drv::Server => "DServer".into(),
            Drv::Client => "DClient".into(),
        };
        procs.push(format!("fresh {} {}", ct.pid, d));
    }
    let off = c.bystander.is_some() as usize;
    let evs = coq_list(&o.events, |e| match e {
        Ev::Step(i, b) => format!("Step {}%nat {}", i + off, b),
        Ev::Crash(i) => format!("Crash {}%nat", i + off),
    });
    let l = match &c.lock {
        LockF::Absent => "LAbsent".to_string(),
        LockF::Half(p) => format!("(LHalf {p})"),
        LockF::Rec(p) => format!("(LRec {p})"),
    };
    let m = match &c.meta {
        MetaF::Absent => "MAbsent".to_string(),
        MetaF::Rec(p) => format!("(MRec {p})"),
    };
    let mut exp = o.obs.clone();
    exp.push(o.takes.iter().any(|t| !t.meta) as u64);
    exp.push(o.takes.iter().any(|t| t.meta) as u64);
    format!("{{| c_ag := {}; c_lock := {}; c_meta := {}; c_procs := [{}]; c_events := {}; c_expect := {} |}}", coq_bool(c.assume_grace), l, m, procs.join("; "), evs, coq_list_n(&exp))
}
fn case_json(c: &Case, evs: &[Ev]) -> serde_json::Value {
    json!({"lock": format!("{:?}", c.lock), "meta": format!("{:?}", c.meta), "bystander": c.bystander, "bystander_is_authority": c.bystander_guard, "assume_grace": c.assume_grace, "real_pids": c.real_pids,
           "contenders": c.cont.iter().map(|x| json!({"pid": x.pid, "driver": format!("{:?}", x.drv)})).collect::<Vec<_>>(),
           "events": evs.iter().map(|e| match e { Ev::Step(i, o) => json!(["step", i, o]), Ev::Crash(i) => json!(["crash", i]) }).collect::<Vec<_>>()})
}

// ------------------------------------------------------------------ independent oracle → violation class
fn classify(o: &Outcome) -> Option<(String, String)> {
    if o.stuck {
        return Some(("a contender panicked or did not reach its next point".into(), "panic".into()));
    }
    let first = o.takes.iter().find(|t| !t.exempt);
    let root = |t: &Take| -> String {
        match (t.pc, t.meta, t.checked) {
            // the three known check-then-rename races: the check was passed on a dead pid's file, the file changed since
            (15, false, true) => "stale_cleanup_renames_fresh_lock_of_live_contender".into(),
            (20, false, true) => "corrupt_cleanup_renames_fresh_lock_of_live_contender".into(),
            (17, true, true) => "stale_cleanup_renames_meta_of_live_authority".into(),
            // the same renames WITHOUT a legitimately passed check are something else (a missing re-read / comparison)
            (15, false, false) => "stale_cleanup_renames_live_lock_without_passing_the_pid_check".into(),
            (20, false, false) => "corrupt_cleanup_renames_live_lock_never_seen_invalid".into(),
            (17, true, false) => "stale_cleanup_renames_live_meta_without_passing_the_pid_check".into(),
            (pc, m, _) => format!("file_of_live_pid_removed_at_pc{pc}_{}", if m { "meta" } else { "lock" }),
        }
    };
    if let Some(d) = o.first_double {
        return Some(match first {
            Some(t) if t.step <= d => (format!("two live guards after step {d}; first taken file: pid {} took the {} of live pid {} at step {} (pc {})", t.by, if t.meta { "meta" } else { "lock" }, t.victim, t.step, t.pc), root(t)),
            _ => (format!("two live guards after step {d} although no lock file of a live pid was renamed or removed"), "two_authorities_without_take".into()),
        });
    }
    first.map(|t| (format!("pid {} renamed/removed the {} of live pid {} at step {} (pc {})", t.by, if t.meta { "meta file" } else { "lock file" }, t.victim, t.step, t.pc), root(t)))
}

// ------------------------------------------------------------------ generators
/// (name, lock.json, meta.json, live bystander, the bystander is an authority)
fn leftovers() -> Vec<(&'static str, LockF, MetaF, Option<u64>, bool)> {
    vec![
        ("none", LockF::Absent, MetaF::Absent, None, true),
        ("dead_lock", LockF::Rec(DEAD), MetaF::Absent, None, true),
        ("dead_lock_meta", LockF::Rec(DEAD), MetaF::Rec(DEAD), None, true),
        ("dead_half", LockF::Half(DEAD), MetaF::Absent, None, true),
        ("dead_meta_only", LockF::Absent, MetaF::Rec(DEAD), None, true),
        ("dead_lock_other_meta", LockF::Rec(DEAD), MetaF::Rec(DEAD2), None, true),
        ("dead_half_dead_meta", LockF::Half(DEAD), MetaF::Rec(DEAD2), None, true),
        ("live_lock_meta", LockF::Rec(BYST), MetaF::Rec(BYST), Some(BYST), true),
        ("live_lock", LockF::Rec(BYST), MetaF::Absent, Some(BYST), true),
        // MIXED leftovers: the two files name different processes
        // a live authority that has not published its endpoint yet, next to the meta.json of its dead predecessor
        ("live_lock_dead_meta", LockF::Rec(BYST), MetaF::Rec(DEAD), Some(BYST), true),
        // the lock of a dead pid next to a meta.json that names a live pid which is no authority
        ("dead_lock_live_meta", LockF::Rec(DEAD), MetaF::Rec(BYST), Some(BYST), false),
        // a live starter between its exclusive create and its write (± the meta.json of a dead predecessor)
        ("live_half", LockF::Half(BYST), MetaF::Absent, Some(BYST), false),
        ("live_half_dead_meta", LockF::Half(BYST), MetaF::Rec(DEAD), Some(BYST), false),
    ]
}
fn scripts() -> Vec<Vec<Call>> {
    use Call::*;
    vec![
        vec![Acquire],
        vec![Acquire, WriteMeta, Drop],
        vec![Stale(DEAD), Acquire],
        vec![Corrupt, Acquire],
        vec![ReadLock, Live(DEAD), Stale(DEAD)],
        vec![Stale(BYST)],
        vec![Acquire, Drop, Acquire],
    ]
}

/// all maximal interleavings (stateless DFS by re-execution), at most `cap` leaves
fn explore(c: &Case, cap: usize, oracle_bits: u64, mut visit: impl FnMut(&Case, Outcome)) -> usize {
    let mut stack: Vec<Vec<usize>> = vec![vec![]];
    let mut leaves = 0;
    let mut pick = Rng::new(cap as u64 + 17);
    while !stack.is_empty() {
        if leaves >= cap {
            break;
        }
        // depth-first while everything fits, otherwise a seeded sample of the frontier
        let k = if leaves < cap / 2 { stack.len() - 1 } else { pick.below(stack.len() as u64) as usize };
        let prefix = stack.swap_remove(k);
        let pl = prefix.len();
        let mut pol = |pos: usize, st: &[usize], _pcs: &[u64]| -> Option<Ev> {
            let a = if pos < pl && st.contains(&prefix[pos]) { prefix[pos] } else { st[0] };
            Some(Ev::Step(a, oracle_bits))
        };
        let o = run_case(c, &mut pol, 200);
        for k in (pl..o.events.len()).rev() {
            let Ev::Step(chosen, _) = o.events[k] else { continue };
            for a in &o.alts[k] {
                if *a != chosen {
                    let mut p: Vec<usize> = o.events[..k].iter().map(|e| if let Ev::Step(i, _) = e { *i } else { 0 }).collect();
                    p.push(*a);
                    stack.push(p);
                }
            }
        }
        leaves += 1;
        visit(c, o);
    }
    leaves
}

fn random_case(r: &mut Rng) -> Case {
    let lo = leftovers();
    let (_, lock, meta, by, by_guard) = r.pick(&lo).clone();
    let n = r.range(2, 4) as usize;
    let sc = scripts();
    let cont = (0..n)
        .map(|i| Contender {
            pid: 101 + i as u64,
            drv: match r.below(6) {
                0 | 1 | 2 => Drv::Server,
                3 => Drv::Client,
                _ => Drv::Script(r.pick(&sc).clone()),
            },
        })
        .collect();
    Case { lock, meta, bystander: by, bystander_guard: by_guard, cont, assume_grace: true, real_pids: false }
}
fn random_policy<'a>(r: &'a mut Rng, crash_pct: u64) -> impl FnMut(usize, &[usize], &[u64]) -> Option<Ev> + 'a {
    move |_pos, st, _pcs| {
        let a = *r.pick(st);
        if r.below(100) < crash_pct {
            return Some(Ev::Crash(a));
        }
        let mut o = 0u64;
        if r.chance(1, 8) {
            o |= 1;
        }
        if r.chance(1, 2) {
            o |= 2;
        }
        if r.chance(1, 10) {
            o |= 4;
        }
        Some(Ev::Step(a, o))
    }
}
fn scripted_policy(evs: Vec<Ev>) -> impl FnMut(usize, &[usize], &[u64]) -> Option<Ev> {
    move |pos, _st, _pcs| evs.get(pos).cloned()
}

/// corpus: the witnesses of the three check-then-rename races, the needs-grace witness, regressions
fn corpus() -> Vec<(&'static str, Case, Vec<Ev>)> {
    let s = |i: usize| Ev::Step(i, 0);
    let sg = |i: usize| Ev::Step(i, 2);
    let two = |d: Drv, e: Drv| vec![Contender { pid: 101, drv: d }, Contender { pid: 102, drv: e }];
    let mut v = vec![];
    // S13: both server loops pass the re-read, A renames + acquires, B renames A's live lock + acquires
    let mut evs = vec![];
    for a in [0usize, 1] {
        for _ in 0..6 {
            evs.push(s(a));
        }
    }
    for a in [0usize, 1] {
        for _ in 0..4 {
            evs.push(s(a));
        }
    }
    v.push(("s13_two_cleaners", Case { lock: LockF::Rec(DEAD), meta: MetaF::Absent, bystander: None, bystander_guard: true, cont: two(Drv::Server, Drv::Server), assume_grace: true, real_pids: false }, evs));
    // S13b: two loops saw the half-written lock of a dead creator for > 1 s; the second cleanup renames the first one's fresh lock
    let mut evs = vec![s(0), s(0), sg(0), s(1), s(1), sg(1)];
    for _ in 0..5 {
        evs.push(s(0));
    }
    for _ in 0..5 {
        evs.push(s(1));
    }
    v.push(("s13b_two_corrupt_cleaners", Case { lock: LockF::Half(DEAD), meta: MetaF::Absent, bystander: None, bystander_guard: true, cont: two(Drv::Server, Drv::Server), assume_grace: true, real_pids: false }, evs));
    // S13c: a cleaner read the dead authority's meta, a new authority published its own, the cleaner renames that one
    let mut evs = vec![];
    for _ in 0..9 {
        evs.push(s(0));
    }
    for _ in 0..5 {
        evs.push(s(1));
    }
    evs.push(s(0));
    v.push(("s13c_meta_of_live_authority", Case { lock: LockF::Rec(DEAD), meta: MetaF::Rec(DEAD), bystander: None, bystander_guard: true, cont: two(Drv::Server, Drv::Server), assume_grace: true, real_pids: false }, evs));
    // needs-grace witness (timing assumption broken on purpose: not an oracle case)
    let evs = vec![s(0), s(1), s(1), sg(1), s(1), s(1), s(1), s(1), s(1), s(0)];
    v.push(("needs_grace", Case { lock: LockF::Absent, meta: MetaF::Absent, bystander: None, bystander_guard: true, cont: two(Drv::Server, Drv::Server), assume_grace: false, real_pids: false }, evs));
    // S23 (fixed): half-written lock of a dead creator next to a dead pid's meta.json: the server recovers in 14 steps
    v.push(("s23_half_lock_dead_meta", Case { lock: LockF::Half(DEAD), meta: MetaF::Rec(DEAD2), bystander: None, bystander_guard: true, cont: vec![Contender { pid: 101, drv: Drv::Server }], assume_grace: true, real_pids: false }, (0..14).map(|_| sg(0)).collect()));
    // plain recovery by one server, and a client cleaning for a later server
    v.push(("recover_solo", Case { lock: LockF::Rec(DEAD), meta: MetaF::Rec(DEAD), bystander: None, bystander_guard: true, cont: vec![Contender { pid: 101, drv: Drv::Server }], assume_grace: true, real_pids: false }, (0..16).map(|_| s(0)).collect()));
    v
}


// ------------------------------------------------------------------ the REAL driver loops and the real shutdown path
extern "C" {
    fn kill(pid: i32, sig: i32) -> i32;
    fn prctl(option: i32, arg2: u64, arg3: u64, arg4: u64, arg5: u64) -> i32;
    fn waitpid(pid: i32, status: *mut i32, options: i32) -> i32;
}
const SIGTERM: i32 = 15;
const SIGKILL: i32 = 9;
fn reap_orphans(ms: u64) {
    // this process is a child subreaper: a ripd spawned by a `rip` client command ends up here when it dies
    let end = Instant::now() + Duration::from_millis(ms);
    loop {
        let mut st = 0i32;
        let r = unsafe { waitpid(-1, &mut st, 1 /* WNOHANG */) };
        if r <= 0 && Instant::now() > end {
            break;
        }
        if r <= 0 {
            std::thread::sleep(Duration::from_millis(20));
        }
    }
}
fn rip_bin() -> PathBuf {
    let exe = std::env::current_exe().unwrap();
    exe.parent().unwrap().parent().unwrap().parent().unwrap().join("target-cli/debug/rip")
}
fn fresh_store(lock: &LockF, meta: &MetaF) -> (Scratch, PathBuf, PathBuf) {
    let sc = Scratch::new("c18r");
    let data = sc.path().join("data");
    let ws = sc.path().join("ws");
    std::fs::create_dir_all(ripd::authority_dir(&data)).unwrap();
    std::fs::create_dir_all(&ws).unwrap();
    write_lock_file(&data, lock, &ws);
    write_meta_file(&data, meta, &ws);
    (sc, data, ws)
}
fn meta_pid_endpoint(data: &Path) -> Option<(u64, String)> {
    let s = std::fs::read_to_string(ripd::authority_meta_path(data)).ok()?;
    let v: serde_json::Value = serde_json::from_str(&s).ok()?;
    Some((v.get("pid")?.as_u64()?, v.get("endpoint")?.as_str()?.to_string()))
}

/// T2 for the server-side driver: the real `acquire_authority_lock_with_recovery` (ripd::verif wrapper) alone, from
/// every all-dead leftover state; it must return the guard (its own retry budget; for the recoverable states the 2 s
/// deadline is never consulted, so machine load cannot fail it) and lock.json must carry the caller's record.
fn real_server_loop(res: &mut RunResult) {
    let rt = tokio::runtime::Builder::new_current_thread().enable_all().build().expect("tokio runtime");
    hk::set_thread_pid(Some(101));
    hk::set_liveness(101, Some(PidLiveness::Alive));
    hk::set_liveness(DEAD as u32, Some(PidLiveness::Dead));
    hk::set_liveness(DEAD2 as u32, Some(PidLiveness::Dead));
    for lock in [LockF::Absent, LockF::Half(DEAD), LockF::Rec(DEAD)] {
        for meta in [MetaF::Absent, MetaF::Rec(DEAD2)] {
            let (_sc, data, ws) = fresh_store(&lock, &meta);
            let t0 = Instant::now();
            let r = rt.block_on(async { tokio::time::timeout(Duration::from_secs(180), ripd::verif::acquire_authority_lock_with_recovery(&data, &ws)).await });
            res.evaluations += 1;
            res.oracle_checks += 1;
            res.bump("kind=real_server_loop");
            let after = data_lock(&data);
            let err = match r {
                Ok(Ok(guard)) => {
                    let ok = after == 2 + 101;
                    drop(guard);
                    if ok { None } else { Some(format!("returned a guard but lock.json has code {after}")) }
                }
                Ok(Err(e)) => Some(format!("returned Err: {e}")),
                Err(_) => Some("did not return within 180 s".to_string()),
            };
            if let Some(e) = err {
                let class = if after == 1 { "real_server_loop_never_cleans_half_written_lock" } else { "real_server_loop_does_not_recover_dead_leftover" };
                res.bump(&format!("finding={class}"));
                res.oracle_violations.push(OracleViolation {
                    case_id: -1,
                    what: format!("the real server recovery loop (acquire_authority_lock_with_recovery), alone, from the all-dead leftover lock={lock:?} meta={meta:?} did not become the authority after {:.1} s: {e}", t0.elapsed().as_secs_f64()),
                    class: class.into(),
                    replay: json!({"real_loop": "server", "lock": format!("{lock:?}"), "meta": format!("{meta:?}"), "dead_pids": [DEAD, DEAD2], "how": "write the leftover files, call ripd::verif::acquire_authority_lock_with_recovery(data_dir, workspace_root)"}),
                });
            }
        }
    }
    // MIXED leftovers: the two files name different processes / a live pid without an endpoint.  The loop alone must
    // refuse (a live pid holds the lock: nothing is renamed, whatever meta.json says) or recover leaving the live pid's file.
    hk::set_liveness(BYST as u32, Some(PidLiveness::Alive));
    for (lock, meta, refuses) in [
        (LockF::Rec(BYST), MetaF::Rec(DEAD2), true),
        (LockF::Rec(BYST), MetaF::Absent, true),
        (LockF::Rec(BYST), MetaF::Rec(BYST), true),
        (LockF::Rec(DEAD), MetaF::Rec(BYST), false),
    ] {
        let (_sc, data, ws) = fresh_store(&lock, &meta);
        let (lock0, meta0) = (data_lock(&data), meta_file(&ripd::authority_meta_path(&data)));
        let r = rt.block_on(async { tokio::time::timeout(Duration::from_secs(180), ripd::verif::acquire_authority_lock_with_recovery(&data, &ws)).await });
        res.evaluations += 1;
        res.oracle_checks += 1;
        res.bump("kind=real_server_loop_mixed");
        let (lock1, meta1) = (data_lock(&data), meta_file(&ripd::authority_meta_path(&data)));
        let got_guard = matches!(&r, Ok(Ok(_)));
        let ret = match &r { Ok(Ok(_)) => "Ok(guard)".to_string(), Ok(Err(e)) => format!("Err({e})"), Err(_) => "no return within 180 s".to_string() };
        drop(r);
        let lock_live = lock0 == 2 + BYST;
        let meta_live = meta0 == 2 + BYST;
        let bad = if lock_live && (lock1 != lock0 || got_guard) {
            Some(("real_server_loop_takes_lock_of_live_pid", format!("lock.json carried the record of live pid {BYST} (code {lock0}); after the call it has code {lock1} and the call returned {ret}")))
        } else if meta_live && meta1 != meta0 {
            Some(("real_server_loop_takes_meta_of_live_pid", format!("meta.json named live pid {BYST}; after the call it has code {meta1} (returned {ret})")))
        } else if refuses != !got_guard {
            Some(("real_server_loop_does_not_recover_dead_leftover", format!("expected {} but the call returned {ret}", if refuses { "a refusal" } else { "the guard" })))
        } else {
            None
        };
        if let Some((class, detail)) = bad {
            res.bump(&format!("finding={class}"));
            res.oracle_violations.push(OracleViolation {
                case_id: -1,
                what: format!("the real server recovery loop (acquire_authority_lock_with_recovery), alone, pid 101, from the mixed leftover lock={lock:?} meta={meta:?} (pid {BYST} alive, {DEAD}/{DEAD2} dead, endpoint unreachable): {detail}"),
                class: class.into(),
                replay: json!({"real_loop": "server", "lock": format!("{lock:?}"), "meta": format!("{meta:?}"), "live_pids": [BYST, 101], "dead_pids": [DEAD, DEAD2], "schedule": ["write the leftover files", "ripd::verif::authority::set_liveness as listed", "call ripd::verif::acquire_authority_lock_with_recovery(data_dir, workspace_root) once, alone"]}),
            });
        }
    }
    // a live starter between its exclusive create and its write (empty lock.json, creator alive): the loop may clean it
    // only after it has watched it for more than the grace period.  Verdict from an upper bound on the rename time (first
    // sample that sees the file gone) against a lower bound on the first poll (taken before the call): load can only hide
    // a violation, never fabricate one.
    for meta in [MetaF::Absent, MetaF::Rec(DEAD2)] {
        let lock = LockF::Half(BYST);
        let (_sc, data, ws) = fresh_store(&lock, &meta);
        let stop = Arc::new(std::sync::atomic::AtomicBool::new(false));
        let (stop2, data2) = (stop.clone(), data.clone());
        let t0 = Instant::now();
        let sampler = std::thread::spawn(move || {
            while !stop2.load(std::sync::atomic::Ordering::SeqCst) {
                if data_lock(&data2) != 1 {
                    return Some(t0.elapsed());
                }
                std::thread::sleep(Duration::from_millis(2));
            }
            None
        });
        let r = rt.block_on(async { tokio::time::timeout(Duration::from_secs(180), ripd::verif::acquire_authority_lock_with_recovery(&data, &ws)).await });
        stop.store(true, std::sync::atomic::Ordering::SeqCst);
        let gone = sampler.join().ok().flatten();
        drop(r);
        res.evaluations += 1;
        res.oracle_checks += 1;
        res.bump("kind=real_server_loop_live_starter");
        if let Some(d) = gone {
            if d < Duration::from_millis(1000) {
                let class = "real_server_loop_cleans_invalid_lock_before_grace";
                res.bump(&format!("finding={class}"));
                res.oracle_violations.push(OracleViolation {
                    case_id: -1,
                    what: format!("the real server recovery loop, alone, found the still-empty lock.json of live starter {BYST} (meta={meta:?}) and renamed it {} ms after the call started — the 1 s grace period of a starter between create and write was not kept", d.as_millis()),
                    class: class.into(),
                    replay: json!({"real_loop": "server", "lock": "Half (empty lock.json, creator alive)", "meta": format!("{meta:?}"), "schedule": ["create an empty authority/lock.json", "call ripd::verif::acquire_authority_lock_with_recovery", "sample lock.json every 2 ms"]}),
                });
            }
        }
    }
    hk::set_thread_pid(None);
}

/// T2 for the grace timer of the SERVER loop: the real `acquire_authority_lock_with_recovery` on an actor thread, one grant per
/// `auth.*` point; the harness plays the other processes while the loop is parked and lets REAL time pass (a sleep of 1.1 s
/// with the loop parked: "more than the grace period has passed" holds whatever the load).  Two schedules in which the loop
/// has seen an unreadable lock more than a second ago, then SEEN that lock replaced (readable record / no lock), and then
/// reads the fresh, still-empty lock of a live starter: it must not call the corrupt cleanup on first sight.
fn real_server_timer(res: &mut RunResult) {
    for scenario in ["readable_then_fresh_starter", "absent_then_fresh_starter"] {
        let (_sc, data, ws) = fresh_store(&LockF::Half(DEAD), &MetaF::Absent);
        hk::set_liveness(101, Some(PidLiveness::Alive));
        hk::set_liveness(102, Some(PidLiveness::Alive));
        hk::set_liveness(DEAD as u32, Some(PidLiveness::Dead));
        let ctl = Arc::new(Ctl { mu: Mutex::new(vec![View::default(); 1]), cv: Condvar::new() });
        let ret: Arc<Mutex<Option<String>>> = Arc::new(Mutex::new(None));
        let (ctl2, ret2, data2, ws2) = (ctl.clone(), ret.clone(), data.clone(), ws.clone());
        let h = std::thread::spawn(move || {
            ACTOR.with(|a| a.set(Some(0)));
            CTL.with(|cc| *cc.borrow_mut() = Some(ctl2.clone()));
            hk::set_thread_pid(Some(101));
            let r = std::panic::catch_unwind(std::panic::AssertUnwindSafe(|| {
                park("start");
                let rt = tokio::runtime::Builder::new_current_thread().enable_all().build().expect("tokio runtime");
                let r = rt.block_on(ripd::verif::acquire_authority_lock_with_recovery(&data2, &ws2));
                *ret2.lock().unwrap() = Some(match &r { Ok(_) => "Ok(guard)".to_string(), Err(e) => format!("Err({e})") });
                std::mem::forget(r); // the process keeps its guard
            }));
            let mut g = ctl2.mu.lock().unwrap();
            g[0].done = true;
            g[0].crashed = r.is_err();
            ctl2.cv.notify_all();
        });
        let mut schedule: Vec<String> = vec![];
        let mut polls = 0usize; // iterations of the loop started so far
        let mut created_b: Option<Instant> = None;
        let mut fired_after: Option<Duration> = None;
        let mut in_stale = false;
        ctl.settle(0);
        for _ in 0..60 {
            let v = ctl.view(0);
            if v.done {
                break;
            }
            let name = v.parked.unwrap_or("?");
            match name {
                "auth.acquire.before_create" => {
                    polls += 1;
                    in_stale = false;
                    if scenario == "readable_then_fresh_starter" && polls == 2 {
                        write_lock_file(&data, &LockF::Rec(DEAD), &ws);
                        std::thread::sleep(Duration::from_millis(1100));
                        schedule.push(format!("iteration 2: the dead starter's record ({DEAD}) is now in lock.json; 1100 ms pass"));
                    }
                    if polls == 3 {
                        let _ = std::fs::remove_file(ripd::authority_lock_path(&data));
                        write_lock_file(&data, &LockF::Half(102), &ws);
                        created_b = Some(Instant::now());
                        schedule.push("iteration 3: live starter 102 has just created lock.json (still empty)".into());
                    }
                    if polls == 5 {
                        break;
                    }
                }
                "auth.stale.before_exists" => in_stale = true,
                "auth.read_lock" if !in_stale && scenario == "absent_then_fresh_starter" && polls == 2 => {
                    let _ = std::fs::remove_file(ripd::authority_lock_path(&data));
                    std::thread::sleep(Duration::from_millis(1100));
                    schedule.push("iteration 2: the unreadable lock is removed (another contender's cleanup) under the loop's read; 1100 ms pass".into());
                }
                "auth.corrupt.before_exists" => {
                    if let Some(t) = created_b {
                        if fired_after.is_none() {
                            fired_after = Some(t.elapsed());
                        }
                    }
                }
                _ => {}
            }
            schedule.push(format!("grant {name}"));
            if !ctl.grant(0, Cmd::Go, 0, true) {
                break;
            }
        }
        let lock_after = data_lock(&data);
        if !ctl.view(0).done {
            ctl.grant(0, Cmd::Crash, 0, true);
        }
        let _ = h.join();
        hk::set_thread_pid(None);
        res.evaluations += 1;
        res.oracle_checks += 1;
        res.bump("kind=real_server_timer");
        let returned = ret.lock().unwrap().clone();
        match (created_b, fired_after) {
            (Some(_), Some(d)) if d < Duration::from_millis(1000) => {
                let class = "real_server_loop_cleans_invalid_lock_before_grace";
                res.bump(&format!("finding={class}"));
                res.oracle_violations.push(OracleViolation {
                    case_id: -1,
                    what: format!("{scenario}: the real server recovery loop called the corrupt-lock cleanup on the still-empty lock.json of LIVE starter 102 {} ms after that file was created (lock code afterwards {lock_after}): its 1 s timer was still running from the unreadable lock it had seen replaced in the meantime", d.as_millis()),
                    class: class.into(),
                    replay: json!({"real_loop": "server, one grant per auth.* point", "scenario": scenario, "leftover": "empty lock.json of dead starter 900, no meta.json", "schedule": schedule, "returned": returned}),
                });
            }
            (None, _) => res.notes.push(format!("real_server_timer {scenario}: the loop returned ({returned:?}) before iteration 3 (2 s deadline on a slow machine?) — not judged")),
            _ => {}
        }
    }
}

fn wait_child(child: &mut std::process::Child, secs: u64) -> Option<std::process::ExitStatus> {
    let end = Instant::now() + Duration::from_secs(secs);
    loop {
        if let Ok(Some(st)) = child.try_wait() {
            return Some(st);
        }
        if Instant::now() > end {
            return None;
        }
        std::thread::sleep(Duration::from_millis(20));
    }
}

/// T2 for the client-side driver: the real `rip threads ensure` (ensure_local_authority_with_paths + the ripd it spawns)
/// from a half-written lock.json.  The verdict does not depend on rip's own 8 s budget (machine load): whatever the
/// command returns, the ORIGINAL empty lock.json must be gone — cleaned by the loop — when it ends.
fn real_client_loop(res: &mut RunResult) {
    let rip = rip_bin();
    if !rip.exists() {
        res.notes.push(format!("rip binary not found at {} — real client loop / shutdown path not exercised", rip.display()));
        return;
    }
    let (lock, meta) = (LockF::Half(0), MetaF::Absent);
    let (_sc, data, ws) = fresh_store(&lock, &meta);
    let mut child = match std::process::Command::new(&rip).args(["threads", "ensure"]).env("RIP_DATA_DIR", &data).env("RIP_WORKSPACE_ROOT", &ws)
        .stdin(std::process::Stdio::null()).stdout(std::process::Stdio::null()).stderr(std::process::Stdio::null()).spawn() {
        Ok(c) => c,
        Err(e) => {
            res.notes.push(format!("could not start {}: {e}", rip.display()));
            return;
        }
    };
    let st = wait_child(&mut child, 240);
    if st.is_none() {
        let _ = child.kill();
        let _ = child.wait();
    }
    res.evaluations += 1;
    res.oracle_checks += 1;
    res.bump("kind=real_client_loop");
    let lp = ripd::authority_lock_path(&data);
    let still_half = std::fs::metadata(&lp).map(|m| m.len() == 0).unwrap_or(false);
    if still_half {
        let class = "real_client_loop_never_cleans_half_written_lock";
        res.bump(&format!("finding={class}"));
        res.oracle_violations.push(OracleViolation {
            case_id: -1,
            what: format!("`rip threads ensure` (the real client recovery loop) from an empty lock.json and no meta.json ended ({st:?}) and the empty lock.json is still there: the corrupt-lock cleanup never ran"),
            class: class.into(),
            replay: json!({"real_loop": "client", "lock": "Half (empty lock.json)", "meta": "Absent", "how": "create authority/lock.json empty, run `rip threads ensure` with RIP_DATA_DIR / RIP_WORKSPACE_ROOT"}),
        });
    } else if !st.map(|s| s.success()).unwrap_or(false) {
        res.notes.push(format!("real client loop: `rip threads ensure` ended {st:?} but the half-written lock was cleaned (slow machine?)"));
    }
    // stop the authority the client spawned
    if let Some((pid, _)) = meta_pid_endpoint(&data) {
        unsafe { kill(pid as i32, SIGTERM) };
        let end = Instant::now() + Duration::from_secs(20);
        while lp.exists() && Instant::now() < end {
            std::thread::sleep(Duration::from_millis(50));
        }
        if lp.exists() {
            unsafe { kill(pid as i32, SIGKILL) };
        }
    }
    reap_orphans(500);
}

// ------------------------------------------------------------------ the REAL client loop on a scripted clock
/// One poll (= one iteration of the `loop` of ensure_local_authority_with_paths) of a scripted run: the harness plays the
/// rest of the world while the client is parked at the `auth.read_meta` point that starts the iteration.
#[derive(Clone, Debug, PartialEq)]
struct PollIn {
    /// scripted clock: milliseconds added before the iteration starts (on top of the loop's own back-off sleep)
    advance: u64,
    /// the file at the lock path: (instance, creating pid, record written)
    lock: Option<(u64, u64, bool)>,
    meta: MetaF,
    reach: bool,
    /// the lock is removed (by "somebody else") between the loop's exists() test and its read
    vanish: bool,
}
#[derive(Clone, Debug)]
struct GraceCase {
    live: Vec<u64>,
    polls: Vec<PollIn>,
}
#[derive(Default, Debug)]
struct GraceOutcome {
    /// per executed poll: the clock all its reads saw
    now: Vec<u64>,
    /// per executed poll: [act code, timed out, lock code after, meta code after]
    obs: Vec<[u64; 4]>,
    /// points / pings / spawns per poll (for the replay)
    trace: Vec<Vec<String>>,
    result: Option<String>,
    broken: Option<String>,
}

struct ClientProc {
    child: std::process::Child,
    stdin: Option<std::process::ChildStdin>,
    rx: std::sync::mpsc::Receiver<String>,
}
impl ClientProc {
    fn start(rip: &Path, data: &Path, ws: &Path) -> std::io::Result<Self> {
        Self::start_with(std::process::Command::new(rip), data, ws)
    }
    /// `cmd` = the command that runs the rip binary (possibly through a wrapper such as `unshare --pid --fork`)
    fn start_with(mut cmd: std::process::Command, data: &Path, ws: &Path) -> std::io::Result<Self> {
        use std::io::BufRead;
        let mut child = cmd
            .env("RIP_VERIF_ENSURE", "1")
            .env("RIP_DATA_DIR", data)
            .env("RIP_WORKSPACE_ROOT", ws)
            .stdin(std::process::Stdio::piped())
            .stdout(std::process::Stdio::piped())
            .stderr(std::process::Stdio::null())
            .spawn()?;
        let stdin = child.stdin.take();
        let out = child.stdout.take().expect("stdout");
        let (tx, rx) = std::sync::mpsc::channel();
        std::thread::spawn(move || {
            for line in std::io::BufReader::new(out).lines() {
                match line {
                    Ok(l) => {
                        if tx.send(l).is_err() {
                            break;
                        }
                    }
                    Err(_) => break,
                }
            }
        });
        Ok(ClientProc { child, stdin, rx })
    }
    /// next line of the driver; generous watchdog (lock step: the client only ever does one file-system call per line)
    fn line(&mut self) -> Option<String> {
        self.rx.recv_timeout(Duration::from_secs(180)).ok()
    }
    fn send(&mut self, cmd: &str) {
        use std::io::Write;
        if let Some(i) = self.stdin.as_mut() {
            let _ = writeln!(i, "{cmd}");
            let _ = i.flush();
        }
    }
    fn stop(mut self) {
        drop(self.stdin.take()); // EOF: the driver exits
        if wait_child(&mut self.child, 20).is_none() {
            let _ = self.child.kill();
            let _ = self.child.wait();
        }
    }
}

fn set_grace_files(data: &Path, ws: &Path, p: &PollIn) {
    let lp = ripd::authority_lock_path(data);
    let _ = std::fs::remove_file(&lp);
    if let Some((_, owner, written)) = p.lock {
        write_lock_file(data, &if written { LockF::Rec(owner) } else { LockF::Half(owner) }, ws);
    }
    let mp = ripd::authority_meta_path(data);
    let _ = std::fs::remove_file(&mp);
    write_meta_file(data, &p.meta, ws);
}

/// run the real client loop through the scripted polls
fn run_grace_case(rip: &Path, c: &GraceCase) -> GraceOutcome {
    let (_sc, data, ws) = fresh_store(&LockF::Absent, &MetaF::Absent);
    let mut out = GraceOutcome::default();
    let mut cp = match ClientProc::start(rip, &data, &ws) {
        Ok(c) => c,
        Err(e) => {
            out.broken = Some(format!("could not start the scripted client: {e}"));
            return out;
        }
    };
    // every pid of the script gets a scripted liveness answer
    let mut pids: Vec<u64> = vec![DEAD, DEAD2, BYST];
    for p in &c.polls {
        if let Some((_, o, _)) = p.lock {
            pids.push(o);
        }
        if let MetaF::Rec(m) = p.meta {
            pids.push(m);
        }
    }
    pids.sort();
    pids.dedup();
    let parse = |l: &str| -> (String, String, u64) {
        let w: Vec<&str> = l.split_whitespace().collect();
        let clock = w.last().and_then(|x| x.parse().ok()).unwrap_or(0);
        (w.first().unwrap_or(&"").to_string(), w.get(1).unwrap_or(&"").to_string(), clock)
    };
    let mut line = cp.line();
    let mut first = true;
    'polls: for p in &c.polls {
        // the client is parked at the point that starts an iteration
        let Some(l) = line.clone() else {
            out.broken = Some("the scripted client did not reach its next point within 180 s".into());
            break;
        };
        let (kind, name, clock) = parse(&l);
        if kind == "result" {
            break;
        }
        if !(kind == "point" && name == "auth.read_meta") {
            out.broken = Some(format!("expected the start of an iteration, got `{l}`"));
            break;
        }
        set_grace_files(&data, &ws, p);
        if first {
            for pid in &pids {
                cp.send(&format!("live {pid} {}", if c.live.contains(pid) { "alive" } else { "dead" }));
            }
            first = false;
        }
        cp.send(&format!("advance {}", p.advance));
        cp.send("go");
        out.now.push(clock + p.advance);
        let (mut act, mut timeout) = (0u64, 0u64);
        let mut tr = vec![];
        let mut in_cleanup = false;
        // the next `auth.read_meta` belongs to a cleanup function (stale: after its lock rename; corrupt: when a meta.json
        // exists), not to the next iteration
        let mut inner_read_meta = false;
        let mut vanished = false;
        loop {
            line = cp.line();
            let Some(l) = line.clone() else {
                out.broken = Some("the scripted client did not reach its next point within 180 s".into());
                out.trace.push(tr);
                break 'polls;
            };
            let (kind, name, clock) = parse(&l);
            if kind != "result" && clock != *out.now.last().unwrap() && !(kind == "point" && name == "auth.read_meta") {
                out.broken = Some(format!("the clock moved inside an iteration: `{l}`, expected {}", out.now.last().unwrap()));
            }
            match (kind.as_str(), name.as_str()) {
                ("point", "auth.read_meta") if !inner_read_meta => break, // next iteration
                ("point", "auth.read_meta") => inner_read_meta = false,
                ("point", "auth.stale.before_rename") => inner_read_meta = true,
                ("point", "auth.corrupt.before_meta_exists") => inner_read_meta = ripd::authority_meta_path(&data).exists(),
                ("result", ok) => {
                    if ok == "ok" {
                        act = 1;
                    } else if l.contains("timed out waiting for local authority") {
                        timeout = 1;
                    } else {
                        out.broken = Some(format!("the client loop returned an error the model does not know: {l}"));
                    }
                    out.result = Some(l.clone());
                    break;
                }
                ("point", "auth.stale.before_exists") => {
                    act = 3;
                    in_cleanup = true;
                }
                ("point", "auth.corrupt.before_exists") => {
                    act = 5;
                    in_cleanup = true;
                }
                ("point", "auth.read_lock") if !in_cleanup && p.vanish && !vanished => {
                    let _ = std::fs::remove_file(ripd::authority_lock_path(&data));
                    vanished = true;
                }
                ("ping", _) => cp.send(&format!("reach {}", p.reach as u64)),
                ("spawn", _) => act = 7,
                _ => {}
            }
            tr.push(format!("{kind} {name}"));
            cp.send("go");
        }
        // a cleanup "cleaned" iff the lock it found is gone (lock step: nobody else touched it)
        let lock_after = data_lock(&data);
        if (act == 3 || act == 5) && lock_after == 0 {
            act += 1;
        }
        out.obs.push([act, timeout, lock_after, meta_file(&ripd::authority_meta_path(&data))]);
        out.trace.push(tr);
        if out.result.is_some() || out.broken.is_some() {
            break;
        }
    }
    cp.stop();
    out
}

fn coq_grace_case(c: &GraceCase, o: &GraceOutcome) -> String {
    let mut now = 0u64;
    let polls = c.polls.iter().enumerate().map(|(i, p)| {
        // polls the loop never ran (it had returned) get a clock that keeps increasing
        now = o.now.get(i).copied().unwrap_or(now + p.advance + 20);
        let lock = match p.lock {
            None => "None".to_string(),
            Some((inst, owner, w)) => format!("(Some {{| lf_inst := {inst}; lf_owner := {owner}; lf_written := {} |}})", coq_bool(w)),
        };
        let meta = match &p.meta {
            MetaF::Absent => "MAbsent".to_string(),
            MetaF::Rec(m) => format!("(MRec {m})"),
        };
        format!("{{| pi_now := {now}; pi_lock := {lock}; pi_meta := {meta}; pi_reach := {}; pi_vanish := {} |}}", coq_bool(p.reach), coq_bool(p.vanish))
    }).collect::<Vec<_>>();
    let exp: Vec<u64> = o.obs.iter().flat_map(|x| x.iter().copied()).collect();
    format!("{{| c_table := full_table; c_live := {}; c_polls := [{}]; c_expect := {} |}}", coq_list_n(&c.live), polls.join("; "), coq_list_n(&exp))
}
const ACT_NAMES: [&str; 8] = ["nothing", "return Ok", "-", "stale cleanup (false)", "stale cleanup (cleaned)", "corrupt cleanup (false)", "corrupt cleanup (cleaned)", "spawn"];
fn grace_json(c: &GraceCase, o: &GraceOutcome) -> serde_json::Value {
    json!({"real_loop": "client (RIP_VERIF_ENSURE=1 rip: ensure_local_authority_with_paths on a scripted clock)", "live_pids": c.live,
           "polls": c.polls.iter().enumerate().map(|(i, p)| json!({"clock_ms": o.now.get(i), "advance_ms": p.advance, "lock": p.lock.map(|(inst, owner, w)| json!({"instance": inst, "creator_pid": owner, "record_written": w})), "meta_pid": match &p.meta { MetaF::Absent => None, MetaF::Rec(m) => Some(*m) }, "endpoint_reachable": p.reach, "lock_removed_under_the_read": p.vanish,
                "client_did": o.obs.get(i).map(|x| json!({"act": ACT_NAMES.get(x[0] as usize), "timed_out": x[1], "lock_code_after": x[2], "meta_code_after": x[3]})), "points": o.trace.get(i)})).collect::<Vec<_>>(),
           "result": o.result})
}

/// independent oracle for a scripted client run: nothing of a live pid is renamed / removed — except the still-unwritten
/// lock of a starter that this client has seen invalid, the same instance at every poll, for more than the grace period
fn grace_oracle(c: &GraceCase, o: &GraceOutcome) -> Option<(String, String)> {
    if let Some(b) = &o.broken {
        return Some((b.clone(), "panic".into()));
    }
    // since when (scripted clock) the instance now at the lock path has been there, unwritten, at every poll
    let mut invalid_since: Option<(u64, u64)> = None; // (instance, clock)
    for (i, p) in c.polls.iter().enumerate() {
        let (Some(x), Some(now)) = (o.obs.get(i), o.now.get(i)) else { break };
        match p.lock {
            Some((inst, _, false)) if p.meta == MetaF::Absent && !p.vanish => {
                if invalid_since.map(|(j, _)| j) != Some(inst) {
                    invalid_since = Some((inst, *now));
                }
            }
            _ => invalid_since = None,
        }
        if let Some((inst, owner, written)) = p.lock {
            let gone = x[2] == 0 && !p.vanish;
            if gone && c.live.contains(&owner) {
                if written {
                    return Some((format!("poll {i} (clock {now} ms): the client renamed lock.json carrying the record of LIVE pid {owner}"), "client_loop_takes_lock_of_live_pid".into()));
                }
                let seen_for = invalid_since.filter(|(j, _)| *j == inst).map(|(_, t)| now - t).unwrap_or(0);
                if seen_for <= 1000 {
                    return Some((format!("poll {i} (clock {now} ms): the client renamed the still-unwritten lock.json of LIVE starter {owner} (instance {inst}) that it had seen for {seen_for} ms — the 1 s grace period counts from an earlier, different lock"), "client_loop_cleans_invalid_lock_before_grace_of_this_instance".into()));
                }
            }
        }
        if p.lock.is_some() && x[2] == 0 {
            invalid_since = None; // cleaned (or vanished): whatever comes next is another lock
        }
        if let MetaF::Rec(m) = p.meta {
            if c.live.contains(&m) && x[3] != 2 + m {
                return Some((format!("poll {i} (clock {now} ms): the client removed meta.json of LIVE pid {m}"), "client_loop_takes_meta_of_live_pid".into()));
            }
            // two independent signals: an authority whose endpoint ANSWERS is not gone, whatever the pid probe says about
            // the pid in meta.json (a client in another pid namespace sees it as dead)
            let lock_before = match p.lock { None => 0, Some((_, o, true)) => 2 + o, Some((_, _, false)) => 1 };
            if p.reach && (x[3] != 2 + m || x[2] != lock_before) {
                return Some((format!("poll {i} (clock {now} ms): meta.json names pid {m} (probe answer: {}) and its endpoint ANSWERED the ping, yet the client {} (lock code {lock_before} -> {}, meta code {} -> {}) instead of attaching", if c.live.contains(&m) { "alive" } else { "dead — e.g. a pid of another pid namespace" }, ACT_NAMES.get(x[0] as usize).copied().unwrap_or("?"), x[2], 2 + m, x[3]), "client_loop_takes_files_of_answering_authority".into()));
            }
        }
    }
    None
}

fn seen_invalid(p: &PollIn) -> bool {
    p.meta == MetaF::Absent && !p.vanish && matches!(p.lock, Some((_, _, false)))
}

fn grace_corpus() -> Vec<(&'static str, GraceCase)> {
    let p = |advance: u64, lock: Option<(u64, u64, bool)>| PollIn { advance, lock, meta: MetaF::Absent, reach: false, vanish: false };
    let pm = |advance: u64, lock: Option<(u64, u64, bool)>, meta: MetaF| PollIn { advance, lock, meta, reach: false, vanish: false };
    let mut v = vec![];
    // seed C18-6: starter X (101) unwritten, X readable for > 1 s, the lock changes hands, starter Y's (102) still-empty lock
    v.push(("three_phase_two_starters", GraceCase { live: vec![101, 102], polls: vec![p(0, Some((1, 101, false))), p(0, Some((1, 101, false))), p(600, Some((1, 101, true))), p(600, Some((1, 101, true))), p(600, Some((1, 101, true))), p(0, Some((2, 102, false))), p(300, Some((2, 102, false))), p(300, Some((2, 102, true)))] }));
    // S25: the unwritten lock of a dead starter vanishes under the client's read, then a live starter's fresh lock
    v.push(("vanished_then_fresh_starter", GraceCase { live: vec![102], polls: vec![p(0, Some((1, DEAD, false))), PollIn { advance: 500, lock: Some((1, DEAD, false)), meta: MetaF::Absent, reach: false, vanish: true }, p(600, Some((2, 102, false))), p(100, Some((2, 102, true)))] }));
    // OUTSIDE the hypothesis `stable_polls` (open finding S13b's family: another contender's corrupt cleanup + a new exclusive
    // create, both between two polls of this client): the timer runs on from the dead starter's lock to the live starter's
    v.push(("unobserved_instance_switch", GraceCase { live: vec![102], polls: vec![p(0, Some((1, DEAD, false))), p(1100, Some((2, 102, false)))] }));
    // the legitimate cleanup: a dead starter's empty lock, watched for more than a second
    v.push(("dead_half_cleaned_after_grace", GraceCase { live: vec![], polls: vec![p(0, Some((1, DEAD, false))), p(400, Some((1, DEAD, false))), p(700, Some((1, DEAD, false))), p(0, None)] }));
    // two independent signals (seed C18-7): the authority holds both files and ANSWERS, but its pid means nothing to this client
    // (another pid namespace: every probe says dead) — attach, touch nothing
    let pr = |advance: u64, lock: Option<(u64, u64, bool)>, meta: MetaF| PollIn { advance, lock, meta, reach: true, vanish: false };
    v.push(("answering_authority_pid_not_visible", GraceCase { live: vec![], polls: vec![pr(0, Some((1, BYST, true)), MetaF::Rec(BYST))] }));
    v.push(("answering_authority_after_spawn_and_wait", GraceCase { live: vec![], polls: vec![p(0, None), p(300, Some((1, BYST, false))), pr(300, Some((1, BYST, true)), MetaF::Rec(BYST))] }));
    v.push(("answering_authority_other_lock_pid", GraceCase { live: vec![], polls: vec![pr(0, Some((1, DEAD, true)), MetaF::Rec(BYST))] }));
    v.push(("answering_authority_no_lock", GraceCase { live: vec![], polls: vec![pr(0, None, MetaF::Rec(DEAD))] }));
    // MIXED leftovers, static over several polls (the client must leave a live pid's file alone, whatever the other file says)
    for (name, lock, meta, live) in [
        ("live_lock_dead_meta", Some((1, BYST, true)), MetaF::Rec(DEAD), vec![BYST]),
        ("dead_lock_live_meta", Some((1, DEAD, true)), MetaF::Rec(BYST), vec![BYST]),
        ("live_lock_no_meta", Some((1, BYST, true)), MetaF::Absent, vec![BYST]),
        ("live_half_no_meta", Some((1, BYST, false)), MetaF::Absent, vec![BYST]),
        ("live_half_dead_meta", Some((1, BYST, false)), MetaF::Rec(DEAD), vec![BYST]),
        ("live_lock_other_live_meta", Some((1, BYST, true)), MetaF::Rec(102), vec![BYST, 102]),
        ("dead_lock_other_dead_meta", Some((1, DEAD, true)), MetaF::Rec(DEAD2), vec![]),
        ("dead_meta_only", None, MetaF::Rec(DEAD), vec![]),
    ] {
        v.push((name, GraceCase { live, polls: (0..6).map(|i| pm([0, 100, 300, 300, 200, 50][i], lock, meta.clone())).collect() }));
    }
    v
}

fn random_grace_case(r: &mut Rng) -> GraceCase {
    let live = match r.below(4) { 0 => vec![101], 1 => vec![101, 102], 2 => vec![BYST, 102], _ => vec![101, 102, BYST] };
    let owners = [101u64, 102, BYST, DEAD, DEAD2];
    let n = r.range(3, 9) as usize;
    let mut polls: Vec<PollIn> = vec![];
    let mut inst = 1u64;
    let mut cur: Option<(u64, u64, bool)> = None;
    for _ in 0..n {
        // the lock path: mostly evolves as real locks do (created empty, written, removed), sometimes jumps
        cur = match (cur, r.below(10)) {
            (Some((i, o, false)), 0..=3) => Some((i, o, false)),
            (Some((i, o, false)), 4..=6) => Some((i, o, true)),
            (Some((i, o, true)), 0..=5) => Some((i, o, true)),
            (_, 7) => None,
            _ => {
                inst += 1;
                Some((inst, *r.pick(&owners), r.chance(1, 3)))
            }
        };
        let mut meta = match r.below(8) { 0 => MetaF::Rec(DEAD), 1 => MetaF::Rec(*r.pick(&owners)), _ => MetaF::Absent };
        let mut reach = r.chance(1, 12);
        // a coherent authority: meta.json names the pid whose record is in lock.json; its endpoint answers half of the time,
        // whatever the probe says about that pid (dead owners = pids this client cannot see)
        if let Some((_, o, true)) = cur {
            if r.chance(1, 5) {
                meta = MetaF::Rec(o);
                reach = r.chance(1, 2);
            }
        }
        let mut p = PollIn { advance: *r.pick(&[0u64, 0, 50, 300, 700, 1100, 2500]), lock: cur, meta, reach, vanish: cur.is_some() && r.chance(1, 10) };
        // a change of hands is OBSERVED (hypothesis `stable_polls` of c18_client_grace_resets): two consecutive polls that both
        // see an unwritten lock see the same instance.  (The excluded scripts are the corpus case unobserved_instance_switch.)
        if let Some(q) = polls.last() {
            if seen_invalid(q) && seen_invalid(&p) && q.lock.map(|x| x.0) != p.lock.map(|x| x.0) {
                p.lock = q.lock;
                cur = q.lock;
            }
        }
        polls.push(p);
    }
    GraceCase { live, polls }
}

/// "release on drop" ties "is the authority" to "holds the lock": a real `rip serve` with a request in flight is told to
/// stop; as long as the process has not exited and still has that connection open (it is draining), lock.json must still
/// carry its record.
fn real_shutdown_path(res: &mut RunResult) {
    use std::io::{Read, Write};
    let rip = rip_bin();
    if !rip.exists() {
        return;
    }
    let (_sc, data, ws) = fresh_store(&LockF::Absent, &MetaF::Absent);
    let mut child = match std::process::Command::new(&rip).arg("serve").env("RIP_DATA_DIR", &data).env("RIP_WORKSPACE_ROOT", &ws).env("RIP_SERVER_ADDR", "127.0.0.1:0")
        .stdin(std::process::Stdio::null()).stdout(std::process::Stdio::null()).stderr(std::process::Stdio::null()).spawn() {
        Ok(c) => c,
        Err(e) => {
            res.notes.push(format!("could not start rip serve: {e}"));
            return;
        }
    };
    let pid = child.id() as u64;
    let end = Instant::now() + Duration::from_secs(240);
    let mut ep = None;
    while Instant::now() < end {
        if let Some((p, e)) = meta_pid_endpoint(&data) {
            if p == pid {
                ep = Some(e);
                break;
            }
        }
        if let Ok(Some(_)) = child.try_wait() {
            break;
        }
        std::thread::sleep(Duration::from_millis(20));
    }
    let finish = |child: &mut std::process::Child| {
        if wait_child(child, 30).is_none() {
            let _ = child.kill();
            let _ = child.wait();
        }
    };
    let Some(ep) = ep else {
        res.notes.push("real shutdown path: rip serve did not publish meta.json within 240 s (not judged)".into());
        let _ = child.kill();
        finish(&mut child);
        return;
    };
    let addr = ep.trim_start_matches("http://").to_string();
    let Ok(mut conn) = std::net::TcpStream::connect(&addr) else {
        res.notes.push(format!("real shutdown path: could not connect to {addr} (not judged)"));
        unsafe { kill(pid as i32, SIGTERM) };
        finish(&mut child);
        return;
    };
    // a request in flight: complete headers, incomplete body (the handler's Json extractor waits for the rest)
    let _ = conn.write_all(b"POST /sessions/verif-c18/input HTTP/1.1\r\nHost: verif\r\nContent-Type: application/json\r\nContent-Length: 4096\r\n\r\n{\"input\":\"");
    let _ = conn.flush();
    std::thread::sleep(Duration::from_millis(300));
    let _ = conn.set_nonblocking(true);
    let conn_open = |conn: &mut std::net::TcpStream| -> bool {
        let mut b = [0u8; 1];
        match conn.peek(&mut b) {
            Ok(_) => false, // EOF, or a response arrived: the request is no longer in flight
            Err(e) => e.kind() == std::io::ErrorKind::WouldBlock,
        }
    };
    let in_flight_before = conn_open(&mut conn);
    res.evaluations += 1;
    res.oracle_checks += 1;
    res.bump("kind=real_shutdown_path");
    unsafe { kill(pid as i32, SIGTERM) };
    let t0 = Instant::now();
    let mut bad_since: Option<Instant> = None;
    let mut worst = Duration::ZERO;
    let mut exited = false;
    while t0.elapsed() < Duration::from_secs(60) {
        // order matters: lock first, then the connection, then the process — on a correct server the connection closes
        // BEFORE the guard is dropped, so "lock gone" observed first and "still draining" observed after it is a fact
        let lock_ok = data_lock(&data) == 2 + pid;
        let draining = conn_open(&mut conn);
        if let Ok(Some(_)) = child.try_wait() {
            exited = true;
            break;
        }
        if !lock_ok && draining {
            let s = *bad_since.get_or_insert_with(Instant::now);
            worst = worst.max(s.elapsed());
        } else {
            bad_since = None;
        }
        std::thread::sleep(Duration::from_millis(10));
    }
    if !exited {
        let _ = child.kill();
    }
    finish(&mut child);
    let mut junk = [0u8; 64];
    let _ = conn.read(&mut junk);
    if !in_flight_before {
        res.notes.push("real shutdown path: the request was not in flight when SIGTERM was sent (not judged)".into());
    }
    // unchanged code: the guard is dropped at the end of serve(), a few milliseconds before the runtime (and with it the
    // connection) goes away — even a badly loaded machine does not stretch that to a second; released at the START of the
    // shutdown the gap is the whole drain (2 s timeout with the request in flight)
    if worst >= Duration::from_millis(1000) {
        let class = "authority_released_its_lock_while_still_draining";
        res.bump(&format!("finding={class}"));
        res.oracle_violations.push(OracleViolation {
            case_id: -1,
            what: format!("rip serve (pid {pid}) was sent SIGTERM with a request in flight: for at least {} ms the process was still running and still had the connection open, but lock.json no longer carried its record — any other start wins the exclusive create while this authority is still serving", worst.as_millis()),
            class: class.into(),
            replay: json!({"real_process": "rip serve", "how": "start `rip serve` on an empty store, open a TCP connection to its endpoint and send `POST /sessions/x/input` with Content-Length 4096 and 10 body bytes, send SIGTERM, watch lock.json until the process exits"}),
        });
    }
    reap_orphans(100);
}

fn main() {
    // re-executed under another uid by uid::real_probe: answers of the real pid_liveness, nothing else
    let argv: Vec<String> = std::env::args().collect();
    if argv.get(1).map(|s| s == "--c18-probe").unwrap_or(false) {
        uid::probe_helper_main(&argv[2..]);
    }
    let a = parse_args();
    let mut res = RunResult::new("C18", &a);
    // this process is a child subreaper: a ripd spawned by a `rip` client command ends up here when it dies
    unsafe { prctl(36 /* PR_SET_CHILD_SUBREAPER */, 1, 0, 0, 0) };
    // 0. the REAL liveness probe (this process and a helper of another uid), before any liveness answer is scripted; the
    //    client of another uid is started now and judged at the end (it waits out its own 8 s budget meanwhile)
    let pending_client = uid::start_client_other_uid(&mut res);
    let probe_files = uid::real_probe(&mut res, &a.out, !a.oracle_only());
    res.rule = "case = (leftover lock/meta files, 1-4 contenders each running the server loop, the client loop or a script of public calls, schedule of single file-system steps / crashes with adversarial ping/timer/deadline bits); all maximal 2-contender interleavings of the scripts over every leftover state (capped per pair), random 2-4 contender schedules with crashes; non-trivial = at least two contenders touched the files".into();
    let thorough = a.thorough();
    let mut r = Rng::new(a.seed);
    let mut w = CaseWriter::new(&a.out, "Model.Authority", "check_case", "model_obs", 150);
    let mut distinct = Distinct::default();
    let write_cases = !a.oracle_only();
    let mut pcs_hist = std::collections::BTreeMap::<u64, u64>::new();

    // hook
    rip_kernel::verif::set_hook(Some(Arc::new(|name: &'static str| park(name))));

    // a script that calls a cleanup function outside its contract (stale cleanup for a live pid, corrupt cleanup
    // without having watched an invalid lock for the grace period) is compared with the model but not judged
    let in_contract = |c: &Case| c.cont.iter().all(|x| match &x.drv { Drv::Script(cs) => !cs.iter().any(|k| matches!(k, Call::Corrupt | Call::Stale(BYST))), _ => true });
    let mut record = |res: &mut RunResult, w: &mut CaseWriter, tag: &str, c: &Case, o: Outcome, expect_violation: bool| {
        res.evaluations += 1;
        let judged = in_contract(c);
        if judged {
            res.oracle_checks += 1;
        } else {
            res.bump("oracle_exempt_out_of_contract_script");
        }
        res.bump(&format!("kind={tag}"));
        res.bump(&format!("contenders={}", c.cont.len()));
        res.bump(&format!("events={}", match o.events.len() { 0..=5 => "0-5", 6..=12 => "6-12", 13..=25 => "13-25", _ => "26+" }));
        res.bump(&format!("max_holders={}", o.max_holders));
        for p in &o.pcs_seen {
            *pcs_hist.entry(*p).or_insert(0) += 1;
        }
        let id = if write_cases { w.push(coq_case(c, &o)) as i64 } else { res.evaluations as i64 - 1 };
        if write_cases && res.case_index.len() < 3000 {
            res.case_index.insert(id.to_string(), case_json(c, &o.events));
        }
        let nontrivial = o.events.iter().filter_map(|e| if let Ev::Step(i, _) = e { Some(*i) } else { None }).collect::<std::collections::BTreeSet<_>>().len() >= 2;
        if nontrivial {
            distinct.add(&format!("{:?}{:?}", c, o.events));
        }
        if res.samples.len() < 3 && nontrivial && o.events.len() > 8 {
            res.samples.push(case_json(c, &o.events));
        }
        if !judged {
            return;
        }
        if let Some((what, class)) = classify(&o) {
            if expect_violation {
                res.notes.push(format!("{tag}: expected outcome outside the timing assumption: {what}"));
            } else {
                // shrink the schedule while the same class keeps failing
                let cls = class.clone();
                let evs = shrink_vec(o.events.clone(), |evs| {
                    let mut pol = scripted_policy(evs.to_vec());
                    classify(&run_case(c, &mut pol, evs.len())).map(|x| x.1) == Some(cls.clone())
                });
                res.bump(&format!("finding={class}"));
                if res.oracle_violations.iter().filter(|v| v.class == class).count() < 3 {
                    res.oracle_violations.push(OracleViolation { case_id: id, what, class, replay: case_json(c, &evs) });
                } else {
                    res.oracle_violations.push(OracleViolation { case_id: id, what: String::new(), class, replay: json!(null) });
                }
            }
        } else if expect_violation {
            res.notes.push(format!("{tag}: the witness outside the timing assumption did NOT produce two guards"));
        }
    };

    // 1. corpus
    for (tag, c, evs) in corpus() {
        let n = evs.len();
        let mut pol = scripted_policy(evs);
        let o = run_case(&c, &mut pol, n);
        let ev = !c.assume_grace;
        record(&mut res, &mut w, tag, &c, o, ev);
    }
    // 2. real pids: a reaped child is the dead authority, the harness process is the contender
    for drv in [Drv::Server, Drv::Script(vec![Call::ReadLock, Call::Live(0), Call::Stale(0), Call::Acquire])] {
        let mut child = std::process::Command::new("true").spawn().expect("spawn true");
        let dead = child.id() as u64;
        let _ = child.wait();
        let me = std::process::id() as u64;
        let drv = match drv {
            Drv::Script(_) => Drv::Script(vec![Call::ReadLock, Call::Live(dead), Call::Live(me), Call::Stale(dead), Call::Acquire]),
            d => d,
        };
        let c = Case { lock: LockF::Rec(dead), meta: MetaF::Rec(dead), bystander: None, bystander_guard: true, cont: vec![Contender { pid: me, drv }], assume_grace: true, real_pids: true };
        // pid_max is small on this box and every builder spawns threads: if the reaped pid has been handed out again
        // (before or during the run) the case says nothing about rip — skip it instead of alarming
        let is_dead = |p: u64| matches!(ripd::pid_liveness(p as u32), PidLiveness::Dead);
        if !is_dead(dead) {
            res.notes.push(format!("real_pid: reaped pid {dead} already reused, case skipped"));
            continue;
        }
        let mut pol = |_p: usize, st: &[usize], _: &[u64]| Some(Ev::Step(st[0], 0));
        let o = run_case(&c, &mut pol, 40);
        if !is_dead(dead) {
            res.notes.push(format!("real_pid: reaped pid {dead} reused during the run, case skipped"));
            continue;
        }
        record(&mut res, &mut w, "real_pid", &c, o, false);
    }
    // 3. all 2-contender interleavings of the scripts over every leftover state
    // the failing-input search of ./check (thorough generator, --oracle-only 1) gets a budget of a few minutes
    let search = thorough && a.oracle_only();
    let cap = if search { 60 } else if thorough { 400 } else { 12 };
    let sc = scripts();
    for (_, lock, meta, by, by_guard) in leftovers() {
        for i in 0..sc.len() {
            for j in i..sc.len() {
                let c = Case { lock: lock.clone(), meta: meta.clone(), bystander: by, bystander_guard: by_guard, cont: vec![Contender { pid: 101, drv: Drv::Script(sc[i].clone()) }, Contender { pid: 102, drv: Drv::Script(sc[j].clone()) }], assume_grace: true, real_pids: false };
                let mut outs = vec![];
                explore(&c, cap, 0, |_, o| outs.push(o));
                for o in outs {
                    record(&mut res, &mut w, "exhaustive2", &c, o, false);
                }
            }
        }
    }
    // 4. loops against loops: server/server, server/client over every leftover, DFS capped (grace bit on)
    let cap2 = if search { 40 } else if thorough { 300 } else { 10 };
    for (_, lock, meta, by, by_guard) in leftovers() {
        for (d1, d2) in [(Drv::Server, Drv::Server), (Drv::Server, Drv::Client), (Drv::Client, Drv::Client)] {
            let c = Case { lock: lock.clone(), meta: meta.clone(), bystander: by, bystander_guard: by_guard, cont: vec![Contender { pid: 101, drv: d1.clone() }, Contender { pid: 102, drv: d2.clone() }], assume_grace: true, real_pids: false };
            let mut outs = vec![];
            // deadline bit set: every loop gives up instead of spinning; grace bit set
            explore(&c, cap2, 6, |_, o| outs.push(o));
            for o in outs {
                record(&mut res, &mut w, "loops2", &c, o, false);
            }
        }
    }
    // 5. random 2-4 contenders, crashes, adversarial bits
    let nrand = if search { 3000 } else if thorough { 20000 } else { 500 };
    for k in 0..nrand {
        let c = random_case(&mut r);
        let mut r2 = r.fork();
        let crash = if k % 3 == 0 { 4 } else { 0 };
        let mut pol = random_policy(&mut r2, crash);
        let o = run_case(&c, &mut pol, 70);
        record(&mut res, &mut w, "random", &c, o, false);
    }
    // 6. recovery oracle ("a store whose previous authority crashed becomes usable again"): from every all-dead
    //    leftover state a server loop scheduled alone (a second contender idle) must end up serving with its own
    //    lock.json and meta.json; a client loop scheduled alone must reach its "no meta: lock exists? else spawn"
    //    branch (or find a reachable endpoint)
    for lock in [LockF::Absent, LockF::Half(DEAD), LockF::Rec(DEAD)] {
        for meta in [MetaF::Absent, MetaF::Rec(DEAD), MetaF::Rec(DEAD2)] {
            for idle in [false, true] {
                let mut cont = vec![Contender { pid: 101, drv: Drv::Server }];
                if idle {
                    cont.push(Contender { pid: 102, drv: Drv::Server });
                }
                let c = Case { lock: lock.clone(), meta: meta.clone(), bystander: None, bystander_guard: true, cont, assume_grace: true, real_pids: false };
                let mut pol = |_p: usize, _st: &[usize], pcs: &[u64]| if pcs[0] == 21 || pcs[0] == 0 { None } else { Some(Ev::Step(0, 2)) };
                let o = run_case(&c, &mut pol, 40);
                let n = c.cont.len();
                let fin: Vec<u64> = o.obs[o.obs.len() - (3 + 4 * n)..].to_vec();
                let recovered = fin[0] == 2 + 101 && fin[1] == 2 + 101 && fin[3] == 21 && fin[4] == 1;
                let (events, steps) = (o.events.clone(), o.events.len());
                record(&mut res, &mut w, "recover_solo_server", &c, o, false);
                res.oracle_checks += 1;
                if !recovered {
                    let class = if fin[0] == 1 && fin[1] != 0 { "wedged_half_written_lock_next_to_meta_json" } else { "dead_leftover_not_recovered_by_solo_server" };
                    res.bump(&format!("finding={class}"));
                    res.oracle_violations.push(OracleViolation {
                        case_id: res.evaluations as i64 - 1,
                        what: format!("a server loop running alone for {steps} steps (endpoint unreachable, 1 s timer elapsed, deadline not passed) from the all-dead leftover lock={:?} meta={:?} did not become the authority: final lock code {} meta code {} pc {} guard {}", c.lock, c.meta, fin[0], fin[1], fin[3], fin[4]),
                        class: class.into(),
                        replay: case_json(&c, &events[..events.len().min(14)]),
                    });
                }
            }
        }
    }
    for meta in [MetaF::Rec(DEAD), MetaF::Rec(DEAD2)] {
        let c = Case { lock: LockF::Absent, meta: meta.clone(), bystander: None, bystander_guard: true, cont: vec![Contender { pid: 101, drv: Drv::Client }], assume_grace: true, real_pids: false };
        let mut pol = |_p: usize, _st: &[usize], _pcs: &[u64]| Some(Ev::Step(0, 0));
        let o = run_case(&c, &mut pol, 40);
        // pc 10 = lock-exists test of the no-meta branch, pc 25 = the same test in the meta branch (fix S24): with no lock both spawn
        let reached_spawn_branch = o.pcs_seen.contains(&10) || o.pcs_seen.contains(&25);
        let finished = o.events.len() < 40;
        let events = o.events.clone();
        record(&mut res, &mut w, "recover_solo_client", &c, o, false);
        res.oracle_checks += 1;
        if !reached_spawn_branch && !finished {
            let class = "client_never_spawns_meta_json_of_dead_pid_without_lock";
            res.bump(&format!("finding={class}"));
            res.oracle_violations.push(OracleViolation {
                case_id: res.evaluations as i64 - 1,
                what: format!("a client loop running alone for 40 steps from lock=Absent meta={:?} (pid dead, endpoint unreachable) cycles read-meta / ping / liveness / stale-cleanup(false: no lock) and never reaches the branch that spawns an authority", c.meta),
                class: class.into(),
                replay: case_json(&c, &events[..8]),
            });
        }
    }
    // 6a. FAIR rounds (c18_recovers_under_fair_rounds): 2-4 server loops, every all-dead leftover, 15 rounds in each of which
    //     every contender that can still step takes 1-2 steps in a random order (timer expired, endpoint unreachable, deadline
    //     not passed): at some point of the schedule there must be a live guard
    let nfair = if search { 60 } else if thorough { 300 } else { 36 };
    for k in 0..nfair {
        let lock = [LockF::Absent, LockF::Half(DEAD), LockF::Rec(DEAD)][k % 3].clone();
        let meta = [MetaF::Absent, MetaF::Rec(DEAD), MetaF::Rec(DEAD2)][(k / 3) % 3].clone();
        let n = 2 + (k / 9) % 3;
        let c = Case { lock, meta, bystander: None, bystander_guard: true, cont: (0..n).map(|i| Contender { pid: 101 + i as u64, drv: Drv::Server }).collect(), assume_grace: true, real_pids: false };
        let mut r2 = r.fork();
        let mut queue: Vec<usize> = vec![];
        let mut rounds = 0usize;
        let mut pol = |_p: usize, st: &[usize], pcs: &[u64]| -> Option<Ev> {
            loop {
                if let Some(a) = queue.pop() {
                    // a contender that finished meanwhile, or serves (a step would begin its shutdown), is skipped
                    if st.contains(&a) && pcs[a] != 21 {
                        return Some(Ev::Step(a, 2));
                    }
                    continue;
                }
                if rounds == 15 {
                    return None;
                }
                rounds += 1;
                let mut round: Vec<usize> = st.iter().copied().filter(|a| pcs[*a] != 21).collect();
                if round.is_empty() {
                    return None;
                }
                for a in round.clone() {
                    if r2.chance(1, 3) {
                        round.push(a);
                    }
                }
                // shuffle
                for i in (1..round.len()).rev() {
                    let j = r2.below(i as u64 + 1) as usize;
                    round.swap(i, j);
                }
                queue = round;
            }
        };
        let o = run_case(&c, &mut pol, 15 * 8 * 2 + 10);
        let recovered = o.max_holders >= 1;
        let events = o.events.clone();
        record(&mut res, &mut w, "fair_rounds", &c, o, false);
        res.oracle_checks += 1;
        if !recovered {
            let class = "no_authority_after_15_fair_rounds";
            res.bump(&format!("finding={class}"));
            res.oracle_violations.push(OracleViolation {
                case_id: res.evaluations as i64 - 1,
                what: format!("{n} server loops from the all-dead leftover lock={:?} meta={:?}, 15 rounds in which every contender stepped at least once (timer expired, endpoint unreachable, deadline not passed): nobody ever held the guard", c.lock, c.meta),
                class: class.into(),
                replay: case_json(&c, &events),
            });
        }
    }
    // 6b. the REAL client loop (rip binary, RIP_VERIF_ENSURE driver) on a scripted clock against scripted lock / meta states:
    //     compared poll by poll with Model/AuthorityGrace.v (client_run full_table), judged by grace_oracle
    let mut wg = CaseWriter::new(&a.out.join("grace"), "Model.AuthorityGrace", "check_case", "model_obs", 150).with_base(100_000);
    let rip = rip_bin();
    if rip.exists() {
        let mut cases: Vec<(String, GraceCase)> = grace_corpus().into_iter().map(|(n, c)| (n.to_string(), c)).collect();
        let ngrace = if search { 600 } else if thorough { 3000 } else { 150 };
        for _ in 0..ngrace {
            cases.push(("random".to_string(), random_grace_case(&mut r)));
        }
        for (tag, c) in cases {
            let o = run_grace_case(&rip, &c);
            res.evaluations += 1;
            res.oracle_checks += 1;
            res.bump(&format!("kind=client_scripted_{}", if tag == "random" { "random" } else { "corpus" }));
            res.bump(&format!("client_polls={}", o.obs.len()));
            for x in &o.obs {
                res.bump(&format!("client_act={}", x[0]));
            }
            let id = if write_cases { wg.push(coq_grace_case(&c, &o)) as i64 } else { 100_000 + res.evaluations as i64 };
            if write_cases && res.case_index.len() < 3400 {
                res.case_index.insert(id.to_string(), grace_json(&c, &o));
            }
            if o.obs.len() >= 3 {
                distinct.add(&format!("{:?}", c));
            }
            if tag == "unobserved_instance_switch" {
                match grace_oracle(&c, &o) {
                    Some((what, _)) => res.notes.push(format!("{tag}: expected outcome outside the hypothesis stable_polls (S13b family): {what}")),
                    None => res.notes.push(format!("{tag}: the script outside stable_polls did NOT make the client clean the live starter's lock")),
                }
                continue;
            }
            if let Some((what, class)) = grace_oracle(&c, &o) {
                // shrink the poll script while the same class keeps failing
                let cls = class.clone();
                let live = c.live.clone();
                let polls = shrink_vec(c.polls.clone(), |ps| {
                    let c2 = GraceCase { live: live.clone(), polls: ps.to_vec() };
                    grace_oracle(&c2, &run_grace_case(&rip, &c2)).map(|x| x.1) == Some(cls.clone())
                });
                let c2 = GraceCase { live: c.live.clone(), polls };
                let o2 = run_grace_case(&rip, &c2);
                let what2 = grace_oracle(&c2, &o2).map(|x| x.0).unwrap_or(what);
                res.bump(&format!("finding={class}"));
                if res.oracle_violations.iter().filter(|v| v.class == class).count() < 3 {
                    res.oracle_violations.push(OracleViolation { case_id: id, what: format!("{tag}: {what2}"), class, replay: grace_json(&c2, &o2) });
                } else {
                    res.oracle_violations.push(OracleViolation { case_id: id, what: String::new(), class, replay: json!(null) });
                }
            }
        }
    } else {
        res.notes.push(format!("rip binary not found at {} — scripted client loop not exercised", rip.display()));
    }
    wg.flush();
    // 7.-9. the real driver loops and the real shutdown path (wall-clock, a few seconds)
    real_server_loop(&mut res);
    uid::real_server_answering_authority(&mut res);
    uid::other_uid_and_namespace(&mut res);
    real_server_timer(&mut res);
    real_client_loop(&mut res);
    real_shutdown_path(&mut res);
    uid::finish_client_other_uid(&mut res, pending_client);
    rip_kernel::verif::set_hook(None);
    w.flush();
    for (p, n) in pcs_hist {
        res.bump_by(&format!("pc={p}"), n);
    }
    res.distinct_nontrivial = distinct.count();
    res.case_files = w.files.iter().chain(wg.files.iter()).map(|p| p.display().to_string()).chain(probe_files).collect();
    res.write(&a.out);
    println!("c18: {} cases, {} distinct non-trivial, {} oracle violations", res.evaluations, res.distinct_nontrivial, res.oracle_violations.len());
}
