//! Helpers shared by the workspace harnesses (c12, c13, c14): recursive listings, populating a
//! tree, Coq printers for the `Base/Fs.v` model, io::ErrorKind codes.  Included with `#[path]`.
#![allow(dead_code)]
use std::collections::BTreeMap;
use std::os::unix::ffi::OsStrExt;
use std::path::Path;

#[derive(Clone, Debug, PartialEq, Eq)]
pub enum Node {
    File(Vec<u8>),
    Dir,
}
pub type Comps = Vec<Vec<u8>>;
pub type Listing = BTreeMap<Comps, Node>;

pub fn list_tree(root: &Path) -> Listing {
    let mut out = Listing::new();
    fn rec(dir: &Path, prefix: &Comps, out: &mut Listing) {
        let rd = match std::fs::read_dir(dir) {
            Ok(r) => r,
            Err(_) => return,
        };
        for e in rd.flatten() {
            let mut c = prefix.clone();
            c.push(e.file_name().as_bytes().to_vec());
            let p = e.path();
            let md = match std::fs::symlink_metadata(&p) {
                Ok(m) => m,
                Err(_) => continue,
            };
            if md.is_dir() {
                out.insert(c.clone(), Node::Dir);
                rec(&p, &c, out);
            } else if md.file_type().is_symlink() {
                let t = std::fs::read_link(&p).map(|t| t.as_os_str().as_bytes().to_vec()).unwrap_or_default();
                let mut b = b"SYMLINK:".to_vec();
                b.extend(t);
                out.insert(c, Node::File(b));
            } else {
                out.insert(c, Node::File(std::fs::read(&p).unwrap_or_default()));
            }
        }
    }
    rec(root, &vec![], &mut out);
    out
}

pub fn comps_path(root: &Path, c: &Comps) -> std::path::PathBuf {
    let mut p = root.to_path_buf();
    for x in c {
        p.push(std::ffi::OsStr::from_bytes(x));
    }
    p
}

pub fn populate(root: &Path, l: &Listing) {
    for (c, n) in l {
        let p = comps_path(root, c);
        match n {
            Node::Dir => std::fs::create_dir_all(&p).unwrap(),
            Node::File(b) => {
                if let Some(par) = p.parent() {
                    std::fs::create_dir_all(par).unwrap();
                }
                std::fs::write(&p, b).unwrap();
            }
        }
    }
}

pub fn files_only(l: &Listing) -> BTreeMap<Comps, Vec<u8>> {
    l.iter().filter_map(|(c, n)| if let Node::File(b) = n { Some((c.clone(), b.clone())) } else { None }).collect()
}

pub fn coq_bytes(b: &[u8]) -> String {
    let mut s = String::with_capacity(b.len() * 4 + 2);
    s.push('[');
    for (i, x) in b.iter().enumerate() {
        if i > 0 {
            s.push(';');
        }
        s.push_str(&x.to_string());
    }
    s.push(']');
    s
}
pub fn coq_comps(c: &Comps) -> String {
    format!("[{}]", c.iter().map(|x| coq_bytes(x)).collect::<Vec<_>>().join(";"))
}
pub fn coq_fs(l: &Listing) -> String {
    let mut parts = vec![];
    for (c, n) in l {
        let ns = match n {
            Node::Dir => "Dir".to_string(),
            Node::File(b) => format!("File {}", coq_bytes(b)),
        };
        parts.push(format!("({}, {})", coq_comps(c), ns));
    }
    format!("[{}]", parts.join("; "))
}

/// io::ErrorKind -> code of Base/Fs.v
pub fn kind_code(k: std::io::ErrorKind) -> u64 {
    use std::io::ErrorKind as K;
    match k {
        K::NotFound => 1,
        K::AlreadyExists => 2,
        K::InvalidData => 3,
        K::InvalidInput => 4,
        K::IsADirectory => 5,
        K::NotADirectory => 6,
        K::InvalidFilename => 7,
        K::PermissionDenied => 8,
        K::DirectoryNotEmpty => 9,
        _ => 99,
    }
}

pub fn show_comps(c: &Comps) -> String {
    c.iter().map(|x| String::from_utf8_lossy(x).to_string()).collect::<Vec<_>>().join("/")
}
pub fn listing_json(l: &Listing) -> serde_json::Value {
    let mut m = serde_json::Map::new();
    for (c, n) in l {
        let v = match n {
            Node::Dir => serde_json::json!("<dir>"),
            Node::File(b) => match std::str::from_utf8(b) {
                Ok(s) => serde_json::json!(s),
                Err(_) => serde_json::json!({ "bytes": b }),
            },
        };
        m.insert(show_comps(c), v);
    }
    serde_json::Value::Object(m)
}
pub fn listing_from_json(v: &serde_json::Value) -> Listing {
    let mut l = Listing::new();
    if let Some(m) = v.as_object() {
        for (k, val) in m {
            let c: Comps = k.split('/').filter(|s| !s.is_empty()).map(|s| s.as_bytes().to_vec()).collect();
            if val == "<dir>" {
                l.insert(c, Node::Dir);
            } else if let Some(s) = val.as_str() {
                l.insert(c, Node::File(s.as_bytes().to_vec()));
            } else if let Some(b) = val.get("bytes").and_then(|b| b.as_array()) {
                l.insert(c, Node::File(b.iter().map(|x| x.as_u64().unwrap_or(0) as u8).collect()));
            }
        }
    }
    l
}
