//! Controlled scheduler / crash-point snapshotter over the rip_verif hook (filled in with C01).
