//! Controlled scheduler and crash-point helper over the `rip_verif` hook (`rip_kernel::verif`).
//!
//! Actor threads (spawned through `Sched::spawn`) park at every instrumented point; `Sched::run`
//! grants one actor at a time following a pick function (a schedule, a PRNG, or DFS enumeration).
//! Threads that are not actors (tokio workers, plumbing) pass straight through every point.
//!
//! Enabledness: the caller supplies `enabled(actor, point) -> bool`; an actor parked at a point
//! named `*.before_lock` is normally granted only when the corresponding `try_lock` probe says the
//! mutex is free, so a narrowed critical section shows up as a real interleaving instead of a
//! blocked harness.  An actor that was granted but neither parks again nor finishes within
//! `step_timeout` (it ran into a lock the harness does not know about) is marked `in flight`
//! and the scheduler goes on with the others; the trace records it.
use std::cell::Cell;
use std::collections::BTreeMap;
use std::path::Path;
use std::sync::{Arc, Condvar, Mutex};
use std::time::{Duration, Instant};

thread_local! {
    static ACTOR: Cell<Option<usize>> = const { Cell::new(None) };
}

#[derive(Clone, Copy, PartialEq, Eq, Debug)]
enum St {
    /// parked at a point, waiting for a grant
    Parked(&'static str),
    /// granted, running towards its next point
    Running,
    Done,
}

#[derive(Default)]
struct Inner {
    actors: BTreeMap<usize, St>,
    grants: BTreeMap<usize, u64>, // grant counter per actor
    seen: BTreeMap<usize, u64>,   // grants consumed per actor
    panicked: Vec<usize>,
}

pub struct Sched {
    mu: Mutex<Inner>,
    cv: Condvar,
    pub step_timeout: Duration,
}

#[derive(Debug, Clone, Default)]
pub struct Trace {
    /// (actor, point it was parked at when granted)
    pub steps: Vec<(usize, &'static str)>,
    pub in_flight_timeouts: u64,
    pub deadlock: bool,
    pub panicked: Vec<usize>,
}

pub fn current_actor() -> Option<usize> {
    ACTOR.with(|a| a.get())
}

impl Sched {
    pub fn new() -> Arc<Sched> {
        Arc::new(Sched { mu: Mutex::new(Inner::default()), cv: Condvar::new(), step_timeout: Duration::from_millis(400) })
    }

    /// Installs the global hook: actor threads park at every point.
    pub fn install(self: &Arc<Self>) {
        let me = self.clone();
        rip_kernel::verif::set_hook(Some(Arc::new(move |name: &'static str| me.at_point(name))));
    }
    pub fn uninstall() {
        rip_kernel::verif::set_hook(None);
    }

    fn at_point(&self, name: &'static str) {
        let Some(id) = current_actor() else { return };
        let mut g = self.mu.lock().unwrap();
        g.actors.insert(id, St::Parked(name));
        self.cv.notify_all();
        loop {
            let granted = *g.grants.get(&id).unwrap_or(&0);
            let seen = *g.seen.get(&id).unwrap_or(&0);
            if granted > seen {
                g.seen.insert(id, seen + 1);
                g.actors.insert(id, St::Running);
                return;
            }
            g = self.cv.wait(g).unwrap();
        }
    }

    /// Spawns an actor thread; it parks at the pseudo point "start" before running `f`.
    pub fn spawn<F: FnOnce() + Send + 'static>(self: &Arc<Self>, actor: usize, f: F) -> std::thread::JoinHandle<()> {
        {
            let mut g = self.mu.lock().unwrap();
            g.actors.insert(actor, St::Running);
        }
        let me = self.clone();
        std::thread::spawn(move || {
            ACTOR.with(|a| a.set(Some(actor)));
            me.at_point("start");
            let r = std::panic::catch_unwind(std::panic::AssertUnwindSafe(f));
            let mut g = me.mu.lock().unwrap();
            if r.is_err() {
                g.panicked.push(actor);
            }
            g.actors.insert(actor, St::Done);
            me.cv.notify_all();
        })
    }

    /// Drives all actors to completion.  `pick(parked_enabled)` chooses the next actor among the
    /// enabled parked ones (return None to stop early).  Returns the trace of grants.
    pub fn run(&self, mut pick: impl FnMut(&[(usize, &'static str)]) -> Option<usize>, enabled: &dyn Fn(usize, &'static str) -> bool) -> Trace {
        let mut trace = Trace::default();
        let mut in_flight: Vec<usize> = vec![];
        loop {
            // wait until no actor is Running except the ones declared in flight
            let mut g = self.mu.lock().unwrap();
            let deadline = Instant::now() + self.step_timeout;
            loop {
                in_flight.retain(|a| g.actors.get(a) == Some(&St::Running));
                let running: Vec<usize> = g.actors.iter().filter(|(a, s)| **s == St::Running && !in_flight.contains(a)).map(|(a, _)| *a).collect();
                if running.is_empty() {
                    break;
                }
                let now = Instant::now();
                if now >= deadline {
                    for a in running {
                        in_flight.push(a);
                        trace.in_flight_timeouts += 1;
                    }
                    break;
                }
                let (gg, _) = self.cv.wait_timeout(g, deadline - now).unwrap();
                g = gg;
            }
            let parked: Vec<(usize, &'static str)> = g.actors.iter().filter_map(|(a, s)| if let St::Parked(p) = s { Some((*a, *p)) } else { None }).collect();
            let all_done = g.actors.values().all(|s| *s == St::Done);
            drop(g);
            if all_done {
                break;
            }
            let en: Vec<(usize, &'static str)> = parked.iter().cloned().filter(|(a, p)| enabled(*a, p)).collect();
            if en.is_empty() {
                if in_flight.is_empty() {
                    if parked.is_empty() {
                        // nothing parked, nothing running: everything done (race with Done marking)
                        continue;
                    }
                    trace.deadlock = true;
                    // release everybody so threads can finish
                    self.release_all();
                    break;
                }
                // wait for an in-flight actor to make progress
                let g = self.mu.lock().unwrap();
                let _ = self.cv.wait_timeout(g, Duration::from_millis(50)).unwrap();
                if trace.in_flight_timeouts > 2000 {
                    trace.deadlock = true;
                    self.release_all();
                    break;
                }
                trace.in_flight_timeouts += 1;
                continue;
            }
            let Some(choice) = pick(&en) else {
                self.release_all();
                break;
            };
            let point = en.iter().find(|(a, _)| *a == choice).map(|(_, p)| *p).unwrap_or("?");
            trace.steps.push((choice, point));
            let mut g = self.mu.lock().unwrap();
            *g.grants.entry(choice).or_insert(0) += 1;
            g.actors.insert(choice, St::Running);
            self.cv.notify_all();
        }
        trace.panicked = self.mu.lock().unwrap().panicked.clone();
        trace
    }

    /// Lets every actor run freely from now on (used to drain after an early stop).
    pub fn release_all(&self) {
        let mut g = self.mu.lock().unwrap();
        let ids: Vec<usize> = g.actors.keys().cloned().collect();
        for a in ids {
            *g.grants.entry(a).or_insert(0) += 1_000_000;
        }
        self.cv.notify_all();
    }
}

/// Byte copy of a directory tree (no hard links): the on-disk state at a crash point.
pub fn copy_dir(src: &Path, dst: &Path) -> std::io::Result<()> {
    std::fs::create_dir_all(dst)?;
    for e in std::fs::read_dir(src)? {
        let e = e?;
        let ft = e.file_type()?;
        let to = dst.join(e.file_name());
        if ft.is_dir() {
            copy_dir(&e.path(), &to)?;
        } else if ft.is_file() {
            std::fs::copy(e.path(), &to)?;
        }
    }
    Ok(())
}

/// Crash-point recorder: while installed, every point reached on a thread that called
/// `CrashRec::arm()` invokes `f(point_name, ordinal)`.  The callback typically copies the data dir.
pub struct CrashRec;
thread_local! {
    static ARMED: Cell<bool> = const { Cell::new(false) };
}
impl CrashRec {
    pub fn install(f: impl Fn(&'static str, u64) + Send + Sync + 'static) {
        let n = std::sync::atomic::AtomicU64::new(0);
        rip_kernel::verif::set_hook(Some(Arc::new(move |name: &'static str| {
            if ARMED.with(|a| a.get()) {
                let k = n.fetch_add(1, std::sync::atomic::Ordering::SeqCst);
                f(name, k);
            }
        })));
    }
    pub fn arm(on: bool) {
        ARMED.with(|a| a.set(on));
    }
    pub fn uninstall() {
        rip_kernel::verif::set_hook(None);
    }
}
