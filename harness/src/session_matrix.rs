//! Shared by c03 and c01 (included with `#[path = "../session_matrix.rs"] mod session_matrix;`): ONE session run of the real
//! `SessionEngine` under one configuration of the matrix that sub06c built for C06 (`bin/c06/agent.rs`, included here
//! unchanged: `Conf`, `script`, `start_provider`, `confs`, `switches_in_source`), against the local scripted provider,
//! with a subscriber attached to the session's channel (and to the store's continuity channel) BEFORE the run starts, and
//! everything a property oracle may want to look at afterwards, read with fresh handles from the disk:
//! the stream's lines in events.jsonl in file order, the snapshot, `replay_session`, `replay_validated` of the whole
//! store, `verify_snapshot`, and for a run started from a thread the thread's live frames / `replay_events` / lines.
//!
//! Two more dimensions than `Conf` has, both reached through the same switch (`RIP_OPENRESPONSES_DUMP_REQUEST`):
//!  * `Extra::blocked_artifacts`: request capture on and `<workspace>/.rip/artifacts` is a plain file, so the capture's
//!    side write fails (`maybe_dump_openresponses_request(..)?` ends the request before any request frame);
//!  * `Extra::max_bytes`: an explicit RIP_OPENRESPONSES_DUMP_REQUEST_MAX_BYTES (1 = everything truncated, a huge value =
//!    nothing truncated, `0` / garbage = the default applies).
//! No clock decides a verdict: the session's channel closes when `run_session` has returned (every emit awaited its log
//! append, the snapshot is written before), a thread run is complete when `continuity_run_ended` of its session is live.
#![allow(dead_code)]

#[path = "bin/c06/agent.rs"]
pub mod agent;

pub use agent::Conf;
use rip_kernel::{Event, EventKind, StreamKind};
use rip_log::EventLog;
use ripd::{ContinuityRunLink, SessionEngine};
use std::io::Read;
use std::path::{Path, PathBuf};
use std::time::{Duration, Instant};
use tokio::sync::broadcast::error::RecvError;

/// generous: only reached on an overloaded machine; the run is then reported as not finished (a note, never an alarm)
pub const RUN_TIMEOUT: Duration = Duration::from_secs(300);

#[derive(Clone, Debug, Default, PartialEq, Eq)]
pub struct Extra {
    pub blocked_artifacts: bool,
    pub max_bytes: Option<String>,
}
impl Extra {
    pub fn label(&self) -> String {
        format!("{}{}", if self.blocked_artifacts { "+artifact-dir-unwritable" } else { "" }, self.max_bytes.as_ref().map(|m| format!("+max_bytes={m}")).unwrap_or_default())
    }
    pub fn json(&self) -> serde_json::Value {
        serde_json::json!({"blocked_artifacts": self.blocked_artifacts, "max_bytes": self.max_bytes})
    }
}

pub struct ThreadSide {
    pub thread_id: String,
    /// frames of the thread a subscriber of the store's channel received (attached before the thread was created)
    pub live: Vec<Event>,
    pub replay_events: Result<Vec<Event>, String>,
    /// the thread's lines in events.jsonl, file order
    pub log: Vec<(String, Event)>,
}

pub struct MatrixRun {
    pub conf: Conf,
    pub extra: Extra,
    pub session_id: String,
    pub finished: bool,
    pub lagged: u64,
    /// what the subscriber attached before the run received
    pub live: Vec<Event>,
    pub snapshot_path: PathBuf,
    pub snapshot: Result<Vec<Event>, String>,
    /// the session's lines in events.jsonl in FILE order (text as written + parsed)
    pub log: Result<Vec<(String, Event)>, String>,
    /// every line of events.jsonl parsed: (stream kind, stream id, seq, type) in file order
    pub all: Vec<(StreamKind, String, u64, String)>,
    pub replay_session: Result<Vec<Event>, String>,
    pub replay_validated: Result<usize, String>,
    pub verify_snapshot: Result<(), String>,
    pub thread: Option<ThreadSide>,
    pub provider_requests: usize,
    pub data_dir: PathBuf,
    _scratch: rv::Scratch,
}

pub fn line_of(e: &Event) -> String {
    serde_json::to_string(e).unwrap_or_default()
}
pub fn type_of(e: &Event) -> String {
    serde_json::to_value(&e.kind).ok().and_then(|v| v.get("type").and_then(|t| t.as_str()).map(|s| s.to_string())).unwrap_or_else(|| "?".into())
}
pub fn seq_types(v: &[Event]) -> Vec<String> {
    v.iter().map(|e| format!("{}:{}", e.seq, type_of(e))).collect()
}

/// the variables the run reads (process-wide: runs of the matrix are sequential)
pub fn apply_env(c: Option<(&Conf, &Extra)>) {
    Conf::apply_env(c.map(|(c, _)| *c));
    if let Some((c, x)) = c {
        if x.blocked_artifacts && c.capture == 0 {
            std::env::set_var("RIP_OPENRESPONSES_DUMP_REQUEST", "on");
        }
        if let Some(m) = &x.max_bytes {
            std::env::set_var("RIP_OPENRESPONSES_DUMP_REQUEST_MAX_BYTES", m);
        }
    }
}

/// nothing from the caller's environment reaches a run (as c06's main does)
pub fn scrub_env(home: &Path) {
    for (k, _) in std::env::vars() {
        if k.starts_with("RIP_") {
            std::env::remove_var(&k);
        }
    }
    std::env::set_var("NO_PROXY", "127.0.0.1,localhost");
    std::env::set_var("no_proxy", "127.0.0.1,localhost");
    std::env::set_var("HOME", home);
}

pub fn config_of(c: Conf, endpoint: String) -> ripd::verif::OpenResponsesConfig {
    ripd::verif::OpenResponsesConfig {
        endpoint,
        api_key: None,
        model: Some("fixture-model".into()),
        headers: vec![],
        tool_choice: c.tool_choice(),
        followup_user_message: if c.followup { Some("go on".to_string()) } else { None },
        stateless_history: c.stateless,
        parallel_tool_calls: c.parallel,
    }
}

fn read_lines(path: &Path) -> Result<Vec<String>, String> {
    let mut f = std::fs::File::open(path).map_err(|e| format!("open {}: {e}", path.display()))?;
    let mut buf = Vec::new();
    f.read_to_end(&mut buf).map_err(|e| e.to_string())?;
    let end = buf.iter().rposition(|b| *b == b'\n').map(|p| p + 1).unwrap_or(0);
    if end != buf.len() {
        return Err(format!("events.jsonl ends with {} bytes that are not a complete line", buf.len() - end));
    }
    Ok(String::from_utf8_lossy(&buf[..end]).lines().filter(|l| !l.trim().is_empty()).map(|l| l.to_string()).collect())
}

async fn collect(mut rx: tokio::sync::broadcast::Receiver<Event>, until: impl Fn(&Event) -> bool) -> (Vec<Event>, u64, bool) {
    let mut frames = vec![];
    let mut lagged = 0u64;
    let t0 = Instant::now();
    loop {
        let left = RUN_TIMEOUT.checked_sub(t0.elapsed()).unwrap_or(Duration::from_millis(1));
        match tokio::time::timeout(left, rx.recv()).await {
            Ok(Ok(ev)) => {
                let stop = until(&ev);
                frames.push(ev);
                if stop {
                    return (frames, lagged, true);
                }
            }
            Ok(Err(RecvError::Lagged(n))) => lagged += n,
            Ok(Err(RecvError::Closed)) => return (frames, lagged, true),
            Err(_) => return (frames, lagged, false),
        }
    }
}

/// One run.  Must be called from inside a multi-thread tokio runtime (`spawn_session` uses `tokio::spawn`).
pub async fn run_conf(conf: Conf, extra: &Extra, tag: &str) -> Result<MatrixRun, String> {
    let scratch = rv::Scratch::new(tag);
    let data_dir = scratch.path().join("data");
    let ws = scratch.path().join("ws");
    std::fs::create_dir_all(ws.join("m")).map_err(|e| e.to_string())?;
    std::fs::write(ws.join("a.txt"), "hello\n").map_err(|e| e.to_string())?;
    if extra.blocked_artifacts {
        std::fs::create_dir_all(ws.join(".rip")).map_err(|e| e.to_string())?;
        std::fs::write(ws.join(".rip").join("artifacts"), b"not a directory\n").map_err(|e| e.to_string())?;
    }
    apply_env(Some((&conf, extra)));
    let (provider, endpoint) = agent::start_provider(conf);
    let cfg = config_of(conf, endpoint);
    let engine = SessionEngine::new(data_dir.clone(), ws.clone(), None)?;
    let store = engine.continuities();
    let cont_rx = store.subscribe();
    let handle = engine.create_session();
    let sid = handle.session_id.clone();
    let rx = handle.subscribe();
    let (tx, done) = tokio::sync::oneshot::channel();
    std::thread::spawn(move || {
        let Ok(rt) = tokio::runtime::Builder::new_current_thread().enable_time().build() else { return };
        let _ = tx.send(rt.block_on(collect(rx, |_| false)));
    });
    let mut thread_id: Option<String> = None;
    let mut cont_done = None;
    if conf.via_thread {
        // what POST /threads/{id}/messages does (server.rs thread_post_message), with the subscriber already attached
        let tid = store.ensure_default()?;
        let mid = store.append_message(&tid, "user".into(), "server".into(), "hello".into())?;
        store.append_run_spawned(&tid, &mid, &sid, "user".into(), "server".into())?;
        let link = ContinuityRunLink { continuity_id: tid.clone(), message_id: mid, actor_id: "user".into(), origin: "server".into() };
        let (ctx, cdone) = tokio::sync::oneshot::channel();
        let sid2 = sid.clone();
        std::thread::spawn(move || {
            let Ok(rt) = tokio::runtime::Builder::new_current_thread().enable_time().build() else { return };
            let _ = ctx.send(rt.block_on(collect(cont_rx, move |ev| matches!(&ev.kind, EventKind::ContinuityRunEnded { run_session_id, .. } if *run_session_id == sid2))));
        });
        cont_done = Some(cdone);
        thread_id = Some(tid);
        engine.spawn_session(handle, "hello".to_string(), Some(link), Some(cfg));
    } else {
        drop(cont_rx);
        engine.spawn_session(handle, "hello".to_string(), None, Some(cfg));
    }
    let (live, lagged, finished) = done.await.map_err(|e| format!("collector: {e}"))?;
    let mut thread_live: Vec<Event> = vec![];
    let mut thread_finished = true;
    if let Some(cd) = cont_done {
        let (frames, lag, fin) = cd.await.map_err(|e| format!("thread collector: {e}"))?;
        thread_finished = fin && lag == 0;
        thread_live = frames;
    }
    apply_env(None);
    let provider_requests = provider.as_ref().map(|p| p.recorded().len()).unwrap_or(0);
    drop(provider);

    let log_path = data_dir.join("events.jsonl");
    let snapshot_path = data_dir.join("snapshots").join(format!("{sid}.json"));
    let lines = read_lines(&log_path);
    let mut all = vec![];
    let mut log: Result<Vec<(String, Event)>, String> = Ok(vec![]);
    let mut thread_log: Vec<(String, Event)> = vec![];
    match &lines {
        Err(e) => log = Err(e.clone()),
        Ok(ls) => {
            for l in ls {
                match serde_json::from_str::<Event>(l) {
                    Ok(ev) => {
                        all.push((ev.stream_kind(), ev.stream_id().to_string(), ev.seq, type_of(&ev)));
                        if ev.stream_kind() == StreamKind::Session && ev.stream_id() == sid {
                            if let Ok(v) = &mut log {
                                v.push((l.clone(), ev));
                            }
                        } else if ev.stream_kind() == StreamKind::Continuity && Some(ev.stream_id()) == thread_id.as_deref() {
                            thread_log.push((l.clone(), ev));
                        }
                    }
                    Err(e) => log = Err(format!("a line of events.jsonl ({} bytes) does not parse: {e}", l.len())),
                }
            }
        }
    }
    let fresh = EventLog::new(&log_path).map_err(|e| e.to_string());
    let replay_session = fresh.as_ref().map_err(|e| e.clone()).and_then(|l| l.replay_session(&sid).map_err(|e| e.to_string()));
    let replay_validated = fresh.as_ref().map_err(|e| e.clone()).and_then(|l| l.replay_validated().map(|v| v.len()).map_err(|e| e.to_string()));
    let verify_snapshot = fresh.as_ref().map_err(|e| e.clone()).and_then(|l| rip_log::verify_snapshot(l, &snapshot_path).map_err(|e| e.to_string()));
    let snapshot = rip_log::read_snapshot(&snapshot_path).map_err(|e| e.to_string());
    let thread = thread_id.map(|tid| {
        let replay_events = store.replay_events(&tid).map_err(|e| e.to_string());
        ThreadSide { live: thread_live.into_iter().filter(|e| e.stream_id() == tid).collect(), replay_events, log: thread_log, thread_id: tid }
    });
    Ok(MatrixRun {
        conf,
        extra: extra.clone(),
        session_id: sid,
        finished: finished && thread_finished,
        lagged,
        live,
        snapshot_path,
        snapshot,
        log,
        all,
        replay_session,
        replay_validated,
        verify_snapshot,
        thread,
        provider_requests,
        data_dir,
        _scratch: scratch,
    })
}

/// the configurations of a tier + the two extra dimensions of this module
pub fn runs(thorough: bool) -> Vec<(Conf, Extra)> {
    let mut v: Vec<(Conf, Extra)> = agent::confs(thorough).into_iter().map(|c| (c, Extra::default())).collect();
    let base = Conf { capture: 1, stateless: false, tools: 0, choice: 0, outcome: 0, followup: false, parallel: false, via_thread: false };
    // the capture's own side write fails: first request / a follow-up request is not possible (the first one already fails)
    for (tools, via_thread, capture) in [(0u8, false, 1u8), (1, false, 0), (3, true, 1)] {
        v.push((Conf { capture, tools, via_thread, ..base }, Extra { blocked_artifacts: true, max_bytes: None }));
    }
    for (i, m) in ["1", "100000000", "0", "lots", " 64 "].iter().enumerate() {
        if !thorough && i >= 3 {
            break;
        }
        v.push((Conf { tools: (i % 3) as u8, stateless: i % 2 == 1, ..base }, Extra { blocked_artifacts: false, max_bytes: Some(m.to_string()) }));
    }
    v
}

/// frames a configuration must produce when request capture is on: one `openresponses_request` in front of every
/// `openresponses_request_started` (same request_index) - used by the oracles as a sanity check that the switch was live
pub fn capture_frames(v: &[Event]) -> (usize, usize) {
    let c = v.iter().filter(|e| matches!(e.kind, EventKind::OpenResponsesRequest { .. })).count();
    let s = v.iter().filter(|e| matches!(e.kind, EventKind::OpenResponsesRequestStarted { .. })).count();
    (c, s)
}
