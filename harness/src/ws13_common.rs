//! Helpers of the path-confinement / checkpoint harnesses (c13, c14): the sentinel sandbox around a
//! workspace root, listing diffs, the worker-child protocol (the process working directory is
//! process-global, so every case that needs a particular cwd runs in a dedicated child process).
//! Included with `#[path]` next to ws_common.rs.
#![allow(dead_code)]
use super::ws_common::*;
use std::path::{Path, PathBuf};

pub const MARK: &str = "SENTINEL-";

/// Everything around the workspace: files that must never be read, written or deleted.
pub fn sentinel_listing() -> Listing {
    let mut l = Listing::new();
    let mut f = |p: &str, b: &str| {
        let c: Comps = p.split('/').map(|s| s.as_bytes().to_vec()).collect();
        for i in 1..c.len() {
            l.insert(c[..i].to_vec(), Node::Dir);
        }
        l.insert(c, Node::File(b.as_bytes().to_vec()));
    };
    f("outside.txt", "SENTINEL-OUTSIDE\n");
    f("a.txt", "SENTINEL-SB-A\n");
    f("new.txt", "SENTINEL-SB-NEW\n");
    f("elsewhere/a.txt", "SENTINEL-ELSE-A\n");
    f("elsewhere/d/x.txt", "SENTINEL-ELSE-X\n");
    f("elsewhere/only_else.txt", "SENTINEL-ELSE-ONLY\n");
    f("ws2/a.txt", "SENTINEL-WS2-A\n");
    l
}
pub fn workspace_listing() -> Listing {
    let mut l = Listing::new();
    let mut f = |p: &str, b: &str| {
        let c: Comps = p.split('/').map(|s| s.as_bytes().to_vec()).collect();
        for i in 1..c.len() {
            l.insert(c[..i].to_vec(), Node::Dir);
        }
        l.insert(c, Node::File(b.as_bytes().to_vec()));
    };
    f("a.txt", "in-a\n");
    f("d/x.txt", "in-x\n");
    f("d/e/z.txt", "in-z\n");
    f("only_ws.txt", "in-only\n");
    l
}

/// scratch/p1/p2/sb/{sentinels, ws/}: three spare levels above `sb` so that a path that climbs out
/// with up to four `..` still lands inside the scratch directory (which is snapshotted as a whole)
pub struct Sandbox {
    pub scratch: rv::Scratch,
    pub top: PathBuf,
    pub sb: PathBuf,
    pub root: PathBuf,
}
pub const WSP: [&str; 4] = ["p1", "p2", "sb", "ws"];
impl Sandbox {
    pub fn new(tag: &str, ws: &Listing) -> Sandbox {
        let scratch = rv::Scratch::new(tag);
        let top = std::fs::canonicalize(scratch.path()).unwrap_or_else(|_| scratch.path().to_path_buf());
        let sb = top.join("p1").join("p2").join("sb");
        std::fs::create_dir_all(&sb).unwrap();
        std::fs::write(top.join("p1").join("p2").join("up1.txt"), "SENTINEL-UP1\n").unwrap();
        std::fs::write(top.join("p1").join("up2.txt"), "SENTINEL-UP2\n").unwrap();
        populate(&sb, &sentinel_listing());
        let root = sb.join("ws");
        std::fs::create_dir_all(&root).unwrap();
        populate(&root, ws);
        Sandbox { scratch, top, sb, root }
    }
    pub fn cwd_dir(&self, cwd: u64) -> PathBuf {
        match cwd {
            0 => self.root.clone(),
            1 => self.sb.join("elsewhere"),
            _ => self.sb.clone(),
        }
    }
    pub fn subst(&self, raw: &str) -> String {
        raw.replace("{ROOT}", &self.root.to_string_lossy()).replace("{SB}", &self.sb.to_string_lossy())
    }
    pub fn snapshot(&self) -> Listing {
        list_tree(&self.top)
    }
}

pub fn is_ws(c: &Comps) -> bool {
    c.len() >= 4 && (0..4).all(|i| c[i] == WSP[i].as_bytes())
}
pub fn is_store(c: &Comps) -> bool {
    is_ws(c) && c.len() >= 5 && c[4] == b".rip"
}
/// components below the workspace root
pub fn ws_rel(c: &Comps) -> Comps {
    c[4..].to_vec()
}

#[derive(Debug, Clone)]
pub struct Change {
    pub path: Comps,
    pub kind: &'static str, // created | modified | deleted
    pub is_dir: bool,
}
pub fn diff(before: &Listing, after: &Listing) -> Vec<Change> {
    let mut v = vec![];
    for (p, n) in before {
        match after.get(p) {
            None => v.push(Change { path: p.clone(), kind: "deleted", is_dir: *n == Node::Dir }),
            Some(m) if m != n => v.push(Change { path: p.clone(), kind: "modified", is_dir: false }),
            _ => {}
        }
    }
    for (p, n) in after {
        if !before.contains_key(p) {
            v.push(Change { path: p.clone(), kind: "created", is_dir: *n == Node::Dir });
        }
    }
    v
}
pub fn show_changes(ch: &[Change]) -> String {
    ch.iter().map(|c| format!("{} {}{}", c.kind, show_comps(&c.path), if c.is_dir { "/" } else { "" })).collect::<Vec<_>>().join("; ")
}
/// does any file below ws/ contain sentinel bytes that were not there before?
pub fn marker_inside_ws(before: &Listing, after: &Listing) -> Option<Comps> {
    for (p, n) in after {
        if !is_ws(p) {
            continue;
        }
        if let Node::File(b) = n {
            if contains(b, MARK.as_bytes()) {
                let was = matches!(before.get(p), Some(Node::File(b0)) if contains(b0, MARK.as_bytes()));
                if !was {
                    return Some(p.clone());
                }
            }
        }
    }
    None
}
pub fn contains(h: &[u8], n: &[u8]) -> bool {
    !n.is_empty() && h.windows(n.len()).any(|w| w == n)
}

/// independent reading of the property text: which raw strings must be refused
pub fn lexically_absolute(raw: &str) -> bool {
    raw.starts_with('/')
}
pub fn lexically_parent(raw: &str) -> bool {
    raw.split('/').any(|s| s == "..")
}

/// run `jobs` in `nproc` child processes (`exe --worker <in> --wout <out>`), preserving order
pub fn run_workers(dir: &Path, jobs: &[serde_json::Value], nproc: usize, timeout_s: u64) -> Vec<serde_json::Value> {
    let exe = std::env::current_exe().unwrap();
    let n = jobs.len();
    let nproc = nproc.max(1).min(n.max(1));
    let chunk = (n + nproc - 1) / nproc.max(1);
    let mut children = vec![];
    for k in 0..nproc {
        let lo = k * chunk;
        let hi = ((k + 1) * chunk).min(n);
        if lo >= hi {
            break;
        }
        let inp = dir.join(format!("jobs_{k}.json"));
        let outp = dir.join(format!("obs_{k}.json"));
        std::fs::write(&inp, serde_json::to_vec(&jobs[lo..hi]).unwrap()).unwrap();
        let child = std::process::Command::new(&exe)
            .arg("--worker")
            .arg(&inp)
            .arg("--wout")
            .arg(&outp)
            .arg("--out")
            .arg(dir)
            .stdin(std::process::Stdio::null())
            .spawn()
            .expect("spawn worker");
        children.push((child, inp, outp, hi - lo));
    }
    let _ = timeout_s;
    let mut out = vec![];
    for (mut child, inp, outp, cnt) in children {
        let st = child.wait().expect("wait worker");
        let got: Vec<serde_json::Value> = std::fs::read(&outp).ok().and_then(|b| serde_json::from_slice(&b).ok()).unwrap_or_default();
        if !st.success() || got.len() != cnt {
            // the worker died (abort / stack overflow): report every missing case as a crash
            for i in 0..cnt {
                out.push(got.get(i).cloned().unwrap_or_else(|| serde_json::json!({"crashed": true})));
            }
        } else {
            out.extend(got);
        }
        let _ = std::fs::remove_file(inp);
        let _ = std::fs::remove_file(outp);
    }
    out
}

/// Hygiene for the worker children (not part of the oracle): a private mount namespace in which
/// everything except the scratch areas (/var/tmp, /tmp, the directory of the worker's output file)
/// is read-only.  On a tree where a path argument DOES escape, the stray effect then hits the
/// snapshotted sentinel tree (reported) or fails with EROFS, instead of littering `/`.
/// Call before any thread is started.  Returns false (and changes nothing that matters) when the
/// process lacks the privilege; the harness then runs as before.
pub fn jail_readonly_root(writable: &[&Path]) -> bool {
    use std::ffi::CString;
    use std::os::unix::ffi::OsStrExt;
    let c = |p: &Path| CString::new(p.as_os_str().as_bytes()).unwrap();
    if std::env::var_os("RV_NO_JAIL").is_some() {
        return false;
    }
    unsafe {
        if libc::unshare(libc::CLONE_NEWNS) != 0 {
            return false;
        }
        let root = CString::new("/").unwrap();
        if libc::mount(std::ptr::null(), root.as_ptr(), std::ptr::null(), libc::MS_REC | libc::MS_PRIVATE, std::ptr::null()) != 0 {
            return false;
        }
        for w in writable {
            if !w.is_dir() {
                continue;
            }
            let cw = c(w);
            if libc::mount(cw.as_ptr(), cw.as_ptr(), std::ptr::null(), libc::MS_BIND | libc::MS_REC, std::ptr::null()) != 0 {
                return false;
            }
        }
        libc::mount(std::ptr::null(), root.as_ptr(), std::ptr::null(), libc::MS_REMOUNT | libc::MS_BIND | libc::MS_RDONLY, std::ptr::null()) == 0
    }
}

/// inotify watch (Linux) on a set of directories: what was created / written / deleted / renamed in them while an
/// operation ran - also what is gone again when the operation returns (a temporary file next to the workspace root is
/// invisible to a before / after comparison).  Non-recursive: one watch per directory.  `None` when the kernel refuses
/// (instance / watch limits): the caller counts that.
pub struct Watcher {
    fd: i32,
    wds: std::collections::BTreeMap<i32, PathBuf>,
}
impl Watcher {
    pub fn new(dirs: &[PathBuf]) -> Option<Watcher> {
        let fd = unsafe { libc::inotify_init1(libc::IN_NONBLOCK | libc::IN_CLOEXEC) };
        if fd < 0 {
            return None;
        }
        let mut w = Watcher { fd, wds: Default::default() };
        let mask = libc::IN_CREATE | libc::IN_DELETE | libc::IN_MODIFY | libc::IN_MOVED_FROM | libc::IN_MOVED_TO | libc::IN_CLOSE_WRITE | libc::IN_ATTRIB;
        for d in dirs {
            use std::os::unix::ffi::OsStrExt;
            let c = match std::ffi::CString::new(d.as_os_str().as_bytes()) {
                Ok(c) => c,
                Err(_) => continue,
            };
            let wd = unsafe { libc::inotify_add_watch(fd, c.as_ptr(), mask) };
            if wd < 0 {
                return None;
            }
            w.wds.insert(wd, d.clone());
        }
        Some(w)
    }
    /// (event, path) in the order the kernel reported them
    pub fn drain(&mut self) -> Vec<(String, PathBuf)> {
        let mut out = vec![];
        let mut buf = vec![0u8; 64 * 1024];
        loop {
            let n = unsafe { libc::read(self.fd, buf.as_mut_ptr() as *mut libc::c_void, buf.len()) };
            if n <= 0 {
                break;
            }
            let n = n as usize;
            let mut i = 0;
            let hdr = std::mem::size_of::<libc::inotify_event>();
            while i + hdr <= n {
                let ev: libc::inotify_event = unsafe { std::ptr::read_unaligned(buf[i..].as_ptr() as *const libc::inotify_event) };
                let len = ev.len as usize;
                let name_bytes = &buf[i + hdr..(i + hdr + len).min(n)];
                let name: Vec<u8> = name_bytes.iter().cloned().take_while(|b| *b != 0).collect();
                use std::os::unix::ffi::OsStrExt;
                let dir = self.wds.get(&ev.wd).cloned().unwrap_or_default();
                let path = if name.is_empty() { dir } else { dir.join(std::ffi::OsStr::from_bytes(&name)) };
                let m = ev.mask;
                let what = if m & libc::IN_CREATE != 0 {
                    "CREATE"
                } else if m & libc::IN_DELETE != 0 {
                    "DELETE"
                } else if m & libc::IN_MOVED_FROM != 0 {
                    "MOVED_FROM"
                } else if m & libc::IN_MOVED_TO != 0 {
                    "MOVED_TO"
                } else if m & libc::IN_MODIFY != 0 {
                    "MODIFY"
                } else if m & libc::IN_CLOSE_WRITE != 0 {
                    "CLOSE_WRITE"
                } else if m & libc::IN_ATTRIB != 0 {
                    "ATTRIB"
                } else {
                    "OTHER"
                };
                if what != "OTHER" {
                    out.push((what.to_string(), path));
                }
                i += hdr + len;
            }
        }
        out
    }
}
impl Drop for Watcher {
    fn drop(&mut self) {
        unsafe {
            libc::close(self.fd);
        }
    }
}
impl Sandbox {
    /// every directory of the scratch tree that is not the workspace root or below it
    pub fn outside_dirs(&self) -> Vec<PathBuf> {
        let mut v = vec![self.top.clone()];
        for (c, n) in self.snapshot() {
            if *(&n) == Node::Dir && !is_ws(&c) {
                v.push(comps_path(&self.top, &c));
            }
        }
        v
    }
}
