//! C16 — "a request that fails schema validation is never sent", for requests of EVERY size.
//!
//! The validator quotes the offending instance in its messages (for an invalid `input` the whole item array), the
//! refusal is reported in a frame that carries the body once more: everything between the verdict and the gate handles
//! text whose length is the length of the tool outputs and call arguments of the run.  So every kind of invalidity the
//! generator knows (call ids beyond the limit, function names outside the pattern — c16.rs) is combined here with quoted
//! payloads of a few bytes up to several KiB:
//!   * sizes on, one below and one above every power of two up to 8 KiB AND every integer constant of the code between
//!     verdict and gate (read from the tree the harness is built from: create_response.rs, rip-openresponses/src/lib.rs,
//!     the gate of stream_openresponses_request) — `size_ladder`;
//!   * text in characters of 1, 2, 3 and 4 bytes (and mixes, and characters JSON escapes), shifted by 0..width-1 leading
//!     ASCII bytes: for every byte offset P inside the quoted payload and every character width w there is a run in
//!     which a w-byte character lies across P — `align_sweep` (P = every such constant, and 2048 at least);
//!   * carried by a tool OUTPUT (`read` of a workspace file, `bash` cat) or by call ARGUMENTS (`write` content: echoed in
//!     the stateless history), the invalid item in the same response or (stateless) some turns later.
//! The oracle is the one of every other run (c16.rs loop_oracle: the recorded bodies judged by the independent schema
//! interpreter, every call answered exactly once).
use rv::Rng;
use serde::{Deserialize, Serialize};

pub const SRC_CREATE: &str = include_str!("../../../repo/crates/rip-provider-openresponses/src/request/create_response.rs");
pub const SRC_VALIDATOR: &str = include_str!("../../../repo/crates/rip-openresponses/src/lib.rs");
pub const SRC_SESSION: &str = include_str!("../../../repo/crates/ripd/src/session.rs");

/// text of a payload: `lead` ASCII bytes, then characters of `width` bytes each (0 = a mix of all widths with spaces,
/// 5 = characters that JSON escapes mixed with 2-byte ones), padded with ASCII to exactly `size` bytes
#[derive(Clone, Debug, Serialize, Deserialize, PartialEq)]
pub struct PaySpec {
    pub size: usize,
    pub width: u8,
    pub lead: u8,
}

pub fn alphabet(width: u8) -> Vec<char> {
    match width {
        1 => "abcdefghijklmnopqrstuvwxyz0123456789 ".chars().collect(),
        2 => "ошибкафайлненайденπλέονßüé".chars().collect(),
        3 => "│┌─┐└┘├┤日本語テキスト…€".chars().collect(),
        4 => "😀🚀🧪🦀𝒳𝒴🂡".chars().collect(),
        5 => "say \"hi\" \\ \t é".chars().collect(),
        _ => "ошибка: файл не найден │ 日本語 🚀 ok, ".chars().collect(),
    }
}

pub fn payload_text(p: &PaySpec) -> String {
    let mut s = String::with_capacity(p.size + 4);
    for _ in 0..(p.lead as usize).min(p.size) {
        s.push('x');
    }
    let al = alphabet(p.width);
    let mut k = 0usize;
    loop {
        let c = al[k % al.len()];
        if s.len() + c.len_utf8() > p.size {
            break;
        }
        s.push(c);
        k += 1;
    }
    while s.len() < p.size {
        s.push('.');
    }
    s
}

fn strip_comments_and_tests(src: &str) -> String {
    let src = match src.find("#[cfg(test)]") {
        Some(i) => &src[..i],
        None => src,
    };
    src.lines().map(|l| l.split("//").next().unwrap_or("")).collect::<Vec<_>>().join("\n")
}

/// integer literals (decimal with `_`, hex, with or without a type suffix) of a piece of Rust, products `a * b` and
/// shifts `a << b` of literals evaluated
fn int_constants(text: &str) -> Vec<usize> {
    let b: Vec<char> = text.chars().collect();
    let mut toks: Vec<(Option<usize>, char)> = vec![]; // (literal value, or the operator / other char)
    let mut i = 0;
    while i < b.len() {
        let c = b[i];
        let after_fraction_dot = i >= 2 && b[i - 1] == '.' && b[i - 2].is_ascii_digit();
        if c.is_ascii_digit() && !after_fraction_dot && (i == 0 || !(b[i - 1].is_ascii_alphanumeric() || b[i - 1] == '_')) {
            let st = i;
            while i < b.len() && (b[i].is_ascii_alphanumeric() || b[i] == '_') {
                i += 1;
            }
            let tok: String = b[st..i].iter().filter(|c| **c != '_').collect();
            let tok = ["usize", "u64", "u32", "u16", "u8", "i64", "i32", "isize"].iter().fold(tok, |t, s| t.strip_suffix(s).map(String::from).unwrap_or(t));
            let v = if let Some(h) = tok.strip_prefix("0x") { usize::from_str_radix(h, 16).ok() } else { tok.parse::<usize>().ok() };
            // a float such as `1.5` is not a size
            let float = i < b.len() && b[i] == '.' && i + 1 < b.len() && b[i + 1].is_ascii_digit();
            match v {
                Some(v) if !float => toks.push((Some(v), 'n')),
                _ => toks.push((None, '?')),
            }
        } else if c == '*' {
            toks.push((None, '*'));
            i += 1;
        } else if c == '<' && i + 1 < b.len() && b[i + 1] == '<' {
            toks.push((None, '<'));
            i += 2;
        } else if c.is_whitespace() {
            i += 1;
        } else {
            toks.push((None, '?'));
            i += 1;
        }
    }
    let mut out = vec![];
    let mut k = 0;
    while k < toks.len() {
        if let (Some(mut v), _) = toks[k] {
            out.push(v);
            let mut j = k + 1;
            while j + 1 < toks.len() {
                match (toks[j], toks[j + 1]) {
                    ((None, '*'), (Some(w), _)) => {
                        out.push(w);
                        v = v.saturating_mul(w);
                    }
                    ((None, '<'), (Some(w), _)) => {
                        out.push(w);
                        v = v.checked_shl(w as u32).unwrap_or(usize::MAX);
                    }
                    _ => break,
                }
                j += 2;
            }
            out.push(v);
            k = j;
        } else {
            k += 1;
        }
    }
    out
}

/// the integer constants of the code between the validator's verdict and the gate, as the tree has them now
pub fn source_constants() -> Vec<usize> {
    let mut v = vec![];
    v.extend(int_constants(&strip_comments_and_tests(SRC_CREATE)));
    v.extend(int_constants(&strip_comments_and_tests(SRC_VALIDATOR)));
    let se = strip_comments_and_tests(SRC_SESSION);
    if let Some(i) = se.find("async fn stream_openresponses_request") {
        let rest = &se[i..];
        let end = rest.find(".send()").unwrap_or(rest.len().min(6000));
        v.extend(int_constants(&rest[..end]));
    }
    v.sort();
    v.dedup();
    v
}

/// constants of the source that no payload size reaches (reported in the evidence notes)
pub fn unreached(consts: &[usize]) -> Vec<usize> {
    consts.iter().copied().filter(|c| *c > 16384).collect()
}

/// constants a payload of "several KiB" can reach
pub fn pivots(consts: &[usize], thorough: bool) -> Vec<usize> {
    let mut p: Vec<usize> = consts.iter().copied().filter(|c| (48..=16384).contains(c)).collect();
    p.push(2048);
    if thorough {
        p.extend([1024, 4096]);
    }
    p.sort();
    p.dedup();
    p
}

pub fn size_ladder(consts: &[usize]) -> Vec<usize> {
    let mut v: Vec<usize> = vec![0, 1, 3, 17, 1000, 3000, 6000];
    for k in 6..=13 {
        let p = 1usize << k;
        v.extend([p - 1, p, p + 1]);
    }
    for c in consts.iter().copied().filter(|c| (8..=16384).contains(c)) {
        v.extend([c - 1, c, c + 1, c + c / 2, 2 * c]);
    }
    v.sort();
    v.dedup();
    v
}

/// every kind of invalidity the generator knows, by name; 0 = none (the big VALID follow-up must be sent and answered)
/// (the last one makes the INITIAL request invalid: a malformed tool_choice object that itself carries the payload)
pub const KINDS: [&str; 11] = ["valid", "call_id_65", "call_id_70", "call_id_300", "call_id_65_two_byte", "name_empty", "name_dot", "name_space", "name_non_ascii", "name_65", "tool_choice_malformed"];
pub fn kind_is_name(kind: usize) -> bool {
    (5..=9).contains(&kind)
}
pub fn kind_is_tool_choice(kind: usize) -> bool {
    KINDS[kind] == "tool_choice_malformed"
}
pub fn poison_call_id(kind: usize, base: &str) -> Option<String> {
    let pad = |n: usize, c: char| -> String { base.chars().chain(std::iter::repeat(c)).take(n).collect() };
    match KINDS[kind] {
        "call_id_65" => Some(pad(65, 'x')),
        "call_id_70" => Some(pad(70, 'x')),
        "call_id_300" => Some(pad(300, 'y')),
        "call_id_65_two_byte" => Some(pad(65, 'é')),
        _ => None,
    }
}
pub fn poison_name(kind: usize) -> Option<String> {
    match KINDS[kind] {
        "name_empty" => Some(String::new()),
        "name_dot" => Some("functions.read".into()),
        "name_space" => Some("my tool".into()),
        "name_non_ascii" => Some("lés".into()),
        "name_65" => Some("n".repeat(65)),
        _ => None,
    }
}

#[derive(Clone, Debug)]
pub struct SizedPlan {
    pub kind: usize,
    pub stateless: bool,
    pub pay: PaySpec,
    /// 0 = `read` of a workspace file (output), 1 = `bash` cat (output through the shell capture), 2 = `write` (arguments)
    pub carrier: u8,
    /// the invalid item arrives in a later response than the payload (stateless history some turns long)
    pub late: bool,
    pub followup: bool,
    pub thread: bool,
    /// which block of the schedule the plan comes from (distribution)
    pub block: &'static str,
}

/// The schedule.  Quick: every (pivot, width, lead) once with the kinds cycling + the size ladder once with kinds, widths
/// and leads cycling / random.  Thorough: the full products.
pub fn plans(r: &mut Rng, consts: &[usize], thorough: bool) -> Vec<SizedPlan> {
    let mut out = vec![];
    let mut n = 0usize;
    let mk = |kind: usize, stateless_wish: bool, pay: PaySpec, block: &'static str, r: &mut Rng, n: &mut usize| -> SizedPlan {
        // a bad function name reaches the follow-up only through the stateless history (which echoes the call)
        let stateless = stateless_wish || kind_is_name(kind);
        // call arguments are quoted by a follow-up only in the stateless history
        let carrier = if stateless { (*n % 3) as u8 } else { (*n % 2) as u8 };
        *n += 1;
        SizedPlan { kind, stateless, pay, carrier, late: stateless && *n % 4 == 3, followup: r.chance(1, 4), thread: r.chance(1, 6), block }
    };
    // (A) a character of every width across every pivot
    let mut kk = 0usize;
    for p in pivots(consts, thorough) {
        for w in 2u8..=4 {
            for lead in 0..w {
                let pay = PaySpec { size: p + 1024, width: w, lead };
                if thorough {
                    for kind in 1..KINDS.len() {
                        out.push(mk(kind, true, pay.clone(), "align", r, &mut n));
                        if !kind_is_name(kind) && !kind_is_tool_choice(kind) {
                            out.push(mk(kind, false, pay.clone(), "align", r, &mut n));
                        }
                    }
                } else {
                    let kind = 1 + kk % (KINDS.len() - 1);
                    kk += 1;
                    out.push(mk(kind, kk % 2 == 0, pay, "align", r, &mut n));
                }
            }
        }
    }
    // (B) every size of the ladder
    let widths = [1u8, 2, 3, 4, 0, 5];
    for (j, size) in size_ladder(consts).into_iter().enumerate() {
        if thorough {
            for kind in 0..KINDS.len() {
                let pay = PaySpec { size, width: *r.pick(&widths), lead: r.below(4) as u8 };
                out.push(mk(kind, r.chance(1, 2), pay, "ladder", r, &mut n));
            }
        } else {
            // one in five is the valid control
            let kind = if j % 5 == 4 { 0 } else { 1 + (j + kk) % (KINDS.len() - 1) };
            let pay = PaySpec { size, width: widths[j % widths.len()], lead: r.below(4) as u8 };
            out.push(mk(kind, r.chance(1, 2), pay, "ladder", r, &mut n));
        }
    }
    out
}

/// information for the evidence: does a character of `text` lie across byte `p`?
pub fn straddles(text: &str, p: usize) -> bool {
    text.len() > p && !text.is_char_boundary(p)
}

pub fn self_test() -> Vec<String> {
    let mut bad = vec![];
    for (w, lead, size) in [(2u8, 1u8, 2049usize), (3, 2, 100), (4, 0, 7), (1, 0, 0), (0, 3, 500), (5, 0, 64)] {
        let t = payload_text(&PaySpec { size, width: w, lead });
        if t.len() != size {
            bad.push(format!("payload_text(width {w}, lead {lead}, size {size}) has {} bytes", t.len()));
        }
        if t.contains('\n') || t.contains("m/t") {
            bad.push("payload text contains a newline or a marker path".to_string());
        }
    }
    // all alignments: for every width and every byte offset inside the text some lead puts a character across it
    for w in 2u8..=4 {
        for p in [100usize, 1023, 2048, 2049, 3000] {
            if !(0..w).any(|lead| straddles(&payload_text(&PaySpec { size: p + 1024, width: w, lead }), p)) {
                bad.push(format!("no lead puts a {w}-byte character across byte {p}"));
            }
        }
    }
    if int_constants("const A: usize = 2_048; let b = 16 * 1024; x[..0x20]; 1 << 11; 1.5; foo2") != vec![2048, 2048, 16, 1024, 16384, 32, 32, 1, 11, 2048] {
        bad.push(format!("int_constants: {:?}", int_constants("const A: usize = 2_048; let b = 16 * 1024; x[..0x20]; 1 << 11; 1.5; foo2")));
    }
    bad
}
