(* Lemmas about the file-system model Base/Fs.v: lookups after set/unset, well-formed trees and
   their preservation by every os-level operation, specifications of the operations. *)
From RipV Require Import Base.Prelude Base.Fs.
Open Scope N_scope.
Open Scope list_scope.

Lemma path_eqb_eq a b : path_eqb a b = true <-> a = b.
Proof. apply list_eqb_spec. apply lN_eqb_spec. Qed.
Lemma path_eqb_refl a : path_eqb a a = true.
Proof. apply path_eqb_eq. reflexivity. Qed.
Lemma path_eqb_false a b : path_eqb a b = false <-> a <> b.
Proof.
  split.
  - intros H E. apply path_eqb_eq in E. congruence.
  - intros H. destruct (path_eqb a b) eqn:E; [|reflexivity]. apply path_eqb_eq in E. contradiction.
Qed.
Lemma path_eqb_sym a b : path_eqb a b = path_eqb b a.
Proof.
  destruct (path_eqb a b) eqn:E.
  - apply path_eqb_eq in E. subst. symmetry. apply path_eqb_refl.
  - apply path_eqb_false in E. symmetry. apply path_eqb_false. congruence.
Qed.

Ltac peq :=
  repeat match goal with
  | H : path_eqb _ _ = true |- _ => apply path_eqb_eq in H
  | H : path_eqb _ _ = false |- _ => apply path_eqb_false in H
  end.

Lemma is_prefix_iff a : forall p, is_prefix a p = true <-> exists s, p = a ++ s.
Proof.
  induction a as [|x a IH]; intros p; cbn [is_prefix].
  - split; [intros _; exists p; reflexivity|reflexivity].
  - destruct p as [|y p].
    + split; [discriminate|intros [s H]; discriminate].
    + rewrite andb_true_iff, lN_eqb_spec, IH. split.
      * intros [-> [s ->]]. exists s. reflexivity.
      * intros [s H]. cbn [app] in H. inversion H; subst. split; [reflexivity|exists s; reflexivity].
Qed.

(* ---------- association lists ---------- *)
Lemma assoc_remove_key p f q : assoc (remove_key p f) q = if path_eqb p q then None else assoc f q.
Proof.
  induction f as [|[r n] f IH]; cbn [remove_key assoc].
  - destruct (path_eqb p q); reflexivity.
  - destruct (path_eqb r p) eqn:E.
    + peq. subst r. rewrite IH. destruct (path_eqb p q); reflexivity.
    + cbn [assoc]. rewrite IH. destruct (path_eqb r q) eqn:E2; [|reflexivity].
      peq. subst r. apply path_eqb_false in E. rewrite path_eqb_sym, E. reflexivity.
Qed.

Lemma lookup_set f p n q : p <> [] ->
  lookup (set f p n) q = if path_eqb p q then Some n else lookup f q.
Proof.
  intros Hp. destruct q as [|c q].
  - cbn [lookup]. assert (path_eqb p [] = false) as -> by (apply path_eqb_false; exact Hp). reflexivity.
  - cbn [lookup set assoc]. destruct (path_eqb p (c :: q)) eqn:E; [reflexivity|].
    rewrite assoc_remove_key, E. reflexivity.
Qed.

Lemma lookup_set_same f p n : p <> [] -> lookup (set f p n) p = Some n.
Proof. intros H. rewrite lookup_set by exact H. rewrite path_eqb_refl. reflexivity. Qed.
Lemma lookup_set_other f p n q : p <> [] -> p <> q -> lookup (set f p n) q = lookup f q.
Proof. intros H D. rewrite lookup_set by exact H. apply path_eqb_false in D. rewrite D. reflexivity. Qed.

Lemma lookup_unset f p q : p <> [] ->
  lookup (unset f p) q = if path_eqb p q then None else lookup f q.
Proof.
  intros Hp. destruct q as [|c q].
  - cbn [lookup]. assert (path_eqb p [] = false) as -> by (apply path_eqb_false; exact Hp). reflexivity.
  - cbn [lookup unset]. apply assoc_remove_key.
Qed.
Lemma lookup_unset_same f p : p <> [] -> lookup (unset f p) p = None.
Proof. intros H. rewrite lookup_unset by exact H. rewrite path_eqb_refl. reflexivity. Qed.
Lemma lookup_unset_other f p q : p <> [] -> p <> q -> lookup (unset f p) q = lookup f q.
Proof. intros H D. rewrite lookup_unset by exact H. apply path_eqb_false in D. rewrite D. reflexivity. Qed.

Lemma assoc_in f q n : assoc f q = Some n -> In (q, n) f.
Proof.
  induction f as [|[r m] f IH]; cbn [assoc]; [discriminate|].
  destruct (path_eqb r q) eqn:E.
  - peq. subst. intros H; inversion H; subst. left; reflexivity.
  - intros H. right. apply IH. exact H.
Qed.
Lemma in_assoc f q n : NoDup (map fst f) -> In (q, n) f -> assoc f q = Some n.
Proof.
  induction f as [|[r m] f IH]; cbn [assoc map fst]; intros ND I; [contradiction|].
  inversion ND as [|? ? N1 N2]; subst. destruct I as [I|I].
  - inversion I; subst. rewrite path_eqb_refl. reflexivity.
  - destruct (path_eqb r q) eqn:E.
    + peq. subst. exfalso. apply N1. apply (in_map fst) in I. exact I.
    + apply IH; assumption.
Qed.

Lemma keys_remove_key p f q : In q (map fst (remove_key p f)) <-> In q (map fst f) /\ q <> p.
Proof.
  induction f as [|[r m] f IH]; cbn [remove_key map fst In]; [intuition|].
  destruct (path_eqb r p) eqn:E; peq.
  - subst. rewrite IH. intuition congruence.
  - cbn [map fst In]. rewrite IH. intuition congruence.
Qed.
Lemma nodup_remove_key p f : NoDup (map fst f) -> NoDup (map fst (remove_key p f)).
Proof.
  induction f as [|[r m] f IH]; cbn [remove_key map fst]; intros ND; [constructor|].
  inversion ND as [|? ? N1 N2]; subst.
  destruct (path_eqb r p); [apply IH; exact N2|].
  cbn [map fst]. constructor; [|apply IH; exact N2].
  rewrite keys_remove_key. intuition.
Qed.
Lemma keys_filter (P : path * node -> bool) f q : In q (map fst (filter P f)) -> In q (map fst f).
Proof.
  induction f as [|[r m] f IH]; cbn [filter map fst In]; [auto|].
  destruct (P (r, m)); cbn [map fst In]; intuition.
Qed.
Lemma nodup_filter (P : path * node -> bool) f : NoDup (map fst f) -> NoDup (map fst (filter P f)).
Proof.
  induction f as [|[r m] f IH]; cbn [filter map fst]; intros ND; [constructor|].
  inversion ND as [|? ? N1 N2]; subst.
  destruct (P (r, m)); [|apply IH; exact N2].
  cbn [map fst]. constructor; [|apply IH; exact N2].
  intros I. apply N1. eapply keys_filter. exact I.
Qed.
Lemma assoc_filter (P : path * node -> bool) f q : NoDup (map fst f) ->
  assoc (filter P f) q = match assoc f q with Some n => if P (q, n) then Some n else None | None => None end.
Proof.
  induction f as [|[r m] f IH]; cbn [filter assoc map fst]; intros ND; [reflexivity|].
  inversion ND as [|? ? N1 N2]; subst.
  destruct (path_eqb r q) eqn:E.
  - peq. subst r. destruct (P (q, m)) eqn:Pq.
    + cbn [assoc]. rewrite path_eqb_refl. reflexivity.
    + rewrite IH by exact N2. destruct (assoc f q) as [n|] eqn:A; [|reflexivity].
      exfalso. apply N1. apply assoc_in in A. apply (in_map fst) in A. exact A.
  - destruct (P (r, m)); [cbn [assoc]; rewrite E|]; apply IH; exact N2.
Qed.

(* ---------- well-formed trees ---------- *)
Definition tree (f : fs) : Prop :=
  forall x s n, lookup f (x ++ s) = Some n -> s <> [] -> lookup f x = Some Dir.
Definition fs_wf (f : fs) : Prop := NoDup (map fst f) /\ ~ In [] (map fst f) /\ tree f.

(* all proper non-empty prefixes of cur ++ rest that extend cur are directories *)
Definition pdirs (f : fs) (cur : path) (rest : list name) : Prop :=
  forall x s, rest = x ++ s -> x <> [] -> s <> [] -> lookup f (cur ++ x) = Some Dir.
Definition names_ok (cs : list name) : Prop := forall c, In c cs -> (255 <? nlen c) = false.

Lemma app_nonnil_r {A} (x s : list A) : s <> [] -> x ++ s <> x.
Proof.
  intros Hs E. apply Hs. rewrite <- (app_nil_r x) in E at 2. apply app_inv_head in E. exact E.
Qed.

Lemma tree_pdirs f k : tree f -> (exists n, lookup f k = Some n) -> pdirs f [] k.
Proof. intros T [n L] x s -> Hx Hs. cbn [app]. eapply T; eauto. Qed.

Lemma dirs_ok_iff f : forall rest cur, dirs_ok f cur rest = None <-> names_ok rest /\ pdirs f cur rest.
Proof.
  induction rest as [|c r IH]; intros cur.
  - cbn [dirs_ok]. split; [intros _|reflexivity]. split; [intros c []|].
    intros x s E. symmetry in E. apply app_eq_nil in E. destruct E; subst. congruence.
  - destruct r as [|c2 r].
    + cbn [dirs_ok]. destruct (255 <? nlen c) eqn:L.
      * split; [discriminate|]. intros [N _]. specialize (N c (or_introl eq_refl)). congruence.
      * split; [intros _|reflexivity]. split; [intros d [<-|[]]; exact L|].
        intros x s E Hx Hs. destruct x as [|x0 x]; [congruence|]. cbn [app] in E. inversion E as [[E1 E2]].
        symmetry in E2. apply app_eq_nil in E2. destruct E2; subst. congruence.
    + change (dirs_ok f cur (c :: c2 :: r)) with
        (if 255 <? nlen c then Some ENAMETOOLONG else
           match lookup f (cur ++ [c]) with
           | Some Dir => dirs_ok f (cur ++ [c]) (c2 :: r)
           | Some (File _) => Some ENOTDIR
           | None => Some ENOENT
           end).
      destruct (255 <? nlen c) eqn:L.
      { split; [discriminate|]. intros [N _]. specialize (N c (or_introl eq_refl)). congruence. }
      destruct (lookup f (cur ++ [c])) as [[b|]|] eqn:LK.
      * split; [discriminate|]. intros [_ P]. specialize (P [c] (c2 :: r) eq_refl). rewrite LK in P.
        assert (Some (File b) = Some Dir) by (apply P; discriminate). discriminate.
      * rewrite IH. split.
        -- intros [N P]. split.
           ++ intros d [<-|I]; [exact L|apply N; exact I].
           ++ intros x s E Hx Hs. destruct x as [|x0 x]; [congruence|]. cbn [app] in E. inversion E as [[E1 E2]].
              subst x0. destruct x as [|x1 x].
              ** exact LK.
              ** specialize (P (x1 :: x) s E2). rewrite <- app_assoc in P. cbn [app] in P. apply P; [discriminate|exact Hs].
        -- intros [N P]. split.
           ++ intros d I. apply N. right. exact I.
           ++ intros x s E Hx Hs. rewrite <- app_assoc. cbn [app]. apply (P (c :: x) s); [cbn [app]; rewrite E; reflexivity|discriminate|exact Hs].
      * split; [discriminate|]. intros [_ P]. specialize (P [c] (c2 :: r) eq_refl). rewrite LK in P.
        assert (None = Some Dir) by (apply P; discriminate). discriminate.
Qed.

(* dirs never lost => pdirs kept *)
Definition dirs_le (f g : fs) : Prop := forall q, lookup f q = Some Dir -> lookup g q = Some Dir.
Lemma pdirs_mono f g cur rest : dirs_le f g -> pdirs f cur rest -> pdirs g cur rest.
Proof. intros D P x s E Hx Hs. apply D. eapply P; eauto. Qed.
Lemma dirs_le_refl f : dirs_le f f.
Proof. intros q H; exact H. Qed.
Lemma dirs_le_trans f g h : dirs_le f g -> dirs_le g h -> dirs_le f h.
Proof. intros A B q H. apply B, A, H. Qed.

(* ---------- wf preservation ---------- *)
Lemma keys_set f p n q : In q (map fst (set f p n)) <-> q = p \/ (In q (map fst f) /\ q <> p).
Proof. cbn [set map fst In]. rewrite keys_remove_key. intuition. Qed.

Lemma wf_set_file f k b : fs_wf f -> k <> [] -> pdirs f [] k -> lookup f k <> Some Dir ->
  fs_wf (set f k (File b)).
Proof.
  intros [ND [NN T]] Hk P L. split; [|split].
  - cbn [set map fst]. constructor; [rewrite keys_remove_key; intuition|apply nodup_remove_key; exact ND].
  - rewrite keys_set. intros [E|[I _]]; [congruence|contradiction].
  - intros x s n. rewrite !lookup_set by exact Hk. intros H Hs.
    destruct (path_eqb k x) eqn:E1; peq.
    { subst x. exfalso. destruct (path_eqb k (k ++ s)) eqn:E2; peq.
      - symmetry in E2. revert E2. apply app_nonnil_r. exact Hs.
      - apply L. eapply T; eauto. }
    destruct (path_eqb k (x ++ s)) eqn:E2; peq.
    + destruct x as [|x0 x]; [reflexivity|]. apply (P (x0 :: x) s); [exact E2|discriminate|exact Hs].
    + eapply T; eauto.
Qed.

Lemma wf_set_dir f k : fs_wf f -> k <> [] -> pdirs f [] k -> lookup f k = None -> fs_wf (set f k Dir).
Proof.
  intros [ND [NN T]] Hk P L. split; [|split].
  - cbn [set map fst]. constructor; [rewrite keys_remove_key; intuition|apply nodup_remove_key; exact ND].
  - rewrite keys_set. intros [E|[I _]]; [congruence|contradiction].
  - intros x s n. rewrite !lookup_set by exact Hk. intros H Hs.
    destruct (path_eqb k x) eqn:E1; [reflexivity|]. peq.
    destruct (path_eqb k (x ++ s)) eqn:E2; peq.
    + destruct x as [|x0 x]; [reflexivity|]. apply (P (x0 :: x) s); [exact E2|discriminate|exact Hs].
    + eapply T; eauto.
Qed.

Lemma wf_unset_file f k b : fs_wf f -> k <> [] -> lookup f k = Some (File b) -> fs_wf (unset f k).
Proof.
  intros [ND [NN T]] Hk L. split; [|split].
  - apply nodup_remove_key. exact ND.
  - unfold unset. rewrite keys_remove_key. intuition.
  - intros x s n. rewrite !lookup_unset by exact Hk. intros H Hs.
    destruct (path_eqb k (x ++ s)) eqn:E2; [discriminate|].
    destruct (path_eqb k x) eqn:E1; peq; [|eapply T; eauto].
    subst x. exfalso. assert (lookup f k = Some Dir) by (eapply T; eauto). congruence.
Qed.

(* ---------- mkdir_all ---------- *)
Definition files_eq (f g : fs) : Prop := forall q, file_at g q = file_at f q.
Definition ext (f g : fs) : Prop :=       (* g = f plus some directories where f had nothing *)
  (forall q n, lookup f q = Some n -> lookup g q = Some n) /\
  (forall q, lookup f q = None -> lookup g q = None \/ lookup g q = Some Dir).

Lemma ext_refl f : ext f f.
Proof. split; [auto|intros q H; left; exact H]. Qed.
Lemma ext_trans f g h : ext f g -> ext g h -> ext f h.
Proof.
  intros [A1 A2] [B1 B2]. split.
  - intros q n H. apply B1, A1, H.
  - intros q H. destruct (A2 q H) as [G|G]; [apply B2; exact G|right; apply B1; exact G].
Qed.
Lemma ext_files f g : ext f g -> files_eq f g.
Proof.
  intros [A1 A2] q. unfold file_at. destruct (lookup f q) as [n|] eqn:L.
  - rewrite (A1 _ _ L). reflexivity.
  - destruct (A2 q L) as [-> | ->]; reflexivity.
Qed.
Lemma ext_dirs f g : ext f g -> dirs_le f g.
Proof. intros [A1 _] q H. apply A1. exact H. Qed.

Lemma ext_set_dir f k : k <> [] -> lookup f k = None -> ext f (set f k Dir).
Proof.
  intros Hk L. split.
  - intros q n H. rewrite lookup_set by exact Hk. destruct (path_eqb k q) eqn:E; peq; [congruence|exact H].
  - intros q H. rewrite lookup_set by exact Hk. destruct (path_eqb k q); [right; reflexivity|left; exact H].
Qed.

Lemma snoc_nonnil {A} (l : list A) (x : A) : l ++ [x] <> [].
Proof. destruct l; discriminate. Qed.

(* cur is a directory chain from the top; cs are created below it *)
Lemma mkdir_all_spec : forall cs f cur f' r,
  fs_wf f -> lookup f cur = Some Dir -> pdirs f [] cur ->
  mkdir_all f cur cs = (f', r) ->
  fs_wf f' /\ ext f f' /\
  (r = None -> names_ok cs /\ lookup f' (cur ++ cs) = Some Dir /\ pdirs f' [] (cur ++ cs)).
Proof.
  induction cs as [|c cs IH]; intros f cur f' r W LC PC H; cbn [mkdir_all] in H.
  - inversion H; subst. split; [exact W|]. split; [apply ext_refl|]. intros _.
    rewrite app_nil_r. split; [intros c []|]. split; assumption.
  - destruct (255 <? nlen c) eqn:L.
    { inversion H; subst. split; [exact W|]. split; [apply ext_refl|]. discriminate. }
    assert (PC' : forall g, dirs_le f g -> lookup g cur = Some Dir -> pdirs g [] (cur ++ [c])).
    { intros g D LG x s E Hx Hs. cbn [app].
      destruct (exists_last Hs) as [s' [y Es]]. subst s. rewrite app_assoc in E.
      apply app_inj_tail in E. destruct E as [E _].
      destruct s' as [|s0 s']; [rewrite app_nil_r in E; subst; exact LG|].
      apply D. apply (PC x (s0 :: s')); [exact E|exact Hx|discriminate]. }
    destruct (lookup f (cur ++ [c])) as [[b|]|] eqn:LK.
    + inversion H; subst. split; [exact W|]. split; [apply ext_refl|]. discriminate.
    + destruct (IH f (cur ++ [c]) f' r W LK (PC' f (dirs_le_refl f) LC) H) as [W' [E' R']].
      split; [exact W'|]. split; [exact E'|]. intros Hr. destruct (R' Hr) as [N [LL PP]].
      rewrite <- app_assoc in LL, PP. cbn [app] in LL, PP. split; [|split; assumption].
      intros d [<-|I]; [exact L|apply N; exact I].
    + assert (Hk : cur ++ [c] <> []) by apply snoc_nonnil.
      assert (W1 : fs_wf (set f (cur ++ [c]) Dir)).
      { apply wf_set_dir; [exact W|exact Hk|apply PC'; [apply dirs_le_refl|exact LC]|exact LK]. }
      assert (E1 : ext f (set f (cur ++ [c]) Dir)) by (apply ext_set_dir; assumption).
      assert (L1 : lookup (set f (cur ++ [c]) Dir) (cur ++ [c]) = Some Dir) by (apply lookup_set_same; exact Hk).
      assert (P1 : pdirs (set f (cur ++ [c]) Dir) [] (cur ++ [c])).
      { apply PC'; [apply ext_dirs; exact E1|apply (ext_dirs _ _ E1); exact LC]. }
      destruct (IH _ (cur ++ [c]) f' r W1 L1 P1 H) as [W' [E' R']].
      split; [exact W'|]. split; [eapply ext_trans; eassumption|]. intros Hr. destruct (R' Hr) as [N [LL PP]].
      rewrite <- app_assoc in LL, PP. cbn [app] in LL, PP. split; [|split; assumption].
      intros d [<-|I]; [exact L|apply N; exact I].
Qed.

Lemma mkdir_all_noop : forall cs f cur,
  names_ok cs -> (forall x s, cs = x ++ s -> x <> [] -> lookup f (cur ++ x) = Some Dir) ->
  mkdir_all f cur cs = (f, None).
Proof.
  induction cs as [|c cs IH]; intros f cur N P; cbn [mkdir_all]; [reflexivity|].
  rewrite (N c (or_introl eq_refl)).
  rewrite (P [c] cs eq_refl) by discriminate.
  apply IH; [intros d I; apply N; right; exact I|].
  intros x s E Hx. rewrite <- app_assoc. cbn [app]. apply (P (c :: x) s); [cbn [app]; rewrite E; reflexivity|discriminate].
Qed.

Lemma removelast_split {A} (l : list A) : l <> [] -> exists y, l = removelast l ++ [y].
Proof. intros H. destruct (exists_last H) as [l' [y E]]. exists y. subst. rewrite removelast_last. reflexivity. Qed.

(* ---------- the os-level operations on targets below the top directory ---------- *)
Definition clean (raw : list N) : Prop :=
  has_nul raw = false /\ raw_trail raw = TNone /\ names_ok (comps raw) /\ comps raw <> [].

Lemma pre_err_none f raw :
  pre_err f (mk_tgt [] raw) = None <-> has_nul raw = false /\ names_ok (comps raw) /\ pdirs f [] (comps raw).
Proof.
  unfold pre_err. cbn [mk_tgt t_nul t_base t_comps]. destruct (has_nul raw).
  - split; [discriminate|intros [H _]; discriminate].
  - rewrite dirs_ok_iff. intuition.
Qed.

Lemma os_write_ok f raw d f' : os_write f (mk_tgt [] raw) d = Ok f' ->
  clean raw /\ pdirs f [] (comps raw) /\ lookup f (comps raw) <> Some Dir /\ f' = set f (comps raw) (File d).
Proof.
  unfold os_write. destruct (pre_err f (mk_tgt [] raw)) eqn:PE; [discriminate|].
  apply pre_err_none in PE. destruct PE as [NU [NM PD]].
  cbn [mk_tgt t_path t_base t_comps t_trail app].
  destruct (comps raw) as [|c k] eqn:K; [cbn [lookup]; discriminate|]. rewrite <- K in *.
  assert (KN : comps raw <> []) by (rewrite K; discriminate).
  destruct (lookup f (comps raw)) as [[b|]|] eqn:L; [|discriminate|];
    destruct (raw_trail raw) eqn:TR; try discriminate; intros H; inversion H; subst;
    (split; [repeat split; assumption|]); (split; [exact PD|]); (split; [congruence|reflexivity]).
Qed.

Lemma os_write_succeeds f raw d : clean raw -> pdirs f [] (comps raw) -> lookup f (comps raw) <> Some Dir ->
  os_write f (mk_tgt [] raw) d = Ok (set f (comps raw) (File d)).
Proof.
  intros [NU [TR [NM KN]]] PD L. unfold os_write.
  assert (PE : pre_err f (mk_tgt [] raw) = None) by (apply pre_err_none; auto). rewrite PE.
  cbn [mk_tgt t_path t_base t_comps t_trail app]. rewrite TR.
  destruct (lookup f (comps raw)) as [[b|]|]; [reflexivity|congruence|reflexivity].
Qed.

Lemma os_remove_ok f raw f' : os_remove_file f (mk_tgt [] raw) = Ok f' ->
  clean raw /\ pdirs f [] (comps raw) /\ (exists b, lookup f (comps raw) = Some (File b)) /\ f' = unset f (comps raw).
Proof.
  unfold os_remove_file. destruct (pre_err f (mk_tgt [] raw)) eqn:PE; [discriminate|].
  apply pre_err_none in PE. destruct PE as [NU [NM PD]].
  cbn [mk_tgt t_path t_base t_comps t_trail app].
  destruct (comps raw) as [|c k] eqn:K; [cbn [lookup]; discriminate|]. rewrite <- K in *.
  assert (KN : comps raw <> []) by (rewrite K; discriminate).
  destruct (lookup f (comps raw)) as [[b|]|] eqn:L; try discriminate.
  destruct (raw_trail raw) eqn:TR; try discriminate. intros H; inversion H; subst.
  split; [repeat split; assumption|]. split; [exact PD|]. split; [eexists; reflexivity|reflexivity].
Qed.

Lemma os_read_ok f raw b : os_read f (mk_tgt [] raw) = Ok b ->
  clean raw /\ pdirs f [] (comps raw) /\ lookup f (comps raw) = Some (File b).
Proof.
  unfold os_read. destruct (pre_err f (mk_tgt [] raw)) eqn:PE; [discriminate|].
  apply pre_err_none in PE. destruct PE as [NU [NM PD]].
  cbn [mk_tgt t_path t_base t_comps t_trail app].
  destruct (comps raw) as [|c k] eqn:K; [cbn [lookup]; discriminate|]. rewrite <- K in *.
  assert (KN : comps raw <> []) by (rewrite K; discriminate).
  destruct (lookup f (comps raw)) as [[b0|]|] eqn:L; try discriminate.
  destruct (raw_trail raw) eqn:TR; try discriminate. intros H; inversion H; subst.
  split; [repeat split; assumption|]. split; [exact PD|reflexivity].
Qed.

Lemma os_exists_false_nofile f raw : fs_wf f -> os_exists f (mk_tgt [] raw) = false ->
  has_nul raw = false -> names_ok (comps raw) -> raw_trail raw = TNone -> file_at f (comps raw) = None.
Proof.
  intros [_ [_ T]] X NU NM TR. unfold file_at. destruct (lookup f (comps raw)) as [[b|]|] eqn:L; try reflexivity.
  exfalso. unfold os_exists in X.
  assert (PE : pre_err f (mk_tgt [] raw) = None).
  { apply pre_err_none. split; [exact NU|]. split; [exact NM|]. apply tree_pdirs; [exact T|eexists; exact L]. }
  rewrite PE in X. cbn [mk_tgt t_path t_base t_comps t_trail app] in X. rewrite L, TR in X. discriminate.
Qed.

Lemma split_aux_in c : forall s cur piece x, In piece (split_aux c cur s) -> In x piece -> In x cur \/ In x s.
Proof.
  induction s as [|y s IH]; intros cur piece x IP IX; cbn [split_aux] in IP.
  - destruct IP as [<-|[]]. left. apply in_rev. exact IX.
  - destruct (y =? c).
    + destruct IP as [<-|IP]; [left; apply in_rev; exact IX|].
      destruct (IH [] piece x IP IX) as [[]|I]. right. right. exact I.
    + destruct (IH (y :: cur) piece x IP IX) as [[->|I]|I]; [right; left; reflexivity|left; exact I|right; right; exact I].
Qed.

Lemma removelast_incl {A} (l : list A) x : In x (removelast l) -> In x l.
Proof.
  induction l as [|y l IH]; [intros []|]. destruct l as [|z r]; [intros []|].
  cbn [removelast]. intros [->|I]; [left; reflexivity|right; apply IH; exact I].
Qed.

Lemma parent_no_nul raw : has_nul raw = false -> comps_nul (removelast (comps raw)) = false.
Proof.
  intros NU. destruct (comps_nul (removelast (comps raw))) eqn:E; [|reflexivity]. exfalso. unfold comps_nul in E.
  apply existsb_exists in E. destruct E as [c [I H]]. apply existsb_exists in H. destruct H as [z [IZ HZ]].
  apply N.eqb_eq in HZ. subst z. apply removelast_incl in I. unfold comps in I. apply filter_In in I. destruct I as [I _].
  destruct (split_aux_in 47 raw [] c 0 I IZ) as [[]|J].
  unfold has_nul in NU. assert (existsb (N.eqb 0) raw = true) by (apply existsb_exists; exists 0; split; [exact J|reflexivity]).
  congruence.
Qed.

Lemma mk_parent_dirs_spec f raw f' r : fs_wf f -> mk_parent_dirs f (mk_tgt [] raw) = (f', r) ->
  fs_wf f' /\ ext f f'.
Proof.
  intros W. unfold mk_parent_dirs. cbn [mk_tgt t_nul t_base t_comps].
  destruct (comps_nul (removelast (comps raw))); [intros H; inversion H; subst; split; [exact W|apply ext_refl]|].
  intros H. apply mkdir_all_spec in H; [|exact W|reflexivity|].
  - destruct H as [A [B _]]. split; assumption.
  - intros x s E. symmetry in E. apply app_eq_nil in E. destruct E; subst. congruence.
Qed.

Lemma mk_parent_dirs_noop f raw : has_nul raw = false -> names_ok (comps raw) -> pdirs f [] (comps raw) ->
  mk_parent_dirs f (mk_tgt [] raw) = (f, None).
Proof.
  intros NU NM PD. unfold mk_parent_dirs. cbn [mk_tgt t_nul t_base t_comps].
  rewrite (parent_no_nul raw NU).
  destruct (comps raw) as [|c k] eqn:K; [reflexivity|]. rewrite <- K in *.
  assert (KN : comps raw <> []) by (rewrite K; discriminate).
  destruct (removelast_split _ KN) as [y Ey].
  apply mkdir_all_noop.
  - intros d I. apply NM. rewrite Ey. apply in_or_app. left. exact I.
  - intros x s E Hx. cbn [app]. apply (PD x (s ++ [y])); [rewrite Ey at 1; rewrite E, app_assoc; reflexivity|exact Hx|apply snoc_nonnil].
Qed.

Lemma os_rename_ok f rs rd f' : os_rename_file f (mk_tgt [] rs) (mk_tgt [] rd) = Ok f' ->
  clean rs /\ pdirs f [] (comps rs) /\ clean rd /\ pdirs f [] (comps rd) /\ lookup f (comps rd) <> Some Dir /\
  exists b, lookup f (comps rs) = Some (File b) /\ f' = set (unset f (comps rs)) (comps rd) (File b).
Proof.
  unfold os_rename_file. destruct (pre_err f (mk_tgt [] rs)) eqn:PE; [discriminate|].
  apply pre_err_none in PE. destruct PE as [NU [NM PD]].
  cbn [mk_tgt t_path t_base t_comps t_trail app].
  destruct (comps rs) as [|c k] eqn:K; [cbn [lookup]; discriminate|]. rewrite <- K in *.
  assert (KN : comps rs <> []) by (rewrite K; discriminate).
  destruct (lookup f (comps rs)) as [[b|]|] eqn:L; try discriminate.
  destruct (raw_trail rs) eqn:TR; try discriminate.
  destruct (pre_err f (mk_tgt [] rd)) eqn:PE2; [discriminate|].
  apply pre_err_none in PE2. destruct PE2 as [NU2 [NM2 PD2]].
  destruct (comps rd) as [|c2 k2] eqn:K2; [cbn [lookup]; discriminate|]. rewrite <- K2 in *.
  assert (KN2 : comps rd <> []) by (rewrite K2; discriminate).
  destruct (lookup f (comps rd)) as [[b2|]|] eqn:L2; [|discriminate|];
    destruct (raw_trail rd) eqn:TR2; try discriminate; intros H; inversion H; subst;
    (split; [repeat split; assumption|]); (split; [exact PD|]); (split; [repeat split; assumption|]);
    (split; [exact PD2|]); (split; [congruence|]); exists b; split; reflexivity.
Qed.

(* ---------- pruning empty directories ---------- *)
Lemma file_under_iff f a : NoDup (map fst f) -> ~ In [] (map fst f) ->
  file_under f a = true <-> exists s b, lookup f (a ++ s) = Some (File b).
Proof.
  intros ND NN. unfold file_under. rewrite existsb_exists. split.
  - intros [[q n] [I H]]. unfold under in H. cbn [fst snd] in H. apply andb_true_iff in H. destruct H as [H1 H2].
    destruct n as [b|]; [|discriminate]. apply is_prefix_iff in H1. destruct H1 as [s ->].
    exists s, b. pose proof (in_assoc _ _ _ ND I) as A.
    destruct (a ++ s) as [|c r] eqn:E; [exfalso; apply NN; apply (in_map fst) in I; exact I|]. exact A.
  - intros [s [b L]]. exists (a ++ s, File b). split.
    + destruct (a ++ s) as [|c r] eqn:E; [cbn [lookup] in L; discriminate|]. apply assoc_in. exact L.
    + unfold under. cbn [fst snd]. rewrite andb_true_iff. split; [apply is_prefix_iff; eexists; reflexivity|reflexivity].
Qed.

Lemma lookup_filter (P : path * node -> bool) f q : NoDup (map fst f) -> q <> [] ->
  lookup (filter P f) q = match lookup f q with Some n => if P (q, n) then Some n else None | None => None end.
Proof. intros ND Hq. destruct q as [|c q]; [congruence|]. cbn [lookup]. apply assoc_filter. exact ND. Qed.

Definition prune_pred (f : fs) (a : path) (qn : path * node) : bool :=
  negb (under a qn && is_dirnode (snd qn) && negb (file_under f (fst qn))).

Lemma prune_dirs_spec f a : fs_wf f -> a <> [] ->
  let g := prune_dirs f a in
  fs_wf g /\ files_eq f g /\
  (forall q, lookup f q = Some Dir -> (forall s, q <> a ++ s) -> lookup g q = Some Dir) /\
  (forall q, lookup g q = Some Dir -> lookup f q = Some Dir) /\
  ((forall s, file_at f (a ++ s) = None) -> lookup g a <> Some Dir).
Proof.
  intros [ND [NN T]] Ha. unfold prune_dirs. destruct a as [|a0 a']; [congruence|]. clear Ha.
  set (a := a0 :: a') in *. assert (Ha : a <> []) by discriminate.
  destruct (is_dir f a) eqn:ID.
  2:{ cbn zeta. split; [repeat split; assumption|]. split; [intros q; reflexivity|]. split; [auto|]. split; [auto|].
      intros _ L. unfold is_dir in ID. rewrite L in ID. discriminate. }
  fold (prune_pred f a). cbn zeta.
  assert (LF : forall q, q <> [] -> lookup (filter (prune_pred f a) f) q =
            match lookup f q with Some n => if prune_pred f a (q, n) then Some n else None | None => None end).
  { intros q Hq. apply lookup_filter; assumption. }
  assert (FU := fun x => file_under_iff f x ND NN).
  split; [split; [apply nodup_filter; exact ND|split; [intros I; apply NN; eapply keys_filter; exact I|]]|].
  - intros x s n L Hs. destruct x as [|x0 x']; [reflexivity|]. set (x := x0 :: x') in *.
    assert (Hx : x <> []) by discriminate.
    assert (Hxs : x ++ s <> []) by (subst x; discriminate).
    rewrite LF in L by exact Hxs. rewrite LF by exact Hx.
    destruct (lookup f (x ++ s)) as [m|] eqn:L0; [|discriminate].
    destruct (prune_pred f a (x ++ s, m)) eqn:PP; [|discriminate]. inversion L; subst m.
    rewrite (T x s n L0 Hs).
    destruct (prune_pred f a (x, Dir)) eqn:PX; [reflexivity|exfalso].
    unfold prune_pred, under in PX, PP. cbn [fst snd is_dirnode] in PX, PP.
    apply negb_false_iff in PX. rewrite !andb_true_iff in PX. destruct PX as [[UX _] FX].
    apply negb_true_iff in FX.
    apply is_prefix_iff in UX. destruct UX as [w ->].
    assert (UXS : is_prefix a ((a ++ w) ++ s) = true) by (apply is_prefix_iff; exists (w ++ s); rewrite app_assoc; reflexivity).
    rewrite UXS in PP. destruct n as [b|]; cbn [is_dirnode andb negb] in PP.
    + assert (file_under f (a ++ w) = true) by (apply FU; exists s, b; exact L0). congruence.
    + apply negb_true_iff in PP. apply negb_false_iff in PP. apply FU in PP. destruct PP as [s2 [b L2]].
      assert (file_under f (a ++ w) = true) by (apply FU; exists (s ++ s2), b; rewrite app_assoc; exact L2). congruence.
  - split; [|split; [|split]].
    + intros q. unfold file_at. destruct q as [|q0 q']; [reflexivity|]. rewrite LF by discriminate.
      destruct (lookup f (q0 :: q')) as [[b|]|]; [|destruct (prune_pred _ _ _); reflexivity|reflexivity].
      unfold prune_pred. cbn [snd is_dirnode]. rewrite andb_false_r. reflexivity.
    + intros q L NA. destruct q as [|q0 q']; [reflexivity|]. rewrite LF by discriminate. rewrite L.
      assert (prune_pred f a (q0 :: q', Dir) = true) as ->; [|reflexivity].
      unfold prune_pred, under. cbn [fst snd]. destruct (is_prefix a (q0 :: q')) eqn:IP; [|reflexivity].
      apply is_prefix_iff in IP. destruct IP as [s E]. exfalso. exact (NA s E).
    + intros q L. destruct q as [|q0 q']; [reflexivity|]. rewrite LF in L by discriminate.
      destruct (lookup f (q0 :: q')) as [m|]; [|discriminate]. destruct (prune_pred _ _ _); [exact L|discriminate].
    + intros NF L. rewrite LF in L by exact Ha.
      unfold is_dir in ID. destruct (lookup f a) as [[b|]|] eqn:L0; try discriminate.
      destruct (prune_pred f a (a, Dir)) eqn:PP; [|discriminate].
      unfold prune_pred, under in PP. cbn [fst snd is_dirnode] in PP.
      assert (IP : is_prefix a a = true) by (apply is_prefix_iff; exists []; rewrite app_nil_r; reflexivity).
      rewrite IP in PP. cbn [andb] in PP. apply negb_true_iff, negb_false_iff in PP.
      apply FU in PP. destruct PP as [s [b L2]]. specialize (NF s). unfold file_at in NF. rewrite L2 in NF. discriminate.
Qed.
