(* C02, "nothing to do" (Model/NoopPlan.v): with a coherent checkpoint cache the code's planner plans
   exactly what the truth log leaves unplanned; nothing unplanned => nothing planned => the call is one
   of the model's silent invocations.  Refuted for a zero-byte / partial cache (open findings) and for
   the `>=` fallback of seeded change C02-6. *)
From RipV Require Import Base.Prelude Model.Frames Model.Log Model.ContStore Model.NoopPlan
  Proofs.ContStoreProofs.

(* the lookup loop answers "a checkpoint sits exactly on the cut" iff some entry does *)
Lemma best_le_hit cut : forall ls acc,
  (forall a, acc = Some a -> fst a <= cut) ->
  hit cut (best_le false cut ls acc) = hit cut acc || existsb (fun e => fst e =? cut) ls.
Proof.
  induction ls as [|e r IH]; intros acc Hacc; cbn [best_le existsb].
  - rewrite orb_false_r. reflexivity.
  - destruct (cut <? fst e) eqn:Eskip.
    + apply N.ltb_lt in Eskip. rewrite (IH acc Hacc).
      assert (Hne : (fst e =? cut) = false) by (apply N.eqb_neq; lia).
      rewrite Hne. reflexivity.
    + apply N.ltb_ge in Eskip.
      destruct acc as [a|].
      * specialize (Hacc a eq_refl).
        destruct (better e a) eqn:Eb.
        -- rewrite IH by (intros x Hx; inversion Hx; subst; exact Eskip).
           cbn [hit]. unfold better in Eb.
           destruct (fst a =? cut) eqn:Ea; destruct (fst e =? cut) eqn:Ee; cbn [orb]; try reflexivity.
           apply N.eqb_eq in Ea. apply N.eqb_neq in Ee.
           apply orb_true_iff in Eb. destruct Eb as [Eb|Eb].
           ++ apply N.ltb_lt in Eb. lia.
           ++ apply andb_true_iff in Eb. destruct Eb as [Eb _]. apply N.eqb_eq in Eb. lia.
        -- rewrite IH by (intros x Hx; inversion Hx; subst; exact Hacc).
           cbn [hit]. unfold better in Eb.
           destruct (fst a =? cut) eqn:Ea; destruct (fst e =? cut) eqn:Ee; cbn [orb]; try reflexivity.
           apply N.eqb_neq in Ea. apply N.eqb_eq in Ee.
           apply orb_false_iff in Eb. destruct Eb as [Eb1 Eb2]. apply N.ltb_ge in Eb1.
           assert (fst a = fst e) by lia. lia.
      * rewrite IH by (intros x Hx; inversion Hx; subst; exact Eskip).
        cbn [hit orb]. reflexivity.
Qed.

Lemma already_coherent t cc cut : coherent t cc -> already false t cc cut = covered t cut.
Proof.
  intros [H|[H|H]]; subst cc; unfold already, lookup, covered;
    rewrite best_le_hit by (intros a Ha; discriminate); reflexivity.
Qed.

Lemma filter_ext_in' {A} (f g : A -> bool) l : (forall x, f x = g x) -> filter f l = filter g l.
Proof. intros H. induction l as [|x r IH]; cbn [filter]; [reflexivity|]. rewrite H, IH. reflexivity. Qed.

(* with a coherent checkpoint cache the planner plans the first max_new of what the truth log leaves *)
Lemma planned_coherent t cc stride max_new :
  coherent t cc -> planned false t cc stride max_new = firstn max_new (unplanned t stride).
Proof.
  intros H. unfold planned, unplanned. f_equal. apply filter_ext_in'.
  intros cut. rewrite (already_coherent t cc cut H). reflexivity.
Qed.

(* nothing unplanned in the truth log => nothing planned, for every stride, max_new and coherent cache *)
Lemma nothing_to_do_plans_nothing t cc stride max_new :
  coherent t cc -> unplanned t stride = [] -> planned false t cc stride max_new = [].
Proof. intros H E. rewrite (planned_coherent t cc stride max_new H), E. destruct max_new; reflexivity. Qed.

(* ... and then auto / auto-schedule are silent invocations of the store model, whatever the other
   facts are: they add nothing in any state *)
Lemma nothing_to_do_is_silent t cc stride max_new (cp : cap) (f : cfacts) (c : N) (st : state) :
  coherent t cc -> unplanned t stride = [] ->
  cp = CapAuto \/ cp = CapAutoSchedule ->
  cf_planned f = length (planned false t cc stride max_new) ->
  s_log (exec (cap_prog cp c f) st) = s_log st.
Proof.
  intros H E Hcp Hf. rewrite (nothing_to_do_plans_nothing t cc stride max_new H E) in Hf. cbn [length] in Hf.
  apply silent_calls_keep_log.
  destruct Hcp; subst cp; cbn [silent]; rewrite Hf; cbn [Nat.eqb]; rewrite !orb_true_r; reflexivity.
Qed.

(* after the S4c repair (a zero-byte cache file counts as absent) the zero-byte state is one of the
   coherent ones: the planner agrees with the truth log there too, for every thread *)
Lemma seen_zero_length_coherent t : coherent t (seen true (CLines [])).
Proof. left. reflexivity. Qed.

Lemma zero_length_counts_as_absent t stride max_new :
  planned false t (seen true (CLines [])) stride max_new = firstn max_new (unplanned t stride).
Proof. apply planned_coherent, seen_zero_length_coherent. Qed.

(* `seen` changes nothing else *)
Lemma seen_other zl cc : cc <> CLines [] -> seen zl cc = cc.
Proof. destruct cc as [| |[|e r]]; intros H; try reflexivity. exfalso. apply H. reflexivity. Qed.

(* the `>=` fallback of seeded change C02-6 is invisible as long as the cache answers ... *)
Lemma skip_eq_fallback_hidden t cc stride max_new :
  cc = CAbsent \/ cc = CLines (t_cps t) ->
  planned true t cc stride max_new = planned false t cc stride max_new.
Proof. intros [H|H]; subst cc; reflexivity. Qed.

(* ---------- witnesses ---------- *)
(* 2 messages (seqs 1, 2), one checkpoint frame (seq 3) covering message 2; stride 2 *)
Definition w_thread : pthread := {| t_msgs := [1; 2]; t_cps := [(2, 3)] |}.
(* 6 messages, checkpoints on messages 2, 4, 6 *)
Definition w_thread6 : pthread := {| t_msgs := [1; 2; 3; 4; 5; 6]; t_cps := [(2, 7); (4, 8); (6, 9)] |}.

Lemma w_nothing_to_do : unplanned w_thread 2 = [] /\ unplanned w_thread6 2 = [].
Proof. vm_compute. split; reflexivity. Qed.

(* ... and plans a covered cut point again once the cache is unparsable (seed C02-6) *)
Lemma skip_eq_fallback_refuted :
  unplanned w_thread6 2 = [] /\ planned true w_thread6 CUnparsable 2 32 = [6; 4; 2]
  /\ planned false w_thread6 CUnparsable 2 32 = [].
Proof. vm_compute. repeat split; reflexivity. Qed.

(* open finding S4c-noop-appends: a zero-byte cache file answers "no checkpoint" *)
Lemma zero_length_cache_refuted :
  unplanned w_thread6 2 = [] /\ planned false w_thread6 (seen false (CLines [])) 2 32 = [6; 4; 2].
Proof. vm_compute. split; reflexivity. Qed.

(* open finding S4-noop-appends: a cache re-created by the last append holds the newest checkpoint only *)
Lemma partial_cache_refuted :
  unplanned w_thread6 2 = [] /\ planned false w_thread6 (CLines [(6, 9)]) 2 32 = [4; 2].
Proof. vm_compute. split; reflexivity. Qed.

(* non-vacuity of the positive statements: a thread with work left, and the window of 32 *)
Lemma planner_demo :
  planned false {| t_msgs := [1; 2; 3; 4; 5]; t_cps := [(4, 6)] |} CUnparsable 2 32 = [2]
  /\ planned false {| t_msgs := [1; 2; 3; 4; 5]; t_cps := [(4, 6)] |} (CLines [(4, 6)]) 1 2 = [5; 3]
  /\ length (cut_seqs {| t_msgs := map N.of_nat (List.seq 1 70); t_cps := [] |} 2) = 32%nat
  /\ cut_seqs w_thread6 18446744073709551615 = [] /\ cut_seqs w_thread6 0 = [].
Proof. vm_compute. repeat split; reflexivity. Qed.
