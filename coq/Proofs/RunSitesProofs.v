(* Model/WireRun.v, the counter only (shared by C03 and C01): a run whose code is a concatenation of emit sites
   (build from the counter, emit, bump) numbers its frames c, c+1, .. and hands the counter back at c + number of frames. *)
From RipV Require Import Base.Prelude Model.WireRun.

Lemma rrun_from_app st p q : rrun_from st (p ++ q) = rrun_from (rrun_from st p) q.
Proof. unfold rrun_from. apply fold_left_app. Qed.

Lemma site_step st t :
  rrun_from st (site t)
  = {| r_cnt := r_cnt st + 1; r_slots := (t, r_cnt st) :: r_slots st; r_out := r_out st ++ [(t, r_cnt st)] |}.
Proof.
  unfold rrun_from, site. cbn [fold_left rstep r_cnt r_slots r_out slot_seq fst snd].
  rewrite N.eqb_refl. cbn [r_cnt r_slots r_out]. reflexivity.
Qed.

Lemma sites_run ts : forall st,
  r_out (rrun_from st (flat_map site ts)) = r_out st ++ number (r_cnt st) ts
  /\ r_cnt (rrun_from st (flat_map site ts)) = r_cnt st + N.of_nat (length ts).
Proof.
  induction ts as [|t ts IH]; intro st.
  - cbn [flat_map number length]. unfold rrun_from. cbn [fold_left]. rewrite app_nil_r. split; [reflexivity | cbn; lia].
  - cbn [flat_map]. rewrite rrun_from_app, site_step. destruct (IH {| r_cnt := r_cnt st + 1; r_slots := (t, r_cnt st) :: r_slots st; r_out := r_out st ++ [(t, r_cnt st)] |}) as [A B].
    rewrite A, B. cbn [r_cnt r_out number length]. rewrite <- app_assoc. cbn [app]. split; [reflexivity | lia].
Qed.

(* a well-formed program IS a concatenation of sites *)
Lemma wf_run_sites_n n : forall p, (length p <= n)%nat -> wf_run p = true -> p = flat_map site (sites_of p).
Proof.
  induction n as [|n IH]; intros p Hl Hw.
  - destruct p; [reflexivity | cbn in Hl; lia].
  - destruct p as [|a p]; [reflexivity|].
    destruct a as [t| |]; cbn [wf_run] in Hw; try discriminate.
    destruct p as [|b p]; [discriminate|]. destruct b as [|t'|]; try discriminate.
    destruct p as [|c p]; [discriminate|]. destruct c; try discriminate.
    apply andb_true_iff in Hw. destruct Hw as [Ht Hw]. apply N.eqb_eq in Ht. subst t'.
    cbn [sites_of flat_map site app]. f_equal. f_equal. f_equal.
    apply IH; [cbn [length] in Hl; lia | exact Hw].
Qed.
Lemma wf_run_sites p : wf_run p = true -> p = flat_map site (sites_of p).
Proof. apply (wf_run_sites_n (length p)). lia. Qed.

Lemma wf_sites ts : wf_run (flat_map site ts) = true.
Proof. induction ts as [|t ts IH]; [reflexivity|]. cbn [flat_map site app wf_run]. rewrite N.eqb_refl. exact IH. Qed.

Lemma nums_from_number c ts : nums_from c (number c ts) = true.
Proof. revert c. induction ts as [|t ts IH]; intro c; [reflexivity|]. cbn [number nums_from snd]. rewrite N.eqb_refl. apply IH. Qed.

Lemma length_number ts : forall c, length (number c ts) = length ts.
Proof. induction ts as [|t ts IH]; intro c; [reflexivity|]. cbn [number length]. f_equal. apply IH. Qed.

(* the counter: every run made of sites emits c, c+1, .. and hands back c + number of frames *)
Theorem run_numbered c p :
  wf_run p = true ->
  r_out (rrun c p) = number c (sites_of p)
  /\ nums_from c (r_out (rrun c p)) = true
  /\ r_cnt (rrun c p) = c + N.of_nat (length (r_out (rrun c p))).
Proof.
  intro Hw. pose proof (wf_run_sites p Hw) as Hp. remember (sites_of p) as ts eqn:Ets. clear Ets. subst p.
  unfold rrun. destruct (sites_run ts (rstart c)) as [A B]. cbn [rstart r_out r_cnt app] in A, B.
  rewrite A, B. split; [reflexivity|]. split; [apply nums_from_number|].
  rewrite length_number. reflexivity.
Qed.

