(* Proofs about the byte-level model of EventLog::append (Model/LogBytes.v): with the single
   write of frame+LF the file is old bytes + whole frames after EVERY write(2); with two writes, or a
   serializer streaming into the BufWriter, a frame larger than the buffer is in the file in part. *)
From RipV Require Import Base.Prelude Model.Frames Model.Log Model.LogBytes Proofs.LogProofs.

Lemma blen_app a b : blen (a ++ b) = blen a + blen b.
Proof. unfold blen. rewrite app_length. lia. Qed.

Lemma blen_nil : blen [] = 0.
Proof. reflexivity. Qed.

Lemma blen_zero b : blen b = 0 -> b = [].
Proof. unfold blen. destruct b as [|x r]; [reflexivity|]. cbn [length]. lia. Qed.

Lemma bw_run_app cap ops1 : forall s ops2,
  bw_run cap s (ops1 ++ ops2) =
  (fst (bw_run cap s ops1) ++ fst (bw_run cap (snd (bw_run cap s ops1)) ops2),
   snd (bw_run cap (snd (bw_run cap s ops1)) ops2)).
Proof.
  induction ops1 as [|o r IH]; intros s ops2.
  - cbn [app bw_run fst snd]. destruct (bw_run cap s ops2) as [w z]. reflexivity.
  - cbn [app bw_run]. destruct (bw_op cap s o) as [w1 s1]. rewrite IH.
    destruct (bw_run cap s1 r) as [w2 s2]. cbn [fst snd].
    destruct (bw_run cap s2 ops2) as [w3 s3]. cbn [fst snd]. rewrite app_assoc. reflexivity.
Qed.

Lemma bw_trace_app cap s ops1 ops2 :
  bw_trace cap s (ops1 ++ ops2) = bw_trace cap s ops1 ++ bw_trace cap (bw_final cap s ops1) ops2.
Proof. unfold bw_trace, bw_final. rewrite bw_run_app. reflexivity. Qed.

Lemma bw_final_app cap s ops1 ops2 :
  bw_final cap s (ops1 ++ ops2) = bw_final cap (bw_final cap s ops1) ops2.
Proof. unfold bw_final. rewrite bw_run_app. reflexivity. Qed.

(* ---------- the single-write append ---------- *)
Lemma append_single_run cap enc f F :
  bw_final cap (bw_at F) (append_single enc f) = bw_at (F ++ enc f ++ [10])
  /\ Forall (fun b => b = F \/ b = F ++ enc f ++ [10]) (bw_trace cap (bw_at F) (append_single enc f)).
Proof.
  unfold bw_final, bw_trace, append_single, bw_at.
  cbn [bw_run bw_op bw_buf bw_file]. rewrite blen_nil, N.add_0_l.
  destruct (cap <? blen (enc f ++ [10])) eqn:E1; destruct (cap <=? blen (enc f ++ [10])) eqn:E2;
    unfold flush_buf; cbn [bw_buf bw_file fst snd app]; rewrite ?app_nil_r; cbn [bw_buf bw_file app];
    rewrite ?app_nil_r; (split; [reflexivity|]); repeat first [apply Forall_nil | apply Forall_cons]; auto.
Qed.

Lemma log_bytes_snoc enc l f : log_bytes enc (l ++ [f]) = log_bytes enc l ++ enc f ++ [10].
Proof. rewrite log_bytes_app. unfold log_bytes at 2. cbn [map concat]. rewrite app_nil_r. reflexivity. Qed.

Lemma appends_single_run cap enc fs : forall l,
  bw_final cap (bw_at (log_bytes enc l)) (appends_single enc fs) = bw_at (log_bytes enc (l ++ fs))
  /\ forall b, In b (bw_trace cap (bw_at (log_bytes enc l)) (appends_single enc fs)) ->
               exists k, b = log_bytes enc (l ++ firstn k fs).
Proof.
  induction fs as [|f r IH]; intros l.
  - unfold appends_single, bw_final, bw_trace. cbn [map concat bw_run fst snd]. rewrite app_nil_r.
    split; [reflexivity|]. intros b [].
  - unfold appends_single. cbn [map concat]. fold (appends_single enc r).
    rewrite bw_final_app, bw_trace_app.
    destruct (append_single_run cap enc f (log_bytes enc l)) as [Hfin Htr].
    rewrite Hfin. rewrite <- log_bytes_snoc.
    destruct (IH (l ++ [f])) as [IHfin IHtr]. split.
    + rewrite IHfin. rewrite <- app_assoc. reflexivity.
    + intros b Hin. apply in_app_or in Hin. destruct Hin as [Hin|Hin].
      * rewrite Forall_forall in Htr. destruct (Htr b Hin) as [Hb|Hb].
        -- exists 0%nat. cbn [firstn]. rewrite app_nil_r. exact Hb.
        -- exists 1%nat. cbn [firstn]. rewrite Hb, <- log_bytes_snoc. reflexivity.
      * destruct (IHtr b Hin) as [k Hk]. exists (S k). cbn [firstn].
        rewrite Hk, <- app_assoc. reflexivity.
Qed.

(* the statement of Props/C02.v *)
Lemma file_whole_lines_every_step (cap : N) (enc : frame -> bytes) (l fs : list frame) (b : bytes) :
  (forall f, ~ In 10 (enc f)) ->
  In b (bw_trace cap (bw_at (log_bytes enc l)) (appends_single enc fs)) ->
  exists k, b = log_bytes enc l ++ log_bytes enc (firstn k fs)
            /\ split_lines (log_bytes enc (firstn k fs)) = (map enc (firstn k fs), []).
Proof.
  intros Hn Hin. destruct (appends_single_run cap enc fs l) as [_ Htr].
  destruct (Htr b Hin) as [k Hk]. exists k. split.
  - rewrite Hk. apply log_bytes_app.
  - apply split_lines_log_bytes. exact Hn.
Qed.

Lemma file_after_appends (cap : N) (enc : frame -> bytes) (l fs : list frame) :
  bw_final cap (bw_at (log_bytes enc l)) (appends_single enc fs) = bw_at (log_bytes enc (l ++ fs)).
Proof. apply appends_single_run. Qed.

(* a program whose extracted shape passes the obligation IS the single-write append *)
Lemma ashape_eqb_eq a b : ashape_eqb a b = true -> a = b.
Proof. destruct a, b; cbn; congruence. Qed.
Lemma ashapes_eqb_eq a : forall b, ashapes_eqb a b = true -> a = b.
Proof.
  induction a as [|x r IH]; intros [|y s] H; cbn in H; try congruence.
  apply andb_true_iff in H. destruct H as [H1 H2]. apply ashape_eqb_eq in H1. apply IH in H2. congruence.
Qed.
Lemma shape_single_prog enc pieces f sh :
  shape_single_write sh = true -> prog_of_shape enc pieces f sh = append_single enc f.
Proof. intros H. apply ashapes_eqb_eq in H. subst. reflexivity. Qed.

(* ---------- byte view of a partial line ---------- *)
Lemma split_lines_aux_nolf cur x : ~ In 10 x -> split_lines_aux cur x = ([], rev cur ++ x).
Proof.
  revert cur; induction x as [|y r IH]; intros cur Hn.
  - cbn [split_lines_aux]. rewrite app_nil_r. reflexivity.
  - cbn [split_lines_aux]. destruct (y =? 10) eqn:E.
    + apply N.eqb_eq in E. subst. exfalso. apply Hn. left. reflexivity.
    + rewrite IH by (intros Hin; apply Hn; right; exact Hin). cbn [rev]. rewrite <- app_assoc. reflexivity.
Qed.

Lemma split_lines_log_bytes_tail enc l x :
  (forall f, ~ In 10 (enc f)) -> ~ In 10 x ->
  split_lines (log_bytes enc l ++ x) = (map enc l, x).
Proof.
  intros Hn Hx. unfold split_lines. induction l as [|f r IH].
  - cbn [log_bytes map concat app]. rewrite split_lines_aux_nolf by exact Hx. reflexivity.
  - unfold log_bytes. cbn [map concat]. unfold encode_line at 1. rewrite <- !app_assoc.
    cbn [app]. rewrite split_lines_aux_line by apply Hn.
    change (concat (map (encode_line enc) r)) with (log_bytes enc r). rewrite IH. reflexivity.
Qed.

Lemma partial_tail_of enc l x :
  (forall f, ~ In 10 (enc f)) -> ~ In 10 x -> partial_tail (log_bytes enc l ++ x) = x.
Proof. intros Hn Hx. unfold partial_tail. rewrite split_lines_log_bytes_tail by assumption. reflexivity. Qed.

(* ---------- two writes: a frame of at least `cap` bytes is in the file without its terminator ---------- *)
Lemma two_writes_expose_body cap enc f F :
  cap <= blen (enc f) -> In (F ++ enc f) (bw_trace cap (bw_at F) (append_two_writes enc f)).
Proof.
  intros Hle. unfold bw_trace, append_two_writes, bw_at.
  cbn [bw_run bw_op bw_buf bw_file]. rewrite blen_nil, N.add_0_l.
  assert (E2 : (cap <=? blen (enc f)) = true) by (apply N.leb_le; exact Hle). rewrite E2.
  destruct (cap <? blen (enc f)) eqn:E1; unfold flush_buf; cbn [bw_buf bw_file fst snd app]; rewrite ?app_nil_r;
    destruct (cap <? blen [] + blen [10]); destruct (cap <=? blen [10]);
    cbn [fst snd app bw_file bw_buf In]; auto 10.
Qed.

Lemma two_writes_partial_line cap enc l f :
  (forall g, ~ In 10 (enc g)) -> cap <= blen (enc f) -> enc f <> [] ->
  exists b, In b (bw_trace cap (bw_at (log_bytes enc l)) (append_two_writes enc f))
            /\ partial_tail b = enc f /\ partial_tail b <> [].
Proof.
  intros Hn Hle Hne. exists (log_bytes enc l ++ enc f). split; [apply two_writes_expose_body; exact Hle|].
  rewrite partial_tail_of by (try exact Hn; apply Hn). split; [reflexivity|exact Hne].
Qed.

(* ---------- a serializer streaming into the BufWriter ---------- *)
Lemma bw_op_write_inv cap s d :
  let r := bw_op cap s (WWrite d) in
  bw_file (snd r) ++ bw_buf (snd r) = bw_file s ++ bw_buf s ++ d
  /\ (blen (bw_buf s) <= cap -> blen (bw_buf (snd r)) <= cap)
  /\ (bw_file (snd r) = bw_file s \/ In (bw_file (snd r)) (fst r))
  /\ exists y, bw_file (snd r) = bw_file s ++ y.
Proof.
  cbn [bw_op]. destruct (cap <? blen (bw_buf s) + blen d) eqn:E1; destruct (cap <=? blen d) eqn:E2;
    unfold flush_buf; cbn [bw_buf bw_file fst snd].
  - split; [|split; [|split]].
    + rewrite app_nil_r, <- !app_assoc. reflexivity.
    + intros _. rewrite blen_nil. lia.
    + right. apply in_or_app. right. left. reflexivity.
    + exists (bw_buf s ++ d). rewrite <- app_assoc. reflexivity.
  - apply N.leb_gt in E2. split; [|split; [|split]].
    + rewrite <- app_assoc. reflexivity.
    + intros _. rewrite blen_app, blen_nil. lia.
    + right. left. reflexivity.
    + exists (bw_buf s). reflexivity.
  - apply N.ltb_ge in E1. apply N.leb_le in E2.
    assert (Hb : bw_buf s = []) by (apply blen_zero; lia). rewrite Hb. split; [|split; [|split]].
    + rewrite app_nil_r. reflexivity.
    + intros _. rewrite blen_nil. lia.
    + right. left. reflexivity.
    + exists d. reflexivity.
  - apply N.ltb_ge in E1. split; [|split; [|split]].
    + reflexivity.
    + intros _. rewrite blen_app. exact E1.
    + left. reflexivity.
    + exists []. rewrite app_nil_r. reflexivity.
Qed.

Lemma bw_run_writes_inv cap ps : forall s,
  let r := bw_run cap s (map WWrite ps) in
  bw_file (snd r) ++ bw_buf (snd r) = bw_file s ++ bw_buf s ++ concat ps
  /\ (blen (bw_buf s) <= cap -> blen (bw_buf (snd r)) <= cap)
  /\ (bw_file (snd r) = bw_file s \/ In (bw_file (snd r)) (fst r))
  /\ exists y, bw_file (snd r) = bw_file s ++ y.
Proof.
  induction ps as [|d ps IH]; intros s.
  - cbn [map bw_run concat fst snd]. rewrite app_nil_r. split; [reflexivity|split; [auto|split; [left; reflexivity|]]].
    exists []. rewrite app_nil_r. reflexivity.
  - cbn [map bw_run concat].
    pose proof (bw_op_write_inv cap s d) as H1. cbn zeta in H1.
    destruct (bw_op cap s (WWrite d)) as [w1 s1]. cbn [fst snd] in H1.
    destruct H1 as (Ha & Hb & Hc & [y1 Hy1]).
    pose proof (IH s1) as H2. cbn zeta in H2.
    destruct (bw_run cap s1 (map WWrite ps)) as [w2 s2]. cbn [fst snd] in H2 |- *.
    destruct H2 as (Ha2 & Hb2 & Hc2 & [y2 Hy2]). split; [|split; [|split]].
    + rewrite Ha2. rewrite app_assoc, Ha. rewrite <- !app_assoc. reflexivity.
    + intros Hle. apply Hb2, Hb, Hle.
    + destruct Hc2 as [Hc2|Hc2].
      * rewrite Hc2. destruct Hc as [Hc|Hc]; [left; exact Hc|right; apply in_or_app; left; exact Hc].
      * right. apply in_or_app. right. exact Hc2.
    + exists (y1 ++ y2). rewrite Hy2, Hy1, <- app_assoc. reflexivity.
Qed.

Lemma streamed_partial cap pieces F :
  ~ In 10 (concat pieces) -> cap < blen (concat pieces) ->
  exists b x, In b (bw_trace cap (bw_at F) (append_streamed pieces))
              /\ b = F ++ x /\ x <> [] /\ ~ In 10 x.
Proof.
  intros Hn Hlt. unfold append_streamed. rewrite bw_trace_app. unfold bw_trace at 1, bw_final.
  pose proof (bw_run_writes_inv cap pieces (bw_at F)) as H. cbn zeta in H.
  destruct (bw_run cap (bw_at F) (map WWrite pieces)) as [w s']. cbn [fst snd] in H |- *.
  cbn [bw_at bw_file bw_buf app] in H. destruct H as (Ha & Hb & Hc & [y Hy]).
  specialize (Hb ltac:(rewrite blen_nil; lia)).
  rewrite Hy, <- app_assoc in Ha. apply app_inv_head in Ha.
  assert (Hlen : blen y + blen (bw_buf s') = blen (concat pieces)) by (rewrite <- blen_app, Ha; reflexivity).
  assert (Hy0 : y <> []). { intros E. subst y. rewrite blen_nil in Hlen. lia. }
  exists (bw_file s'), y. split; [|split; [|split]].
  - apply in_or_app. left. destruct Hc as [Hc|Hc]; [|exact Hc].
    exfalso. rewrite Hy in Hc. rewrite <- (app_nil_r F) in Hc at 2. apply app_inv_head in Hc. contradiction.
  - exact Hy.
  - exact Hy0.
  - intros Hin. apply Hn. rewrite <- Ha. apply in_or_app. left. exact Hin.
Qed.

Lemma streamed_partial_line cap enc l pieces :
  (forall g, ~ In 10 (enc g)) -> ~ In 10 (concat pieces) -> cap < blen (concat pieces) ->
  exists b, In b (bw_trace cap (bw_at (log_bytes enc l)) (append_streamed pieces)) /\ partial_tail b <> [].
Proof.
  intros Hn Hp Hlt. destruct (streamed_partial cap pieces (log_bytes enc l) Hp Hlt) as (b & x & Hin & Hb & Hx & Hnx).
  exists b. split; [exact Hin|]. rewrite Hb, partial_tail_of by assumption. exact Hx.
Qed.

(* ---------- witnesses at the real capacity ---------- *)
Definition w_frame : frame := {| fid := 0; sid := 0; seq := 0; ety := ESessionStarted; args := [] |}.
Definition w_enc (f : frame) : bytes := repeat 65 (N.to_nat bufwriter_capacity).     (* 8192 x 'A' *)
Definition w_pieces : list bytes := repeat (repeat 65 100%nat) 82%nat.               (* 82 pieces of 100 bytes *)

Lemma w_enc_nolf : forall g, ~ In 10 (w_enc g).
Proof. intros g Hin. unfold w_enc in Hin. apply repeat_spec in Hin. discriminate. Qed.

Lemma w_two_writes_refuted :
  exists b, In b (bw_trace bufwriter_capacity (bw_at (log_bytes w_enc [w_frame])) (append_two_writes w_enc w_frame))
            /\ partial_tail b <> [].
Proof.
  destruct (two_writes_partial_line bufwriter_capacity w_enc [w_frame] w_frame w_enc_nolf) as (b & Hin & _ & Hne).
  - vm_compute. discriminate.
  - vm_compute. discriminate.
  - exists b. split; assumption.
Qed.

Lemma w_streamed_refuted :
  exists b, In b (bw_trace bufwriter_capacity (bw_at (log_bytes w_enc [w_frame])) (append_streamed w_pieces))
            /\ partial_tail b <> [].
Proof.
  apply streamed_partial_line.
  - exact w_enc_nolf.
  - intros Hin. apply in_concat in Hin. destruct Hin as (p & Hp & Hin).
    unfold w_pieces in Hp. apply repeat_spec in Hp. subst p. apply repeat_spec in Hin. discriminate.
  - vm_compute. reflexivity.
Qed.

(* non-vacuity: three frames through the single-write append at capacity 4 (smaller than a line):
   the file goes through old, old+f1, old+f1+f2, .. only *)
Definition d_enc (f : frame) : bytes := [123; 48 + seq f; 125; 65; 65; 65].     (* "{n}AAA" *)
Definition d_frames : list frame :=
  [w_frame; {| fid := 1; sid := 0; seq := 1; ety := ESessionStarted; args := [] |};
   {| fid := 2; sid := 0; seq := 2; ety := ESessionStarted; args := [] |}].
Lemma d_trace :
  bw_trace 4 (bw_at (log_bytes d_enc [w_frame])) (appends_single d_enc (tl d_frames)) =
  [log_bytes d_enc [w_frame]; log_bytes d_enc (firstn 2 d_frames); log_bytes d_enc (firstn 2 d_frames);
   log_bytes d_enc (firstn 2 d_frames); log_bytes d_enc d_frames; log_bytes d_enc d_frames]
  /\ bw_trace 4 (bw_at (log_bytes d_enc [w_frame])) (append_two_writes d_enc (nth 1 d_frames w_frame)) =
     [log_bytes d_enc [w_frame]; log_bytes d_enc [w_frame] ++ d_enc (nth 1 d_frames w_frame);
      log_bytes d_enc (firstn 2 d_frames)].
Proof. vm_compute. split; reflexivity. Qed.
