(* C12 — what a successful apply does, stated on the files only (path -> option bytes), with no
   reference to the file-system model's operations: the meaning of add / delete / update / move. *)
From RipV Require Import Base.Prelude Base.Fs Model.Patch Proofs.FsProofs Proofs.PatchProofs Proofs.PatchAtomic.
Open Scope N_scope.
Open Scope list_scope.

Definition fmap := path -> option bytes.
Definition upd (m : fmap) (k : path) (v : option bytes) : fmap := fun q => if path_eqb k q then v else m q.

(* the effect of one operation on the files; paths are compared as component lists (comps) *)
Definition op_effect (m m' : fmap) (o : op) : Prop :=
  match o with
  | Add p c => m (comps p) = None /\ forall q, m' q = upd m (comps p) (Some c) q
  | Del p => (exists b, m (comps p) = Some b) /\ forall q, m' q = upd m (comps p) None q
  | Upd p None hs =>
    exists b b', m (comps p) = Some b /\ utf8_ok b = true /\ apply_hunks_to_text b hs = Some b' /\
                 forall q, m' q = upd m (comps p) (Some b') q
  | Upd p (Some t) hs =>
    exists b b', m (comps p) = Some b /\ utf8_ok b = true /\ apply_hunks_to_text b hs = Some b' /\
                 comps t <> comps p /\ m (comps t) = None /\
                 forall q, m' q = upd (upd m (comps p) None) (comps t) (Some b') q
  end.

Fixpoint effects (m : fmap) (ops : list op) (m' : fmap) : Prop :=
  match ops with
  | [] => forall q, m' q = m q
  | o :: r => exists m1, op_effect m m1 o /\ effects m1 r m'
  end.

Lemma spec_op_effect f o f' : fs_wf f -> spec_op [] f o = Ok f' -> op_effect (file_at f) (file_at f') o.
Proof.
  intros W. destruct o as [p c|p|p mv hs]; cbn [spec_op op_effect]; unfold tg.
  - destruct (os_exists f (mk_tgt [] p)) eqn:X; [discriminate|].
    destruct (mk_parent_dirs f (mk_tgt [] p)) as [f2 [e|]] eqn:MK; [discriminate|].
    apply mk_parent_dirs_spec in MK; [|exact W]. destruct MK as [W2 E2]. intros WR.
    apply os_write_ok in WR. destruct WR as [[NU [TR [NM KN]]] [PD [L ->]]]. split.
    + apply os_exists_false_nofile; assumption.
    + intros q. unfold upd. rewrite file_at_set by exact KN. destruct (path_eqb (comps p) q); [reflexivity|apply (ext_files _ _ E2)].
  - destruct (os_exists f (mk_tgt [] p)); cbn [negb]; [|discriminate]. intros RM.
    apply os_remove_ok in RM. destruct RM as [[_ [_ [_ KN]]] [_ [[b L] ->]]]. split.
    + exists b. unfold file_at. rewrite L. reflexivity.
    + intros q. unfold upd. apply file_at_unset. exact KN.
  - destruct (os_exists f (mk_tgt [] p)); cbn [negb]; [|discriminate].
    destruct (os_read f (mk_tgt [] p)) as [b|e] eqn:RD; [|discriminate].
    destruct (utf8_ok b) eqn:U; cbn [negb]; [|discriminate].
    destruct (apply_hunks_to_text b hs) as [b'|] eqn:AH; [|discriminate].
    destruct (os_write f (mk_tgt [] p) b') as [f2|e] eqn:WR; [|discriminate].
    apply os_read_ok in RD. destruct RD as [CLN [PD L0]]. pose proof CLN as [_ [_ [_ KN]]].
    apply os_write_ok in WR. destruct WR as [_ [_ [_ ->]]].
    assert (M0 : file_at f (comps p) = Some b) by (unfold file_at; rewrite L0; reflexivity).
    destruct mv as [t|].
    + destruct (os_exists (set f (comps p) (File b')) (mk_tgt [] t)) eqn:XT; [discriminate|].
      set (f2 := set f (comps p) (File b')) in *.
      assert (W2 : fs_wf f2) by (apply wf_set_file; [exact W|exact KN|exact PD|congruence]).
      destruct (mk_parent_dirs f2 (mk_tgt [] t)) as [f4 [e|]] eqn:MK; [discriminate|].
      apply mk_parent_dirs_spec in MK; [|exact W2]. destruct MK as [W4 E4]. intros RN.
      apply os_rename_ok in RN. destruct RN as [_ [_ [[NUT [TRT [NMT KT]]] [_ [_ [b2 [LS ->]]]]]]].
      assert (LS2 : lookup f2 (comps p) = Some (File b')) by (apply lookup_set_same; exact KN).
      assert (B2 : b2 = b').
      { destruct E4 as [E41 _]. rewrite (E41 _ _ LS2) in LS. congruence. }
      subst b2.
      assert (NF2 : file_at f2 (comps t) = None) by (apply os_exists_false_nofile; assumption).
      assert (NE : comps t <> comps p).
      { intros E. rewrite E in NF2. unfold file_at in NF2. rewrite LS2 in NF2. discriminate. }
      exists b, b'. split; [exact M0|]. split; [exact U|]. split; [exact AH|]. split; [exact NE|]. split.
      * unfold f2 in NF2. rewrite file_at_set in NF2 by exact KN.
        destruct (path_eqb (comps p) (comps t)) eqn:EQ; [discriminate|exact NF2].
      * intros q. unfold upd. rewrite file_at_set by exact KT. destruct (path_eqb (comps t) q); [reflexivity|].
        rewrite file_at_unset by exact KN. destruct (path_eqb (comps p) q) eqn:EQ; [reflexivity|].
        rewrite (ext_files _ _ E4). unfold f2. rewrite file_at_set by exact KN. rewrite EQ. reflexivity.
    + intros H; inversion H; subst f'. exists b, b'. split; [exact M0|]. split; [exact U|]. split; [exact AH|].
      intros q. unfold upd. apply file_at_set. exact KN.
Qed.

Lemma spec_op_wf f o f' : fs_wf f -> spec_op [] f o = Ok f' -> fs_wf f'.
Proof.
  intros W S. destruct (spec_exec [] {| s_fs := f; s_undo := [] |} o f' S) as [s' [E <-]].
  exact (proj1 (exec_shape _ _ _ _ _ W E)).
Qed.

Lemma spec_ops_effects : forall ops f f', fs_wf f -> spec_ops [] f ops = Ok f' -> effects (file_at f) ops (file_at f').
Proof.
  induction ops as [|o ops IH]; intros f f' W; cbn [spec_ops effects].
  - intros H; inversion H; subst. reflexivity.
  - destruct (spec_op [] f o) as [f1|e] eqn:S; [|discriminate]. intros H.
    exists (file_at f1). split; [apply spec_op_effect; assumption|].
    apply IH; [eapply spec_op_wf; eassumption|exact H].
Qed.

Theorem success_effects f ops f' changed : fs_wf f -> apply_ops true [] f ops = Applied f' changed ->
  effects (file_at f) ops (file_at f') /\ changed = sort_dedup (map normalize_rel (affected_paths ops)).
Proof.
  intros W H. apply success_spec in H. destruct H as [S C]. split; [apply spec_ops_effects; assumption|exact C].
Qed.
