(* C18 — for ALL schedules (no hypothesis on the interleaving, timer assumption or not): mutual exclusion can only be
   lost by renaming / removing the lock file of another LIVE pid.  As long as that has not happened there is at most one
   authority and the lock carries its record. *)
From RipV Require Import Base.Prelude Model.Authority Proofs.AuthorityInv.

Record local2 (s : state) (q : proc) : Prop := mkLocal2 {
  L2_own : owns q = true -> lock_pid (s_lock s) = Some (p_pid q);
  L2_guard : needs_guard (p_pc q) = true -> p_guard q = true;
  L2_gpc : p_guard q = true -> needs_guard (p_pc q) = true;
  L2_acq : acq_pc (p_pc q) = true -> p_drv q = DServer;
  L2_drv : drv_ok (p_drv q) = true
}.

Record Inv2 (s : state) : Prop := mkInv2 {
  I2_nodup : NoDup (map p_pid (s_procs s));
  I2_local : s_took_lock s = false -> forall q, In q (s_procs s) -> p_alive q = true -> local2 s q
}.

Lemma local_local2 s q : local s q -> local2 s q.
Proof. intros [A B C D E F G H I J]. constructor; assumption. Qed.

Lemma local2_files s1 s2 q : s_lock s2 = s_lock s1 -> local2 s1 q -> local2 s2 q.
Proof. intros El [A B C D E]. constructor; rewrite ?El; auto. Qed.

Lemma micro_self2 ag s o q s' q' :
  micro ag s o q = (s', q') -> local2 s q -> local2 s' q'.
Proof.
  intros H [Lown Lguard Lgpc Lacq Ldrv].
  unfold owns in *.
  apply drv_cases in Ldrv.
  unfold micro in H.
  destruct (p_pc q) eqn:Hpc; cbn in *;
  destruct Ldrv as [Hd|[Hd|Hd]]; unfold ret, goto in H; rewrite ?Hd in H; cbn in H.
  all: break; inversion H; subst; clear H; eqbs.
  all: constructor; unfold owns, set_files in *; cbn in *; rewrite ?Hpc, ?Hd; cbn; rw; cbn in *.
  all: try (fin; fail).
Qed.

Lemma took_mono ag s o q s' q' : micro ag s o q = (s', q') -> s_took_lock s' = false -> s_took_lock s = false.
Proof.
  unfold micro, ret, goto, set_files. intros H T.
  break; inversion H; subst; cbn in *; try assumption; apply orb_false_iff in T; tauto.
Qed.

Lemma micro_other2 ag s o q s' q' r :
  micro ag s o q = (s', q') -> local2 s q -> local2 s r ->
  p_pid r <> p_pid q -> pid_alive (s_procs s) (p_pid r) = true ->
  s_took_lock s' = false ->
  local2 s' r.
Proof.
  intros H [Lown Lguard Lgpc Lacq Ldrv] [Rown Rguard Rgpc Racq Rdrv] Hne Hra T.
  assert (F1 : owns r = true -> owns q = true -> False).
  { intros A B. apply Hne. specialize (Rown A). specialize (Lown B). congruence. }
  assert (F3 : needs_guard (p_pc q) = true -> owns q = true).
  { intros A. unfold owns. rewrite (Lguard A). reflexivity. }
  assert (F4 : owns r = true -> takes (s_procs s) (p_pid q) (lock_pid (s_lock s)) = true).
  { intros A. rewrite (Rown A). unfold takes. rewrite Hra, andb_true_r. apply negb_true_iff. apply N.eqb_neq. exact Hne. }
  clear Lown Lguard.
  apply drv_cases in Ldrv.
  unfold micro in H.
  destruct (p_pc q) eqn:Hpc; cbn in *;
  destruct Ldrv as [Hd|[Hd|Hd]]; unfold ret, goto in H; rewrite ?Hd in H; cbn in H.
  all: break; inversion H; subst; clear H; eqbs.
  all: try (constructor; assumption).
  all: unfold set_files in *; cbn in *; rw; cbn in *.
  all: constructor; cbn; try assumption.
  all: try rw; cbn in *; try assumption.
  all: intros A; try (specialize (Rown A); cbn in Rown; try discriminate; try assumption).
  all: try (exfalso; apply (F1 A); apply F3; reflexivity).
  all: try (exfalso; specialize (F4 A); cbn in F4; apply orb_false_iff in T; destruct T as [_ T]; congruence).
Qed.

Lemma step_inv2 ag s e : Inv2 s -> Inv2 (step ag s e).
Proof.
  intros [ND HL]. destruct e as [i o|i]; cbn [step].
  - destruct (nth_error (s_procs s) i) as [q|] eqn:Hq; [|constructor; assumption].
    destruct (p_alive q) eqn:Ha; [|constructor; assumption].
    destruct (micro ag s o q) as [s' q'] eqn:Hm.
    destruct (micro_basic _ _ _ _ _ _ Hm) as [Epid [Eal Eps]].
    assert (Hin : In q (s_procs s)) by (eapply nth_error_In; eassumption).
    constructor; cbn [with_procs s_procs s_took_lock].
    + rewrite (map_upd_same p_pid _ _ _ _ Hq Epid). assumption.
    + intros T x Hx Hax.
      assert (T0 : s_took_lock s = false) by (eapply took_mono; eassumption).
      assert (Lq : local2 s q) by auto.
      apply in_upd in Hx. destruct Hx as [[-> _]|[j [Hj Hxj]]].
      * apply (local2_files s'); [reflexivity|]. eapply micro_self2; eassumption.
      * assert (Hxin : In x (s_procs s)) by (eapply nth_error_In; eassumption).
        apply (local2_files s'); [reflexivity|].
        eapply micro_other2; try eassumption.
        -- auto.
        -- intros E. apply Hj. eapply nodup_pid_idx; eassumption.
        -- apply pid_alive_self; assumption.
  - destruct (nth_error (s_procs s) i) as [q|] eqn:Hq; [|constructor; assumption].
    constructor; cbn [with_procs s_procs s_took_lock].
    + rewrite (map_upd_same p_pid _ _ _ _ Hq); [assumption|reflexivity].
    + intros T x Hx Hax. apply in_upd in Hx. destruct Hx as [[-> _]|[j [Hj Hxj]]].
      * cbn in Hax. discriminate.
      * apply (local2_files s); [reflexivity|]. apply HL; [assumption|eapply nth_error_In; eassumption|assumption].
Qed.

Lemma run_inv2 ag es : forall s, Inv2 s -> Inv2 (run ag s es).
Proof. induction es as [|e es IH]; intros s H; [exact H|]. cbn. apply IH. apply step_inv2. exact H. Qed.

Theorem two_authorities_only_by_taking ag l m ps es :
  init_ok l m ps ->
  s_took_lock (run ag (init l m ps) es) = false ->
  (length (holders (run ag (init l m ps) es)) <= 1)%nat
  /\ (forall p, In p (holders (run ag (init l m ps) es)) -> lock_pid (s_lock (run ag (init l m ps) es)) = Some p).
Proof.
  intros Hok T.
  assert (I0 : Inv2 (init l m ps)).
  { destruct (init_inv _ _ _ Hok) as [ND HL _ _]. constructor; [assumption|]. intros _ q Hq Ha. apply local_local2. auto. }
  destruct (run_inv2 ag es _ I0) as [ND HL]. specialize (HL T).
  set (s := run ag (init l m ps) es) in *.
  assert (H : forall p, In p (holders s) -> lock_pid (s_lock s) = Some p).
  { intros p Hp. unfold holders in Hp. apply in_map_iff in Hp. destruct Hp as [q [E Hq]].
    apply filter_In in Hq. destruct Hq as [Hin Hh]. unfold is_holder in Hh. apply andb_true_iff in Hh.
    destruct Hh as [Ha Hg]. subst p. apply (L2_own _ _ (HL q Hin Ha)). unfold owns. rewrite Hg. reflexivity. }
  split; [|exact H].
  destruct (lock_pid (s_lock s)) as [c|] eqn:El.
  - apply (nodup_const_len _ c).
    + unfold holders. apply nodup_map_filter. assumption.
    + intros x Hx. specialize (H x Hx). congruence.
  - destruct (holders s) as [|x r]; cbn; [lia|]. specialize (H x (or_introl eq_refl)). discriminate.
Qed.

(* ------------------------------------------------------------------ a live authority's lock is never taken *)
(* While the authority that holds the lock lives (it neither crashes nor shuts down), NO schedule of ANY contenders,
   crashing wherever they like, timer assumption or not, changes lock.json or meta.json, and nobody else ever holds. *)
Definition by_pc (k : pc) : bool :=
  match k with
  | AcqCreate | RdMeta | RdLock | LockExists | Live _ | Ping _ | LiveM _ | LockExistsM _ | StExists _ | StReread _ | Done => true
  | _ => false
  end.
Record blocal (b : pid) (q : proc) : Prop := mkB {
  B_guard : p_guard q = false;
  B_pc : by_pc (p_pc q) = true;
  B_dead : forall d, stale_arg (p_pc q) = Some d -> d <> b;
  B_drv : drv_ok (p_drv q) = true
}.

Lemma micro_by ag s o q s' q' b :
  s_lock s = LRec b -> pid_alive (s_procs s) b = true -> blocal b q -> micro ag s o q = (s', q') ->
  s_lock s' = s_lock s /\ s_meta s' = s_meta s /\ s_tmp s' = s_tmp s
  /\ s_took_lock s' = s_took_lock s /\ s_took_meta s' = s_took_meta s /\ blocal b q'.
Proof.
  intros Hl Hb [Bg Bp Bd Bv] H. apply drv_cases in Bv.
  unfold micro in H. rewrite Hl in H.
  destruct (p_pc q) eqn:Hpc; cbn in Bp; try discriminate;
  destruct Bv as [Hd|[Hd|Hd]]; unfold ret, goto in H; rewrite ?Hd in H; cbn in H.
  all: break; inversion H; subst; clear H; eqbs; cbn in *.
  all: try (exfalso; apply (Bd _ eq_refl); reflexivity).
  all: repeat split; cbn; rewrite ?Hd, ?Hpc; auto.
  all: try (intros d0 E; inversion E; subst; auto; fail).
  all: try (intros d0 E; inversion E; subst; intros ->; congruence).
  all: try (intros d0 E; discriminate).
Qed.

Definition ev_idx (e : event) : nat := match e with Step i _ => i | Crash i => i end.

Record By (b : pid) (s : state) : Prop := mkBy {
  By_lock : s_lock s = LRec b;
  By_procs : exists cs, s_procs s = serving b :: cs /\ forall q, In q cs -> blocal b q
}.

Lemma step_by ag b s e : ev_idx e <> 0%nat -> By b s ->
  By b (step ag s e) /\ s_meta (step ag s e) = s_meta s /\ s_tmp (step ag s e) = s_tmp s
  /\ s_took_lock (step ag s e) = s_took_lock s /\ s_took_meta (step ag s e) = s_took_meta s.
Proof.
  intros Hi [Hl [cs [Hps Hall]]].
  assert (Hb : pid_alive (s_procs s) b = true).
  { rewrite Hps. apply pid_alive_true. exists (serving b). split; [left; reflexivity|split; reflexivity]. }
  destruct e as [[|i] o|[|i]]; cbn in Hi; try congruence; cbn [step]; rewrite Hps; cbn [nth_error].
  - destruct (nth_error cs i) as [q|] eqn:Hq.
    2:{ split; [constructor; [assumption|exists cs; split; assumption]|auto]. }
    destruct (p_alive q).
    2:{ split; [constructor; [assumption|exists cs; split; assumption]|auto]. }
    rewrite <- Hps.
    destruct (micro ag s o q) as [s' q'] eqn:HM.
    destruct (micro_by _ _ _ _ _ _ _ Hl Hb (Hall q (nth_error_In _ _ Hq)) HM) as [A [B [C [D [E F]]]]].
    cbn. split; [|auto].
    constructor; cbn; [congruence|]. rewrite Hps. cbn [upd]. exists (upd cs i q'). split; [reflexivity|].
    intros x Hx. apply in_upd in Hx. destruct Hx as [[-> _]|[j [_ Hj]]]; [assumption|].
    apply Hall. eapply nth_error_In; eassumption.
  - destruct (nth_error cs i) as [q|] eqn:Hq.
    2:{ split; [constructor; [assumption|exists cs; split; assumption]|auto]. }
    cbn. split; [|auto].
    constructor; cbn; [assumption|]. exists (upd cs i (kill q)). split; [reflexivity|].
    intros x Hx. apply in_upd in Hx. destruct Hx as [[-> _]|[j [_ Hj]]].
    + destruct (Hall q (nth_error_In _ _ Hq)) as [A B C D]. constructor; assumption.
    + apply Hall. eapply nth_error_In; eassumption.
Qed.

Lemma run_by ag b es : forall s, (forall e, In e es -> ev_idx e <> 0%nat) -> By b s ->
  By b (run ag s es) /\ s_meta (run ag s es) = s_meta s
  /\ s_took_lock (run ag s es) = s_took_lock s /\ s_took_meta (run ag s es) = s_took_meta s.
Proof.
  induction es as [|e es IH]; intros s Hes HB; [cbn; auto|].
  destruct (step_by ag b s e (Hes e (or_introl eq_refl)) HB) as [A [B [_ [D E]]]].
  destruct (IH (step ag s e) (fun x Hx => Hes x (or_intror Hx)) A) as [A' [B' [D' E']]].
  cbn [run fold_left]. unfold run in *. split; [exact A'|]. split; [congruence|]. split; congruence.
Qed.

Theorem live_authority_never_disturbed ag b m cs es :
  (forall q, In q cs -> contender q) ->
  (forall e, In e es -> ev_idx e <> 0%nat) ->
  s_lock (run ag (init (LRec b) m (serving b :: cs)) es) = LRec b
  /\ s_meta (run ag (init (LRec b) m (serving b :: cs)) es) = m
  /\ holders (run ag (init (LRec b) m (serving b :: cs)) es) = [b]
  /\ s_took_lock (run ag (init (LRec b) m (serving b :: cs)) es) = false
  /\ s_took_meta (run ag (init (LRec b) m (serving b :: cs)) es) = false.
Proof.
  intros Hc Hes.
  assert (B0 : By b (init (LRec b) m (serving b :: cs))).
  { constructor; [reflexivity|]. exists cs. split; [reflexivity|].
    intros q Hq. destruct (Hc q Hq) as [E|E]; rewrite E; constructor; cbn; try reflexivity; intros d X; discriminate. }
  destruct (run_by ag b es _ Hes B0) as [[Hl [cs' [Hps Hall]]] [Hm [Htl Htm]]].
  repeat split; try assumption.
  unfold holders. rewrite Hps. cbn. 
  assert (F : filter is_holder cs' = []).
  { clear - Hall. induction cs' as [|x r IH]; [reflexivity|]. cbn.
    unfold is_holder at 1. rewrite (B_guard _ _ (Hall x (or_introl eq_refl))), andb_false_r.
    apply IH. intros; apply Hall; right; assumption. }
  rewrite F. reflexivity.
Qed.
