(* C12 — text-level theorems: line-ending style and trailing newline under apply_hunks_to_text. *)
From RipV Require Import Base.Prelude Base.Fs Model.Patch Proofs.FsProofs.
Open Scope N_scope.
Open Scope list_scope.

Definition LF : list N := [10].
Definition CRLF : list N := [13; 10].
Definition clean_line (l : line) : Prop := ~ In 10 l /\ ~ In 13 l.

(* ---------- split_on ---------- *)
Lemma split_aux_line c : forall l cur rest, ~ In c l ->
  split_aux c cur (l ++ c :: rest) = (rev cur ++ l) :: split_aux c [] rest.
Proof.
  induction l as [|x l IH]; intros cur rest NI; cbn [app split_aux].
  - rewrite N.eqb_refl, app_nil_r. reflexivity.
  - destruct (x =? c) eqn:E; [exfalso; apply NI; left; lia|].
    rewrite IH by (intros I; apply NI; right; exact I). cbn [rev]. rewrite <- app_assoc. reflexivity.
Qed.

Lemma split_aux_end c : forall l cur, ~ In c l -> split_aux c cur l = [rev cur ++ l].
Proof.
  induction l as [|x l IH]; intros cur NI; cbn [split_aux].
  - rewrite app_nil_r. reflexivity.
  - destruct (x =? c) eqn:E; [exfalso; apply NI; left; lia|].
    rewrite IH by (intros I; apply NI; right; exact I). cbn [rev]. rewrite <- app_assoc. reflexivity.
Qed.

Lemma split_sep (sfx : list N) (tr : bool) : ~ In 10 sfx -> forall ls, ls <> [] ->
  (forall l, In l ls -> ~ In 10 l) ->
  split_on 10 (intercalate (sfx ++ [10]) ls ++ (if tr then sfx ++ [10] else [])) =
  (map (fun l => l ++ sfx) (removelast ls) ++ [last ls [] ++ (if tr then sfx else [])]) ++ (if tr then [[]] else []).
Proof.
  intros NS. induction ls as [|l ls IH]; intros NE CL; [congruence|].
  destruct ls as [|l2 r].
  - cbn [intercalate removelast map last app]. unfold split_on. destruct tr.
    + rewrite app_assoc. rewrite split_aux_line.
      * cbn [rev app split_aux]. reflexivity.
      * intros I. apply in_app_or in I. destruct I as [I|I]; [apply (CL l); [left; reflexivity|exact I]|contradiction].
    + rewrite !app_nil_r. rewrite split_aux_end; [reflexivity|apply CL; left; reflexivity].
  - change (intercalate (sfx ++ [10]) (l :: l2 :: r)) with (l ++ (sfx ++ [10]) ++ intercalate (sfx ++ [10]) (l2 :: r)).
    change (removelast (l :: l2 :: r)) with (l :: removelast (l2 :: r)).
    change (last (l :: l2 :: r) []) with (last (l2 :: r) []).
    unfold split_on.
    replace ((l ++ (sfx ++ [10]) ++ intercalate (sfx ++ [10]) (l2 :: r)) ++ (if tr then sfx ++ [10] else []))
      with ((l ++ sfx) ++ 10 :: (intercalate (sfx ++ [10]) (l2 :: r) ++ (if tr then sfx ++ [10] else [])))
      by (rewrite <- !app_assoc; reflexivity).
    rewrite split_aux_line.
    + cbn [rev app map]. f_equal. apply IH; [discriminate|]. intros x I. apply CL. right. exact I.
    + intros I. apply in_app_or in I. destruct I as [I|I]; [apply (CL l); [left; reflexivity|exact I]|contradiction].
Qed.

Lemma strip_cr_snoc l : strip_cr (l ++ [13]) = l.
Proof. unfold strip_cr. rewrite rev_app_distr. cbn [rev app]. apply rev_involutive. Qed.

Lemma strip_cr_clean l : ~ In 13 l -> strip_cr l = l.
Proof.
  intros NI. unfold strip_cr. destruct (rev l) as [|x r] eqn:E; [reflexivity|].
  destruct x as [|p]; [reflexivity|].
  assert (In (N.pos p) l) by (apply in_rev; rewrite E; left; reflexivity).
  repeat (destruct p as [p|p|]; try reflexivity).
  contradiction.
Qed.

Lemma last_in {A} (l : list A) d : l <> [] -> In (last l d) l.
Proof.
  induction l as [|x l IH]; [congruence|]. intros _. destruct l as [|y r]; [left; reflexivity|].
  right. apply IH. discriminate.
Qed.
Lemma removelast_in {A} (l : list A) x : In x (removelast l) -> In x l.
Proof.
  induction l as [|y l IH]; [intros []|]. destruct l as [|z r]; [intros []|].
  cbn [removelast]. intros [->|I]; [left; reflexivity|right; apply IH; exact I].
Qed.

Lemma map_id_on {A} (g : A -> A) (l : list A) : (forall x, In x l -> g x = x) -> map g l = l.
Proof.
  induction l as [|x l IH]; intros H; [reflexivity|]. cbn [map]. rewrite H by (left; reflexivity).
  f_equal. apply IH. intros y I. apply H. right. exact I.
Qed.

(* ---------- detecting the style ---------- *)
Lemma contains_crlf_none s : ~ In 13 s -> contains_crlf s = false.
Proof.
  induction s as [|x s IH]; intros NI; [reflexivity|].
  assert (x <> 13) by (intros ->; apply NI; left; reflexivity).
  assert (IH' : contains_crlf s = false) by (apply IH; intros I; apply NI; right; exact I).
  cbn [contains_crlf]. destruct x as [|p]; [exact IH'|].
  repeat (destruct p as [p|p|]; try exact IH'). congruence.
Qed.

Lemma contains_crlf_step x s : contains_crlf s = true -> contains_crlf (x :: s) = true.
Proof.
  intros H. cbn [contains_crlf]. destruct x as [|p]; [exact H|].
  repeat (destruct p as [p|p|]; try exact H).
  destruct s as [|y s']; [exact H|]. destruct y as [|q]; [exact H|].
  repeat (destruct q as [q|q|]; try exact H). reflexivity.
Qed.

Lemma contains_crlf_mid a b : contains_crlf (a ++ 13 :: 10 :: b) = true.
Proof. induction a as [|x a IH]; [reflexivity|]. cbn [app]. apply contains_crlf_step. exact IH. Qed.

Lemma intercalate_last sep (ls : list line) : ls <> [] -> exists pre, intercalate sep ls = pre ++ last ls [].
Proof.
  induction ls as [|l ls IH]; [congruence|]. intros _. destruct ls as [|l2 r].
  - exists []. reflexivity.
  - destruct IH as [pre E]; [discriminate|].
    change (intercalate sep (l :: l2 :: r)) with (l ++ sep ++ intercalate sep (l2 :: r)).
    change (last (l :: l2 :: r) []) with (last (l2 :: r) []).
    exists (l ++ sep ++ pre). rewrite E, <- !app_assoc. reflexivity.
Qed.

Lemma ends_nl_snoc s : ends_nl (s ++ [10]) = true.
Proof. unfold ends_nl. rewrite rev_app_distr. reflexivity. Qed.
Lemma ends_nl_app_no s t : t <> [] -> ~ In 10 t -> ends_nl (s ++ t) = false.
Proof.
  intros NE NI. unfold ends_nl. rewrite rev_app_distr. destruct (rev t) as [|x r] eqn:E.
  - exfalso. apply NE. rewrite <- (rev_involutive t), E. reflexivity.
  - cbn [app]. assert (In x t) by (apply in_rev; rewrite E; left; reflexivity).
    destruct x as [|p]; [reflexivity|]. repeat (destruct p as [p|p|]; try reflexivity). contradiction.
Qed.

(* ---------- canonical texts: rendering a line list and splitting it again ---------- *)
Definition canon (ls : list line) (tr : bool) : Prop :=
  ls <> [] /\ (forall l, In l ls -> clean_line l) /\ (tr = true \/ last ls [] <> [] \/ ls = [[]]).

Definition style_ok (le : list N) (ls : list line) (tr : bool) : Prop :=
  le = LF \/ (le = CRLF /\ (tr = true \/ (2 <= length ls)%nat)).

Lemma removelast_snoc {A} (l : list A) x : removelast (l ++ [x]) = l.
Proof. apply removelast_last. Qed.

Lemma join_lines_ne ls tr le : ls <> [] -> join_lines ls tr le = intercalate le ls ++ (if tr then le else []).
Proof. destruct ls; [congruence|reflexivity]. Qed.

Lemma split_lines_join ls tr le : canon ls tr -> le = LF \/ le = CRLF ->
  split_lines (join_lines ls tr le) = (ls, tr).
Proof.
  intros [NE [CL LAST]] LE.
  assert (exists sfx, le = sfx ++ [10] /\ ~ In 10 sfx /\ (sfx = [] \/ sfx = [13])) as [sfx [-> [NS SF]]].
  { destruct LE as [-> | ->]; [exists []|exists [13]]; (split; [reflexivity|]); (split; [|auto]).
    - intros [].
    - intros [H|[]]; discriminate. }
  assert (CL10 : forall l, In l ls -> ~ In 10 l) by (intros l I; apply (CL l I)).
  assert (STRIP : forall l, In l ls -> strip_cr (l ++ sfx) = l /\ strip_cr l = l).
  { intros l I. destruct (CL l I) as [_ N13]. split; [|apply strip_cr_clean; exact N13].
    destruct SF as [-> | ->]; [rewrite app_nil_r; apply strip_cr_clean; exact N13|apply strip_cr_snoc]. }
  rewrite (join_lines_ne ls tr (sfx ++ [10]) NE).
  pose proof (split_sep sfx tr NS ls NE CL10) as SP.
  assert (MAPR : map strip_cr (map (fun l => l ++ sfx) (removelast ls)) = removelast ls).
  { rewrite map_map. apply map_id_on. intros x I. apply STRIP. apply removelast_in. exact I. }
  destruct (exists_last NE) as [init [lst EL]].
  assert (RL : removelast ls = init) by (rewrite EL; apply removelast_snoc).
  assert (LL : last ls [] = lst) by (rewrite EL; apply last_last).
  assert (IL : In lst ls) by (rewrite EL; apply in_or_app; right; left; reflexivity).
  set (TEXT := intercalate (sfx ++ [10]) ls ++ (if tr then sfx ++ [10] else [])) in *.
  assert (PIECES : map strip_cr (split_on 10 TEXT) = ls ++ (if tr then [[]] else [])).
  { unfold line in *. rewrite SP, !map_app, MAPR. cbn [map]. rewrite LL, RL.
    destruct tr.
    - rewrite (proj1 (STRIP lst IL)). rewrite <- EL. reflexivity.
    - cbn [map]. rewrite !app_nil_r. rewrite (proj2 (STRIP lst IL)). symmetry. exact EL. }
  assert (EN : ends_nl TEXT = tr).
  { subst TEXT. destruct tr.
    - rewrite !app_assoc. apply ends_nl_snoc.
    - rewrite app_nil_r. destruct LAST as [H|[H|H]]; [discriminate| |].
      + destruct (intercalate_last (sfx ++ [10]) ls NE) as [pre ->]. apply ends_nl_app_no; [exact H|].
        apply CL10. apply last_in. exact NE.
      + rewrite H. reflexivity. }
  unfold split_lines. rewrite PIECES, EN. destruct tr; [rewrite removelast_snoc|rewrite app_nil_r]; reflexivity.
Qed.

Lemma line_ending_join ls tr le : canon ls tr -> style_ok le ls tr -> line_ending (join_lines ls tr le) = le.
Proof.
  intros [NE [CL LAST]] [-> | [-> MANY]]; unfold line_ending.
  - rewrite contains_crlf_none; [reflexivity|].
    unfold join_lines. destruct ls as [|l0 ls0] eqn:LS; [congruence|]. rewrite <- LS in *.
    intros I. apply in_app_or in I. destruct I as [I|I].
    + assert (G : forall ls', (forall l, In l ls' -> ~ In 13 l) -> ~ In 13 (intercalate LF ls')).
      { induction ls' as [|a ls' IH]; intros H; [intros []|]. destruct ls' as [|b r]; [apply H; left; reflexivity|].
        change (intercalate LF (a :: b :: r)) with (a ++ LF ++ intercalate LF (b :: r)).
        intros J. apply in_app_or in J. destruct J as [J|J]; [apply (H a); [left; reflexivity|exact J]|].
        apply in_app_or in J. destruct J as [[J|[]]|J]; [discriminate|].
        revert J. apply IH. intros l K. apply H. right. exact K. }
      revert I. apply G. intros l K. apply (CL l K).
    + destruct tr; [destruct I as [I|[]]; discriminate|destruct I].
  - assert (contains_crlf (join_lines ls tr CRLF) = true) as ->; [|reflexivity].
    unfold join_lines. destruct ls as [|l0 ls0] eqn:LS; [congruence|]. rewrite <- LS in *.
    destruct tr.
    + apply contains_crlf_mid with (b := []).
    + destruct MANY as [H|H]; [discriminate|]. rewrite app_nil_r. rewrite LS in *.
      destruct ls0 as [|l1 r]; [cbn in H; lia|].
      change (intercalate CRLF (l0 :: l1 :: r)) with (l0 ++ 13 :: 10 :: intercalate CRLF (l1 :: r)).
      apply contains_crlf_mid.
Qed.

(* on a canonical text the update is exactly: edit the line list, render it again in the same
   style with the same trailing-newline flag *)
Theorem hunks_on_canonical ls tr le hs : canon ls tr -> style_ok le ls tr ->
  apply_hunks_to_text (join_lines ls tr le) hs =
  match apply_hunks_lines ls 0 hs with Some ls' => Some (join_lines ls' tr le) | None => None end.
Proof.
  intros CN ST. unfold apply_hunks_to_text.
  rewrite (line_ending_join _ _ _ CN ST).
  rewrite (split_lines_join ls tr le CN); [reflexivity|].
  destruct ST as [-> | [-> _]]; [left|right]; reflexivity.
Qed.

(* ---------- what the resulting lines are made of ---------- *)
Lemma Forall_firstn' {A} (P : A -> Prop) n : forall l, Forall P l -> Forall P (firstn n l).
Proof. induction n as [|n IH]; intros [|x l] H; cbn [firstn]; try constructor; inversion H; subst; auto. Qed.
Lemma Forall_skipn' {A} (P : A -> Prop) n : forall l, Forall P l -> Forall P (skipn n l).
Proof. induction n as [|n IH]; intros [|x l] H; cbn [skipn]; auto. inversion H; subst; auto. Qed.

Lemma apply_hunks_lines_forall (P : line -> Prop) : forall hs ls cur ls',
  Forall P ls -> (forall h, In h hs -> Forall P (h_after h)) ->
  apply_hunks_lines ls cur hs = Some ls' -> Forall P ls'.
Proof.
  induction hs as [|h hs IH]; intros ls cur ls' FL FH; cbn [apply_hunks_lines].
  - intros E; inversion E; subst; exact FL.
  - assert (FA : Forall P (h_after h)) by (apply FH; left; reflexivity).
    assert (FH' : forall h', In h' hs -> Forall P (h_after h')) by (intros h' I; apply FH; right; exact I).
    destruct (h_before h) as [|b0 bs].
    + apply IH; [apply Forall_app; split; assumption|exact FH'].
    + destruct (find_from ls (b0 :: bs) cur) as [pos|]; [|discriminate].
      apply IH; [|exact FH']. apply Forall_app. split; [apply Forall_firstn'; exact FL|].
      apply Forall_app. split; [exact FA|apply Forall_skipn'; exact FL].
Qed.

(* the trailing newline of the original is kept whenever anything is left *)
Theorem trailing_newline_kept text hs out :
  apply_hunks_to_text text hs = Some out -> ends_nl text = true -> out <> [] -> ends_nl out = true.
Proof.
  unfold apply_hunks_to_text, split_lines. intros H EN NE. rewrite EN in H.
  destruct (apply_hunks_lines _ 0 hs) as [ls'|]; [|discriminate]. inversion H; subst out.
  unfold join_lines in *. destruct ls' as [|a r]; [congruence|].
  unfold line_ending. destruct (contains_crlf text).
  - change [13; 10] with ([13] ++ [10]). rewrite !app_assoc. apply ends_nl_snoc.
  - apply ends_nl_snoc.
Qed.

(* a file without any CR stays without CR when the patch adds none *)
Lemma intercalate_in sep (ls : list line) x : In x (intercalate sep ls) -> In x sep \/ exists l, In l ls /\ In x l.
Proof.
  induction ls as [|a ls IH]; [intros []|]. destruct ls as [|b r].
  - intros I. right. exists a. split; [left; reflexivity|exact I].
  - change (intercalate sep (a :: b :: r)) with (a ++ sep ++ intercalate sep (b :: r)). intros I.
    apply in_app_or in I. destruct I as [I|I]; [right; exists a; split; [left; reflexivity|exact I]|].
    apply in_app_or in I. destruct I as [I|I]; [left; exact I|].
    destruct (IH I) as [J|[l [J1 J2]]]; [left; exact J|right; exists l; split; [right; exact J1|exact J2]].
Qed.

Theorem lf_file_stays_lf text hs out :
  ~ In 13 text -> (forall h, In h hs -> Forall (fun l => ~ In 13 l) (h_after h)) ->
  apply_hunks_to_text text hs = Some out -> ~ In 13 out.
Proof.
  intros NT NH. unfold apply_hunks_to_text. unfold line_ending. rewrite (contains_crlf_none _ NT).
  destruct (split_lines text) as [ls tr] eqn:SL.
  assert (FL : Forall (fun l => ~ In 13 l) ls).
  { unfold split_lines in SL. apply Forall_forall. intros l I.
    assert (IP : In l (map strip_cr (split_on 10 text))).
    { destruct (ends_nl text); inversion SL; subst; [apply removelast_in; exact I|exact I]. }
    apply in_map_iff in IP. destruct IP as [piece [<- IP]].
    assert (NP : ~ In 13 piece).
    { intros J. destruct (split_aux_in 10 text [] piece 13 IP J) as [[]|K]. contradiction. }
    rewrite strip_cr_clean; exact NP. }
  destruct (apply_hunks_lines ls 0 hs) as [ls'|] eqn:AH; [|discriminate].
  intros H; inversion H; subst out.
  pose proof (apply_hunks_lines_forall _ hs ls 0%nat ls' FL NH AH) as FL'.
  unfold join_lines. destruct ls' as [|a r] eqn:LS'; [intros []|]. rewrite <- LS' in *.
  intros I. apply in_app_or in I. destruct I as [I|I].
  - apply intercalate_in in I. destruct I as [[I|[]]|[l [I1 I2]]]; [discriminate|].
    rewrite Forall_forall in FL'. exact (FL' l I1 I2).
  - destruct tr; [destruct I as [I|[]]; discriminate|destruct I].
Qed.

(* ---------- what the code does on files that are not canonical ---------- *)
Require Import Coq.Strings.String.
(* a mixed LF/CRLF file: the identity hunk rewrites the untouched LF line to CRLF *)
Definition mixed_text : list N := [97; 13; 10; 98; 10; 99; 10].          (* "a\r\nb\nc\n" *)
Definition id_hunk : hunk := {| h_before := [[99]]; h_after := [[99]] |}.   (* " c" *)
Definition mixed_out : list N := [97; 13; 10; 98; 13; 10; 99; 13; 10].
Lemma mixed_run : apply_hunks_to_text mixed_text [id_hunk] = Some mixed_out.
Proof. vm_compute. reflexivity. Qed.
(* a lone CR at the end of a last line without newline is dropped *)
Definition lonecr_text : list N := [120; 10; 121; 13].                    (* "x\ny\r" *)
Definition lonecr_hunk : hunk := {| h_before := [[120]]; h_after := [[120]] |}.
Definition lonecr_out : list N := [120; 10; 121].
Lemma lonecr_run : apply_hunks_to_text lonecr_text [lonecr_hunk] = Some lonecr_out.
Proof. vm_compute. reflexivity. Qed.
(* no trailing newline + the remaining last line is empty: the result reads as "has a trailing newline" *)
Definition emptylast_text : list N := [97; 10; 10; 98].                   (* "a\n\nb" *)
Definition emptylast_hunk : hunk := {| h_before := [[98]]; h_after := [] |}.
Definition emptylast_out : list N := [97; 10].
Lemma emptylast_run : apply_hunks_to_text emptylast_text [emptylast_hunk] = Some emptylast_out.
Proof. vm_compute. reflexivity. Qed.

Theorem identity_hunk_not_identity_refuted :
  exists text h out, h_before h = h_after h /\ apply_hunks_to_text text [h] = Some out /\ out <> text.
Proof. exists mixed_text, id_hunk, mixed_out. split; [reflexivity|]. split; [exact mixed_run|discriminate]. Qed.

Theorem lone_cr_dropped_refuted :
  exists text h out, h_before h = h_after h /\ apply_hunks_to_text text [h] = Some out /\ In 13 text /\ ~ In 13 out.
Proof.
  exists lonecr_text, lonecr_hunk, lonecr_out. split; [reflexivity|]. split; [exact lonecr_run|].
  split; [cbn; auto|]. cbn. intros [H|[H|[H|[]]]]; discriminate.
Qed.

Theorem no_trailing_newline_not_always_kept_refuted :
  exists text hs out, apply_hunks_to_text text hs = Some out /\ ends_nl text = false /\ ends_nl out = true.
Proof. exists emptylast_text, [emptylast_hunk], emptylast_out. split; [exact emptylast_run|]. split; reflexivity. Qed.

Lemma canonical_demo :
  canon [[97]; [98]] true /\ style_ok CRLF [[97]; [98]] true /\
  apply_hunks_to_text (join_lines [[97]; [98]] true CRLF) [{| h_before := [[98]]; h_after := [[99]; [100]] |}]
  = Some (join_lines [[97]; [99]; [100]] true CRLF).
Proof.
  split; [|split; [right; split; [reflexivity|left; reflexivity]|vm_compute; reflexivity]].
  split; [discriminate|]. split; [|left; reflexivity].
  intros l [<-|[<-|[]]]; split; cbn; intros [H|[]]; discriminate.
Qed.

(* ---------- the hunk search: first occurrence at or after the cursor ---------- *)
Definition occurs_at (hay needle : list line) (i : nat) : Prop := exists t, skipn i hay = needle ++ t.

Lemma prefix_eqb_iff needle : forall hay, prefix_eqb needle hay = true <-> exists t, hay = needle ++ t.
Proof.
  induction needle as [|x n IH]; intros hay; cbn [prefix_eqb].
  - split; [intros _; exists hay; reflexivity|reflexivity].
  - destruct hay as [|y h].
    + split; [discriminate|intros [t E]; discriminate].
    + rewrite andb_true_iff, lN_eqb_spec, IH. split.
      * intros [-> [t ->]]. exists t. reflexivity.
      * intros [t E]. cbn [app] in E. inversion E; subst. split; [reflexivity|exists t; reflexivity].
Qed.

Lemma find_sub_spec needle : forall hay idx pos, find_sub hay needle idx = Some pos ->
  exists k, pos = (idx + k)%nat /\ occurs_at hay needle k /\ forall j, (j < k)%nat -> ~ occurs_at hay needle j.
Proof.
  induction hay as [|x r IH]; intros idx pos; cbn [find_sub].
  - destruct (prefix_eqb needle []) eqn:P; [|discriminate]. intros E; inversion E; subst.
    exists 0%nat. split; [lia|]. split; [apply prefix_eqb_iff in P; exact P|intros j Hj; lia].
  - destruct (prefix_eqb needle (x :: r)) eqn:P.
    + intros E; inversion E; subst. exists 0%nat. split; [lia|]. split; [apply prefix_eqb_iff in P; exact P|intros j Hj; lia].
    + intros E. destruct (IH _ _ E) as [k [-> [O F]]]. exists (S k). split; [lia|]. split; [exact O|].
      intros j Hj. destruct j as [|j].
      * intros O0. apply prefix_eqb_iff in O0. cbn [skipn] in O0. congruence.
      * apply F. lia.
Qed.

Lemma find_sub_none needle : forall hay idx, find_sub hay needle idx = None -> forall j, ~ occurs_at hay needle j.
Proof.
  induction hay as [|x r IH]; intros idx; cbn [find_sub].
  - destruct (prefix_eqb needle []) eqn:P; [discriminate|]. intros _ j [t E].
    assert (skipn j (@nil line) = []) by (destruct j; reflexivity).
    assert (prefix_eqb needle [] = true) by (apply prefix_eqb_iff; exists t; congruence). congruence.
  - destruct (prefix_eqb needle (x :: r)) eqn:P; [discriminate|]. intros E j. destruct j as [|j].
    + intros O0. apply prefix_eqb_iff in O0. cbn [skipn] in O0. congruence.
    + apply (IH _ E).
Qed.

Lemma skipn_add {A} s : forall (l : list A) k, skipn k (skipn s l) = skipn (s + k) l.
Proof.
  induction s as [|s IH]; intros l k; [reflexivity|]. destruct l as [|x r]; cbn [skipn plus].
  - destruct k; reflexivity.
  - apply IH.
Qed.

Lemma occurs_skip hay needle s k : occurs_at (skipn s hay) needle k <-> occurs_at hay needle (s + k).
Proof. unfold occurs_at. rewrite skipn_add. reflexivity. Qed.

Theorem find_from_first hay needle cur pos : find_from hay needle cur = Some pos ->
  (cur <= pos)%nat /\ occurs_at hay needle pos /\ forall i, (cur <= i < pos)%nat -> ~ occurs_at hay needle i.
Proof.
  unfold find_from. destruct (Nat.leb cur (List.length hay)); [|discriminate]. intros E.
  apply find_sub_spec in E. destruct E as [k [-> [O F]]]. split; [lia|]. split; [apply occurs_skip; exact O|].
  intros i Hi. replace i with (cur + (i - cur))%nat by lia. rewrite <- occurs_skip. apply F. lia.
Qed.

Theorem find_from_none hay needle cur : (cur <= List.length hay)%nat -> find_from hay needle cur = None ->
  forall i, (cur <= i)%nat -> ~ occurs_at hay needle i.
Proof.
  unfold find_from. intros LE. apply Nat.leb_le in LE. rewrite LE. intros E i Hi.
  replace i with (cur + (i - cur))%nat by lia. rewrite <- occurs_skip. eapply find_sub_none. exact E.
Qed.

(* one hunk with context replaces exactly the first occurrence of its `before` lines at or after the
   cursor, and moves the cursor behind the inserted lines; a hunk without context appends *)
Theorem hunk_step h r ls cur : h_before h <> [] ->
  forall res, apply_hunks_lines ls cur (h :: r) = Some res ->
  exists pre post, ls = pre ++ h_before h ++ post /\ (cur <= List.length pre)%nat /\
    (forall i, (cur <= i < List.length pre)%nat -> ~ occurs_at ls (h_before h) i) /\
    apply_hunks_lines (pre ++ h_after h ++ post) (List.length pre + List.length (h_after h)) r = Some res.
Proof.
  intros NE res. cbn [apply_hunks_lines]. destruct (h_before h) as [|b0 bs] eqn:B; [congruence|].
  destruct (find_from ls (b0 :: bs) cur) as [pos|] eqn:FF; [|discriminate].
  destruct (find_from_first _ _ _ _ FF) as [LE [[t OC] FIRST]].
  intros H. exists (firstn pos ls), t.
  assert (LP : (pos <= List.length ls)%nat).
  { destruct (Nat.le_gt_cases pos (List.length ls)) as [A|A]; [exact A|]. rewrite skipn_all2 in OC by lia. discriminate. }
  assert (LEN : List.length (firstn pos ls) = pos) by (rewrite firstn_length; lia).
  assert (DEC : ls = firstn pos ls ++ (b0 :: bs) ++ t) by (rewrite <- OC; symmetry; apply firstn_skipn).
  split; [exact DEC|]. rewrite LEN. split; [exact LE|]. split; [exact FIRST|].
  assert (SK : skipn (pos + List.length (b0 :: bs)) ls = t).
  { rewrite <- skipn_add, OC. rewrite skipn_app, skipn_all, Nat.sub_diag. reflexivity. }
  rewrite SK in H. exact H.
Qed.

Theorem hunk_append h r ls cur : h_before h = [] ->
  apply_hunks_lines ls cur (h :: r) = apply_hunks_lines (ls ++ h_after h) (List.length (ls ++ h_after h)) r.
Proof. intros B. cbn [apply_hunks_lines]. rewrite B. reflexivity. Qed.

(* a hunk that fails leaves no partial text: the whole update is refused *)
Theorem hunk_missing_context_fails h r ls cur : h_before h <> [] -> (cur <= List.length ls)%nat ->
  (forall i, (cur <= i)%nat -> ~ occurs_at ls (h_before h) i) -> apply_hunks_lines ls cur (h :: r) = None.
Proof.
  intros NE LE NO. cbn [apply_hunks_lines]. destruct (h_before h) as [|b0 bs] eqn:B; [congruence|].
  destruct (find_from ls (b0 :: bs) cur) as [pos|] eqn:FF; [|reflexivity].
  destruct (find_from_first _ _ _ _ FF) as [L [OC _]]. exfalso. exact (NO pos L OC).
Qed.
