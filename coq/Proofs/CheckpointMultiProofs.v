(* C14: several checkpoints and rewinds in any order (c14_multi), as an explicit theorem over whole sessions. *)
From RipV Require Import Base.Prelude Base.Fs Model.Paths Model.Checkpoint Proofs.PathsProofs Proofs.CheckpointProofs.

(* a rewind - successful or not - leaves a workspace in which every file is reachable *)
Lemma rewind_sane f root raws ck f2 f3 r :
  create f root raws = Ok ck -> sane f -> sane f2 -> rewind f2 ck = (f3, r) -> sane f3.
Proof.
  intros Hc Hs Hs2 Hr. unfold rewind in Hr.
  destruct (map_res (save_one f2) (map fst ck)) as [snap|x] eqn:Esnap; [|inversion Hr; subst f3; exact Hs2].
  destruct (apply_all f2 ck) as [f1 er] eqn:Ea. destruct er as [x|].
  - inversion Hr; subst f3. clear Hr.
    set (K := fun k : path => exists e0, In e0 ck /\ key (fst e0) = k).
    assert (G1 : Good f2 K f1).
    { eapply good_apply_all; [apply good_init; exact Hs2| |exact Ea].
      intros e0 Hin. split; [exists e0; split; [exact Hin|reflexivity]|].
      intros b Hb r0 Hsp (e1 & Hin1 & Ek1). exfalso. rewrite <- Ek1 in Hsp.
      exact (create_incompat _ _ _ _ Hc Hs e1 e0 b Hin1 Hin Hb Hsp). }
    assert (Hall : forall x0, In x0 (btree snap) -> K (key (fst x0)) /\ file_at f2 (key (fst x0)) = snd x0).
    { intros x0 Hx0. destruct (btree_fold_in _ _ _ Hx0) as [Hin|[]].
      destruct (map_res_in _ _ _ Esnap _ Hin) as (rel & Hrel & Sv).
      destruct (save_one_spec _ _ _ Sv) as [Ef Sp]. rewrite Ef. split.
      - apply in_map_iff in Hrel. destruct Hrel as (e0 & Ee0 & Hin0). exists e0. split; [exact Hin0|rewrite Ee0; reflexivity].
      - destruct (snd x0) as [b|]; [apply read_ok_file; exact Sp|apply exists_false_no_file; assumption]. }
    destruct (undo_all_view f2 K Hs2 _ _ G1 Hall) as [G' _]. apply (g_sane _ _ _ G').
  - inversion Hr; subst f3.
    destruct (apply_all_exact _ _ _ Ea Hs2 (create_consistent _ _ _ _ Hc)) as (Hs3 & _). exact Hs3.
Qed.

Definition ck_ok (root : str) (c : list entry * fs) : Prop :=
  sane (snd c) /\ exists raws, create (snd c) root raws = Ok (fst c).

Lemma run_hist_inv root : forall h f cks f' cks',
  run_hist root f cks h = (f', cks') -> hist_sane h = true -> sane f -> Forall (ck_ok root) cks ->
  sane f' /\ Forall (ck_ok root) cks'.
Proof.
  induction h as [|o h IH]; intros f cks f' cks' H Hh Hs Hc.
  - cbn [run_hist] in H. inversion H; subst. split; assumption.
  - cbn [hist_sane forallb] in Hh. apply andb_true_iff in Hh. destruct Hh as [Ho Hh].
    change (forallb (fun o => match o with HEdit g => sane_b g | _ => true end) h) with (hist_sane h) in Hh.
    destruct o as [raws|i|g]; cbn [run_hist] in H.
    + destruct (create f root raws) as [ck|e] eqn:Ec.
      * apply (IH _ _ _ _ H Hh Hs). apply Forall_app. split; [exact Hc|]. constructor; [|constructor].
        split; [exact Hs|exists raws; exact Ec].
      * apply (IH _ _ _ _ H Hh Hs Hc).
    + destruct (nth_error cks i) as [[ck fi]|] eqn:En; [|apply (IH _ _ _ _ H Hh Hs Hc)].
      apply (IH _ _ _ _ H Hh); [|exact Hc].
      pose proof (nth_error_In _ _ En) as Hin. rewrite Forall_forall in Hc. destruct (Hc _ Hin) as [Hsi [raws Eci]].
      cbn [fst snd] in *. destruct (rewind f ck) as [f3 r] eqn:Er. cbn [fst].
      exact (rewind_sane _ _ _ _ _ _ _ Eci Hsi Hs Er).
    + apply (IH _ _ _ _ H Hh); [apply sane_b_sound; exact Ho|exact Hc].
Qed.

(* After ANY session - checkpoints taken at any time, arbitrary edits, rewinds (successful or failing) to any
   checkpoints in any order - a rewind to ANY checkpoint taken so far either succeeds and every file that
   checkpoint covers has exactly the bytes (or the absence) it had in the workspace the checkpoint was taken
   from, no uncovered file changing; or fails and leaves every file of the workspace as it was. *)
Theorem multi root f0 h f cks :
  sane_b f0 = true -> hist_sane h = true -> run_hist root f0 [] h = (f, cks) ->
  forall i ck fi f3 r, nth_error cks i = Some (ck, fi) -> rewind f ck = (f3, r) ->
  match r with
  | None =>
    (forall rel saved, In (rel, saved) ck ->
       match saved with
       | Some b => os_read fi (tgt_of rel) = Ok b /\ os_read f3 (tgt_of rel) = Ok b
       | None => os_exists fi (tgt_of rel) = false /\ file_at f3 (key rel) = None
       end)
    /\ (forall q, (forall rel saved, In (rel, saved) ck -> key rel <> q) -> file_at f3 q = file_at f q)
  | Some _ => forall q, file_at f3 q = file_at f q
  end.
Proof.
  intros Hs0 Hh Hrun i ck fi f3 r En Er.
  destruct (run_hist_inv root h f0 [] f cks Hrun Hh (sane_b_sound _ Hs0) (Forall_nil _)) as [Hs Hc].
  pose proof (nth_error_In _ _ En) as Hin. rewrite Forall_forall in Hc. destruct (Hc _ Hin) as [Hsi [raws Eci]].
  cbn [fst snd] in *. destruct r as [e|].
  - exact (rewind_failure_restores _ _ _ _ _ _ _ Eci Hsi Hs Er).
  - exact (rewind_exact _ _ _ _ _ _ Eci Hs Er).
Qed.

(* non-vacuity: two checkpoints, edits, rewind to the second, then to the first, then to the second again *)
Require Import Coq.Strings.String.
Definition m_a : str := bs "a.txt"%string.
Definition m_b : str := bs "b.txt"%string.
Definition m_f0 : fs := [([m_a], File (bs "a0"%string))].
Definition m_f1 : fs := [([m_a], File (bs "a1"%string)); ([m_b], File (bs "b1"%string))].
Definition m_f2 : fs := [([m_a], File (bs "a2"%string))].
Definition m_hist : list hop :=
  [HCreate [m_a; m_b]; HEdit m_f1; HCreate [m_b]; HEdit m_f2; HRewind 1; HRewind 0; HRewind 1].
Lemma ex_multi :
  sane_b m_f0 = true /\ hist_sane m_hist = true
  /\ exists f cks ck0 ck1, run_hist w_root m_f0 [] m_hist = (f, cks)
       /\ nth_error cks 0 = Some (ck0, m_f0) /\ nth_error cks 1 = Some (ck1, m_f1)
       /\ file_at f [m_a] = Some (bs "a0"%string) /\ file_at f [m_b] = Some (bs "b1"%string)
       /\ exists f3, rewind f ck0 = (f3, None) /\ file_at f3 [m_b] = None.
Proof. split; [vm_compute; reflexivity|]. split; [vm_compute; reflexivity|]. do 4 eexists. vm_compute. repeat split. eexists. split; reflexivity. Qed.

(* ====================================================================================== *)
(* the store side: tampered / missing stored copies                                        *)
(* ====================================================================================== *)
Lemma stored_nil rel b : stored [] rel b = Some b.
Proof. reflexivity. Qed.

(* an intact store: rewind_st is rewind *)
Lemma apply_all_st_intact v st : forall ck f,
  (forall rel b, In (rel, Some b) ck -> stored st rel b = Some b) -> apply_all_st v st f ck = apply_all f ck.
Proof.
  induction ck as [|e r IH]; intros f H; [reflexivity|]. cbn [apply_all_st apply_all].
  assert (E1 : apply_one_st v st f e = apply_one f e).
  { destruct e as [rel [b|]]; unfold apply_one_st; cbn [fst snd]; [|reflexivity].
    rewrite (H rel b (or_introl eq_refl)). replace (lN_eqb b b) with true by (symmetry; apply lN_eqb_spec; reflexivity).
    rewrite andb_false_r. reflexivity. }
  rewrite E1. destruct (apply_one f e) as [f1 [x|]]; [reflexivity|]. apply IH. intros rel b Hin. apply H. right; exact Hin.
Qed.

Lemma rewind_st_intact v st f ck :
  (forall rel b, In (rel, Some b) ck -> stored st rel b = Some b) -> rewind_st v st f ck = rewind f ck.
Proof. intros H. unfold rewind_st, rewind. rewrite (apply_all_st_intact v st ck f H). reflexivity. Qed.

(* with the hash comparison a SUCCESSFUL restore loop has seen only intact copies: it is the restore loop of the
   intact store *)
Lemma apply_all_st_verified_ok st : forall ck f f', apply_all_st true st f ck = (f', None) -> apply_all f ck = (f', None).
Proof.
  induction ck as [|e r IH]; intros f f' H; [exact H|]. cbn [apply_all_st] in H. cbn [apply_all].
  destruct (apply_one_st true st f e) as [f1 er] eqn:E1. destruct er as [x|]; [discriminate|].
  assert (E1' : apply_one f e = (f1, None)).
  { destruct e as [rel [b|]]; unfold apply_one_st in E1; cbn [fst snd] in E1; [|exact E1].
    destruct (stored st rel b) as [b'|]; [|discriminate]. cbn [andb] in E1.
    destruct (lN_eqb b' b) eqn:Eb; cbn [negb] in E1; [|discriminate]. apply lN_eqb_spec in Eb. subst b'. exact E1. }
  rewrite E1'. apply IH. exact H.
Qed.

Theorem rewind_st_verified_exact f root raws ck st f2 f3 :
  create f root raws = Ok ck -> sane_b f2 = true -> rewind_st true st f2 ck = (f3, None) ->
  (forall rel saved, In (rel, saved) ck ->
     match saved with
     | Some b => os_read f (tgt_of rel) = Ok b /\ os_read f3 (tgt_of rel) = Ok b
     | None => os_exists f (tgt_of rel) = false /\ file_at f3 (key rel) = None
     end)
  /\ (forall q, (forall rel saved, In (rel, saved) ck -> key rel <> q) -> file_at f3 q = file_at f2 q).
Proof.
  intros Hc Hs Hr. apply (rewind_exact_b f root raws ck f2 f3 Hc Hs).
  unfold rewind_st in Hr. unfold rewind.
  destruct (map_res (save_one f2) (map fst ck)) as [snap|x]; [|discriminate].
  destruct (apply_all_st true st f2 ck) as [f1 er] eqn:Ea. destruct er as [x|]; [discriminate|].
  inversion Hr; subst f1. rewrite (apply_all_st_verified_ok _ _ _ _ Ea). reflexivity.
Qed.

(* every step of the store-aware restore loop keeps the invariant of the failure proof, whatever bytes it writes *)
Lemma good_apply_all_st f2 K v st : forall ck g g' er, Good f2 K g ->
  (forall e, In e ck -> K (key (fst e)) /\ (forall b, snd e = Some b -> safe_parents f2 K (key (fst e)))) ->
  apply_all_st v st g ck = (g', er) -> Good f2 K g'.
Proof.
  induction ck as [|e r IH]; intros g g' er G Hall H; cbn [apply_all_st] in H.
  - inversion H; subst g'; exact G.
  - destruct (apply_one_st v st g e) as [g1 e1] eqn:E1.
    destruct (Hall e (or_introl eq_refl)) as [Hk Hsp].
    assert (G1 : Good f2 K g1).
    { destruct e as [rel [b|]]; unfold apply_one_st in E1; cbn [fst snd] in *.
      - destruct (stored st rel b) as [b'|]; [|inversion E1; subst g1; exact G].
        destruct (v && negb (lN_eqb b' b)); [inversion E1; subst g1; exact G|].
        apply (good_apply_one f2 K g (rel, Some b') g1 e1 G Hk); [|exact E1].
        intros b0 _. exact (Hsp b eq_refl).
      - apply (good_apply_one f2 K g (rel, None) g1 e1 G Hk); [|exact E1]. intros b0 Hb0; discriminate. }
    destruct e1 as [x|]; [inversion H; subst g'; exact G1|].
    eapply IH; [exact G1| |exact H]. intros e' Hin. apply Hall. right; exact Hin.
Qed.

(* a rewind that fails - also because a stored copy is gone or does not match its recorded hash, at any step -
   leaves every file of the workspace as it was *)
Theorem rewind_st_failure_restores v st f root raws ck f2 f3 e :
  create f root raws = Ok ck -> sane f -> sane f2 -> rewind_st v st f2 ck = (f3, Some e) ->
  forall q, file_at f3 q = file_at f2 q.
Proof.
  intros Hc Hs Hs2 Hr q. unfold rewind_st in Hr.
  destruct (map_res (save_one f2) (map fst ck)) as [snap|x] eqn:Esnap; [|inversion Hr; reflexivity].
  destruct (apply_all_st v st f2 ck) as [f1 er] eqn:Ea. destruct er as [x|]; [|inversion Hr]. inversion Hr; subst f3.
  set (K := fun k : path => exists e0, In e0 ck /\ key (fst e0) = k).
  assert (G1 : Good f2 K f1).
  { eapply good_apply_all_st; [apply good_init; exact Hs2| |exact Ea].
    intros e0 Hin. split; [exists e0; split; [exact Hin|reflexivity]|].
    intros b Hb r Hsp (e1 & Hin1 & Ek1). exfalso. rewrite <- Ek1 in Hsp.
    exact (create_incompat _ _ _ _ Hc Hs e1 e0 b Hin1 Hin Hb Hsp). }
  assert (Hall : forall x0, In x0 (btree snap) -> K (key (fst x0)) /\ file_at f2 (key (fst x0)) = snd x0).
  { intros x0 Hx0. destruct (btree_fold_in _ _ _ Hx0) as [Hin|[]].
    destruct (map_res_in _ _ _ Esnap _ Hin) as (rel & Hrel & Sv).
    destruct (save_one_spec _ _ _ Sv) as [Ef Sp]. rewrite Ef. split.
    - apply in_map_iff in Hrel. destruct Hrel as (e0 & Ee0 & Hin0). exists e0. split; [exact Hin0|rewrite Ee0; reflexivity].
    - destruct (snd x0) as [b|]; [apply read_ok_file; exact Sp|apply exists_false_no_file; assumption]. }
  destruct (covered_dec ck q) as [Hk|Hk].
  - apply (undo_all_covered f2 K Hs2 _ _ _ G1 Hall).
    destruct Hk as (e0 & Hin0 & Ek0).
    destruct (map_res_cover _ _ _ Esnap (fst e0) (in_map fst _ _ Hin0)) as (y & Hy & Sv).
    destruct (save_one_spec _ _ _ Sv) as [Ef _].
    destruct (btree_fold_cover snap [] y (or_introl Hy)) as (x0 & Hx0 & Ex0).
    exists x0. split; [exact Hx0|]. rewrite Ex0, Ef. exact Ek0.
  - destruct (undo_all_view f2 K Hs2 _ _ G1 Hall) as [G' _]. apply (g_out _ _ _ G'). exact Hk.
Qed.

Theorem rewind_st_failure_restores_b v st f root raws ck f2 f3 e :
  create f root raws = Ok ck -> sane_b f = true -> sane_b f2 = true -> rewind_st v st f2 ck = (f3, Some e) ->
  forall q, file_at f3 q = file_at f2 q.
Proof. intros Hc Hs Hs2. apply (rewind_st_failure_restores v st f root raws ck f2 f3 e Hc (sane_b_sound _ Hs) (sane_b_sound _ Hs2)). Qed.

(* before the repair (no hash comparison): a stored copy overwritten through the write tool is restored as if it
   were the checkpointed content, and the rewind reports success *)
Definition s_later : fs := [([m_a], File (bs "a1"%string))].
Definition s_ck : list entry := [(m_a, Some (bs "a0"%string))].
Definition s_store : store := [(m_a, Some (bs "forged"%string))].
Definition s_forged : fs := [([m_a], File (bs "forged"%string))].
Lemma unverified_restores_forged :
  create m_f0 w_root [m_a] = Ok s_ck /\ sane_b s_later = true
  /\ rewind_st false s_store s_later s_ck = (s_forged, None)
  /\ os_read s_forged (tgt_of m_a) = Ok (bs "forged"%string)
  /\ exists e, rewind_st true s_store s_later s_ck = (s_later, Some e).
Proof. repeat split; try (vm_compute; reflexivity). exists EINVALDATA. vm_compute. reflexivity. Qed.

Lemma rewind_store_unverified_refuted :
  exists f root raws ck st f2 f3 rel b b',
    create f root raws = Ok ck /\ sane_b f2 = true /\ rewind_st false st f2 ck = (f3, None)
    /\ In (rel, Some b) ck /\ os_read f3 (tgt_of rel) = Ok b' /\ b' <> b.
Proof.
  exists m_f0, w_root, [m_a], s_ck, s_store, s_later, s_forged, m_a, (bs "a0"%string), (bs "forged"%string).
  destruct unverified_restores_forged as (A & B & C & D & _).
  repeat split; try assumption; [left; reflexivity|discriminate].
Qed.
