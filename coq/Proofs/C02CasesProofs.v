(* C02, second round (builder log02b): histories with single-file cache faults, garbage lines in the
   full sidecar and aged stores (Model/C02Cases.v, call2); the table of helpers shared between
   read-only and appending capabilities (Gen/Effects.v). *)
From Coq Require String.
From RipV Require Import Base.Prelude Model.Frames Model.Log Model.ContStore Model.CapEffects
  Model.SidecarInv Model.LogBytes Model.C02Cases
  Proofs.LogProofs Proofs.ContStoreProofs Proofs.SidecarInvProofs.

(* ---------- the log under the harness operations ---------- *)
Definition is_fault2 (k : call2) : bool :=
  match k with
  | K (KFault _ _) | K KRestart | KDerivedFault | KSideGarbage _ _ | KAge => true
  | K (KCap _ _ _) => false
  end.

(* a cache fault (full sidecar or derived file), a garbage line, a restart, the passing of time:
   none of them touches the log *)
Lemma fault2_keeps_log st k : is_fault2 k = true -> s_log (do_call2 st k) = s_log st.
Proof.
  destruct k as [[cp th f|x th|]| |mid th|]; cbn [is_fault2 do_call2 do_call]; intros H;
    try discriminate; try reflexivity.
Qed.

Lemma exec_log prog st : exists fs, s_log (exec prog st) = s_log st ++ fs.
Proof. unfold exec. apply (run_log (repeat 0 (length prog)) (spawn [(prog, 0)] st)). Qed.

Lemma do_call2_log st k : exists fs, s_log (do_call2 st k) = s_log st ++ fs.
Proof.
  destruct k as [[cp th f|x th|]| |mid th|]; cbn [do_call2 do_call];
    try (exists []; rewrite app_nil_r; reflexivity).
  apply exec_log.
Qed.

(* every history of calls, faults, garbage, restarts and ageing: the log at the start is a prefix of
   the log at the end *)
Lemma run_calls2_log ks : forall st, exists fs, s_log (snd (run_calls2 st ks)) = s_log st ++ fs.
Proof.
  induction ks as [|k r IH]; intros st; cbn [run_calls2].
  - exists []. rewrite app_nil_r. reflexivity.
  - destruct (IH (do_call2 st k)) as [fs Hfs].
    destruct (run_calls2 (do_call2 st k) r) as [ns fin]. cbn [snd] in *.
    destruct (do_call2_log st k) as [gs Hgs]. rewrite Hfs, Hgs. exists (gs ++ fs).
    rewrite app_assoc. reflexivity.
Qed.

(* ... and between ANY two points of the history (split the history anywhere) *)
Lemma run_calls2_app ks1 : forall ks2 st,
  snd (run_calls2 st (ks1 ++ ks2)) = snd (run_calls2 (snd (run_calls2 st ks1)) ks2).
Proof.
  induction ks1 as [|k r IH]; intros ks2 st; cbn [app run_calls2]; [reflexivity|].
  specialize (IH ks2 (do_call2 st k)).
  destruct (run_calls2 (do_call2 st k) (r ++ ks2)) as [ns1 fin1].
  destruct (run_calls2 (do_call2 st k) r) as [ns2 fin2]. cbn [snd] in *. exact IH.
Qed.

Lemma history2_prefix ks1 ks2 :
  exists fs, s_log (snd (run_calls2 empty_state (ks1 ++ ks2)))
             = s_log (snd (run_calls2 empty_state ks1)) ++ fs.
Proof. rewrite run_calls2_app. apply run_calls2_log. Qed.

(* a call the property names as silent adds nothing wherever it stands in such a history *)
Lemma silent_call2_keeps_log st cp th f :
  silent cp f = true -> s_log (do_call2 st (K (KCap cp th f))) = s_log st.
Proof. intros H. cbn [do_call2 do_call]. apply silent_calls_keep_log. exact H. Qed.

(* ---------- which ids have a sidecar, extended histories ---------- *)
Lemma side_garbage_side (sd : N -> option (list sline)) mid c0 c :
  side_garbage sd mid c0 c <> None -> sd c <> None.
Proof.
  unfold side_garbage. destruct (sd c0) eqn:E; [|auto]. unfold upd.
  destruct (c =? c0) eqn:E2; [|auto]. apply N.eqb_eq in E2. subst. intros _. congruence.
Qed.

Lemma do_call2_SideInv st k : SideInv st -> SideInv (do_call2 st k).
Proof.
  intros H. destruct k as [k'| |mid th|]; cbn [do_call2].
  - apply do_call_SideInv. exact H.
  - exact H.
  - destruct H as [HA HB]. split; cbn [with_side set_store s_side s_log s_procs].
    + intros c Hc. apply HA. apply (side_garbage_side _ _ _ _ Hc).
    + exact HB.
  - apply (do_call_SideInv st KRestart H).
Qed.

Lemma run_calls2_SideInv ks : forall st, SideInv st -> SideInv (snd (run_calls2 st ks)).
Proof.
  induction ks as [|k r IH]; intros st H; cbn [run_calls2]; [exact H|].
  specialize (IH (do_call2 st k) (do_call2_SideInv st k H)).
  destruct (run_calls2 (do_call2 st k) r) as [ns fin]. exact IH.
Qed.

Lemma sidecars_named_any_history2 ks c :
  s_side (snd (run_calls2 empty_state ks)) c <> None ->
  exists f, In f (s_log (snd (run_calls2 empty_state ks))) /\ sid f = c.
Proof. intros Hc. apply (proj1 (run_calls2_SideInv ks empty_state empty_SideInv) c Hc). Qed.

(* ---------- shared helpers ---------- *)
Lemma shared_helpers_rows (t : list (String.string * bool)) :
  shared_helpers_silent t = true -> t <> [] /\ forall n b, In (n, b) t -> b = false.
Proof.
  unfold shared_helpers_silent. intros H. apply andb_true_iff in H. destruct H as [H1 H2]. split.
  - intros E. subst. discriminate.
  - intros n b Hin. rewrite forallb_forall in H2. specialize (H2 (n, b) Hin). cbn [snd] in H2.
    destruct b; [discriminate|reflexivity].
Qed.

(* ---------- non-vacuity: the setting of seed C02-6 and of seed C02-5 as model histories ---------- *)
Definition fact_auto (planned created : nat) : cfacts :=
  {| cf_ok := true; cf_stride0 := false; cf_dry := false; cf_planned := planned; cf_inflight := false;
     cf_execute := true; cf_created := created; cf_ended := true |}.
Definition demo2_history : list call2 :=
  [K (KCap CapEnsureDefault 0 fact_ok);
   K (KCap (CapAppend EContinuityMessageAppended) 0 fact_ok);
   K (KCap (CapAppend EContinuityMessageAppended) 0 fact_ok);
   K (KCap CapAuto 0 (fact_auto 1 1));          (* job_spawned, checkpoint, job_ended *)
   KDerivedFault;                               (* <id>.comp.v1.jsonl torn *)
   KSideGarbage true 0;
   KAge;
   K (KCap CapAuto 0 (fact_auto 0 0));          (* nothing to do *)
   K (KCap CapCompactionStatus 0 fact_ok)].
Lemma demo2 :
  fst (run_calls2 empty_state demo2_history) = [1; 2; 3; 6; 6; 6; 6; 6; 6].
Proof. vm_compute. reflexivity. Qed.
