(* C03 — proofs for Model/WireRun.v: a run whose code is a concatenation of emit sites (build from the counter, emit,
   bump) numbers its frames c, c+1, ..; fed to the session emitter as written, on a healthy disk, the log view = the
   snapshot = the live frames AND the validated replay accepts the stream (seqs_from 0).  A head that builds one frame
   early (seeded C03-10) or emits one late (seeded C01-11): the three views still agree frame for frame - and the
   validated replay refuses the stream. *)
From RipV Require Import Base.Prelude Base.Json Model.Wire Model.WireSized Model.WireRun
  Proofs.WireProofs Proofs.WireOrderProofs Proofs.WireSizedProofs Proofs.RunSitesProofs.

(* ---------- frames ---------- *)
Definition run_frames (mk : N -> N -> event) (c : N) (p : list rstmt) : list event :=
  map (fun x => mk (fst x) (snd x)) (r_out (rrun c p)).
Definition sess_sinks (g : append_gate) (s : schema) (es : list event) : sinks := run_gated g eo_sess s (healthy es).

Lemma canon_event_seq s e : e_seq (canon_event s e) = e_seq e.
Proof. unfold canon_event. destruct (nth_error (s_variants s) (e_var e)); reflexivity. Qed.

Lemma seqs_from_canon s es : forall n, seqs_from n (map (canon_event s) es) = seqs_from n es.
Proof. induction es as [|e es IH]; intro n; [reflexivity|]. cbn [map seqs_from]. rewrite canon_event_seq, IH. reflexivity. Qed.

Lemma seqs_from_frames mk : (forall t n, e_seq (mk t n) = n) ->
  forall l c, nums_from c l = true -> seqs_from c (map (fun x => mk (fst x) (snd x)) l) = true.
Proof.
  intros Hmk. induction l as [|x l IH]; intros c H; [reflexivity|].
  cbn [nums_from] in H. apply andb_true_iff in H. destruct H as [H1 H2].
  cbn [map seqs_from]. rewrite Hmk, H1. cbn [andb]. apply IH. exact H2.
Qed.

Lemma of_stream_all s key es : (forall e, In e es -> stream_key s e = key) -> of_stream s key es = es.
Proof.
  intro H. unfold of_stream. induction es as [|e es IH]; [reflexivity|]. cbn [filter].
  rewrite (H e (or_introl eq_refl)). unfold key_eqb. rewrite N.eqb_refl, str_eqb_refl. cbn [andb]. f_equal.
  apply IH. intros e' He'. apply H. right. exact He'.
Qed.

(* THE theorem: a run made of emit sites, behind the session emitter as written and today's append gate, on a healthy
   disk: the log view and the snapshot reproduce the live frames, the live frames are the run's frames, and the stream the
   store will replay is numbered 0,1,2,.. (the validated replay accepts it) *)
Theorem run_of_sites_replays g s key mk p :
  wf_append_gate g = true -> wf_schema s = true -> wf_run p = true ->
  (forall t n, e_seq (mk t n) = n) -> (forall t n, stream_key s (mk t n) = key) -> all_ok s (run_frames mk 0 p) ->
  view_live s key (sess_sinks g s (run_frames mk 0 p)) = run_frames mk 0 p
  /\ view_log s key (sess_sinks g s (run_frames mk 0 p)) = Some (map (canon_event s) (run_frames mk 0 p))
  /\ view_snapshot s key (sess_sinks g s (run_frames mk 0 p)) = Some (map (canon_event s) (run_frames mk 0 p))
  /\ seqs_from 0 (map (canon_event s) (run_frames mk 0 p)) = true.
Proof.
  intros Hg Hs Hw Hseq Hkey Hok. unfold sess_sinks.
  assert (L : view_live s key (run_gated g eo_sess s (healthy (run_frames mk 0 p))) = run_frames mk 0 p).
  { unfold view_live. rewrite (live_is_emitted_sized g eo_sess s _ Hg (or_introl eq_refl)).
    apply of_stream_all. intros e He. unfold run_frames in He. apply in_map_iff in He. destruct He as [x [Hx _]]. subst e. apply Hkey. }
  destruct (views_agree_sized g eo_sess s (run_frames mk 0 p) key Hg (or_introl eq_refl) Hs Hok) as [A [_ C]].
  rewrite L in A, C. split; [exact L|]. split; [exact A|]. split; [exact C|].
  rewrite seqs_from_canon. unfold run_frames. apply (seqs_from_frames mk Hseq).
  destruct (run_numbered 0 p Hw) as [_ [H _]]. exact H.
Qed.

(* ---------- the head of a provider request ---------- *)
Lemma head_code_wf : wf_head head_code = true.
Proof. vm_compute. reflexivity. Qed.

(* a whole (small) run around a head: session_started (slot 7), the head, one more frame (slot 8) *)
Definition run_around (capture : bool) (h : head) : list rstmt := site 7 ++ head_prog capture h ++ site 8.

Lemma run_around_wf capture h : wf_head h = true -> wf_run (run_around capture h) = true.
Proof.
  intro H. unfold wf_head in H. apply andb_true_iff in H. destruct H as [H1 H2].
  assert (Hh : wf_run (head_prog capture h) = true) by (destruct capture; assumption).
  unfold run_around. rewrite (wf_run_sites _ Hh).
  change (site 7) with (flat_map site [7]). change (site 8) with (flat_map site [8]).
  rewrite <- !flat_map_app. apply wf_sites.
Qed.

(* frames of the demo schema: the slot is the id's second character, the seq is what the frame was built with *)
Definition demo_mk (t n : N) : event :=
  {| e_id := [105; t + 48]; e_sid := [116]; e_ts := 1758000000000; e_seq := n; e_var := 0;
     e_fields := [VVal JNull; VOpt None; VOpt None; VVec []; VInt 0%Z] |}.
Definition early_frames : list event := run_frames demo_mk 0 (run_around true head_started_built_early).
Definition late_frames : list event := run_frames demo_mk 0 (run_around true head_capture_emitted_late).
Definition code_frames : list event := run_frames demo_mk 0 (run_around true head_code).

Lemma demo_frames_ok :
  all_ok demo_schema early_frames /\ all_ok demo_schema late_frames /\ all_ok demo_schema code_frames.
Proof. repeat split; repeat constructor; vm_compute; reflexivity. Qed.

Lemma demo_frames_seqs :
  map e_seq early_frames = [0; 1; 1; 3] /\ map e_seq late_frames = [0; 1; 1; 3] /\ map e_seq code_frames = [0; 1; 2; 3]
  /\ map e_id early_frames = [[105; 55]; [105; 48]; [105; 49]; [105; 56]]
  /\ map e_id late_frames = [[105; 55]; [105; 49]; [105; 48]; [105; 56]].
Proof. repeat split; vm_compute; reflexivity. Qed.

Lemma demo_frames_key es : In es [early_frames; late_frames; code_frames] -> forall e, In e es -> stream_key demo_schema e = demo_key.
Proof.
  intros H e He. cbn [In] in H. destruct H as [H|[H|[H|[]]]]; subst es;
    (cbn in He; repeat (destruct He as [He|He]; [subst e; vm_compute; reflexivity|]); destruct He).
Qed.

(* the views agree for ANY list of frames (c03_views_agree_every_size) - so also for a misnumbered run; what breaks is the
   validated replay *)
Theorem head_misnumbered_refuted :
  exists h s key es,
    wf_head h = false /\ wf_schema s = true /\ all_ok s es /\ es = run_frames demo_mk 0 (run_around true h)
    /\ view_live s key (sess_sinks [GSerialize] s es) = es
    /\ view_log s key (sess_sinks [GSerialize] s es) = Some (map (canon_event s) es)
    /\ view_snapshot s key (sess_sinks [GSerialize] s es) = Some (map (canon_event s) es)
    /\ seqs_from 0 (map (canon_event s) es) = false
    /\ run_frames demo_mk 0 (run_around false h) = run_frames demo_mk 0 (run_around false head_code).
Proof.
  exists head_started_built_early, demo_schema, demo_key, early_frames.
  destruct demo_frames_ok as [Hok _].
  assert (Hs : wf_schema demo_schema = true) by (vm_compute; reflexivity).
  assert (Hg : wf_append_gate [GSerialize] = true) by reflexivity.
  assert (L : view_live demo_schema demo_key (sess_sinks [GSerialize] demo_schema early_frames) = early_frames).
  { unfold sess_sinks, view_live. rewrite (live_is_emitted_sized [GSerialize] eo_sess demo_schema _ Hg (or_introl eq_refl)).
    apply of_stream_all. apply (demo_frames_key early_frames). left. reflexivity. }
  destruct (views_agree_sized [GSerialize] eo_sess demo_schema early_frames demo_key Hg (or_introl eq_refl) Hs Hok) as [A [_ C]].
  fold (sess_sinks [GSerialize] demo_schema early_frames) in A, C. rewrite L in A, C.
  split; [vm_compute; reflexivity|]. split; [exact Hs|]. split; [exact Hok|]. split; [reflexivity|].
  split; [exact L|]. split; [exact A|]. split; [exact C|]. split; vm_compute; reflexivity.
Qed.

Theorem head_capture_late_refuted :
  wf_head head_capture_emitted_late = false
  /\ seqs_from 0 (map (canon_event demo_schema) late_frames) = false
  /\ seqs_from 0 (map (canon_event demo_schema) code_frames) = true.
Proof. repeat split; vm_compute; reflexivity. Qed.

(* the theorem at the head AS REGENERATED (any head with the obligation), with and without the switch *)
Theorem run_around_head_replays g s key mk h capture :
  wf_append_gate g = true -> wf_schema s = true -> wf_head h = true ->
  (forall t n, e_seq (mk t n) = n) -> (forall t n, stream_key s (mk t n) = key) ->
  all_ok s (run_frames mk 0 (run_around capture h)) ->
  view_live s key (sess_sinks g s (run_frames mk 0 (run_around capture h))) = run_frames mk 0 (run_around capture h)
  /\ view_log s key (sess_sinks g s (run_frames mk 0 (run_around capture h))) = Some (map (canon_event s) (run_frames mk 0 (run_around capture h)))
  /\ view_snapshot s key (sess_sinks g s (run_frames mk 0 (run_around capture h))) = Some (map (canon_event s) (run_frames mk 0 (run_around capture h)))
  /\ seqs_from 0 (map (canon_event s) (run_frames mk 0 (run_around capture h))) = true.
Proof. intros Hg Hs Hh. apply run_of_sites_replays; try assumption. apply run_around_wf. exact Hh. Qed.

Example run_of_sites_example :
  wf_run (run_around true head_code) = true /\ (forall t n, e_seq (demo_mk t n) = n)
  /\ (forall t n, stream_key demo_schema (demo_mk t n) = demo_key) /\ all_ok demo_schema code_frames
  /\ r_out (rrun 0 (run_around true head_code)) = [(7, 0); (0, 1); (1, 2); (8, 3)]
  /\ r_out (rrun 0 (run_around false head_code)) = [(7, 0); (1, 1); (8, 2)].
Proof.
  split; [vm_compute; reflexivity|]. split; [reflexivity|]. split; [intros; vm_compute; reflexivity|].
  split; [exact (proj2 (proj2 demo_frames_ok))|]. split; vm_compute; reflexivity.
Qed.
