(* C01: the invariant `Inv` (Model/ContInv.v) is preserved by every micro-step of every actor, hence
   the log validates after every schedule; spawn and restart re-establish it. *)
From RipV Require Import Base.Prelude Model.Frames Model.Log Model.ContStore Model.ContInv
  Proofs.LogProofs Proofs.ContStoreProofs.

(* ---------- counting frames ---------- *)
Lemma next_of_snoc_same f l : next_of (fkind f) (sid f) (l ++ [f]) = next_of (fkind f) (sid f) l + 1.
Proof. unfold next_of, nlen. rewrite stream_snoc_same, app_length. cbn [length]. lia. Qed.

Lemma next_of_snoc_other k s f l :
  (fkind f, sid f) <> (k, s) -> next_of k s (l ++ [f]) = next_of k s l.
Proof. intros H. unfold next_of. rewrite stream_snoc_other by exact H. reflexivity. Qed.

Lemma next_of_snoc k s f l :
  next_of k s (l ++ [f]) = next_of k s l + (if in_stream k s f then 1 else 0).
Proof.
  destruct (in_stream k s f) eqn:E.
  - apply in_stream_true in E. destruct E as [<- <-]. apply next_of_snoc_same.
  - rewrite next_of_snoc_other; [lia|]. intros H. inversion H; subst. rewrite in_stream_self in E. discriminate.
Qed.

Lemma is_cont_kind t : is_cont t = true -> kind_of t = KContinuity.
Proof. unfold is_cont. apply skind_eqb_spec. Qed.
Lemma is_sess_kind t : is_sess t = true -> kind_of t = KSession.
Proof. unfold is_sess. apply skind_eqb_spec. Qed.
Lemma is_task_kind t : is_task t = true -> kind_of t = KTask.
Proof. unfold is_task. apply skind_eqb_spec. Qed.

Lemma last_seq_cnext st c q :
  Valid (s_log st) -> last_seq (cstream c (s_log st)) = Some q -> q + 1 = cnext st c.
Proof. intros H E. apply (Valid_last_seq _ _ _ _ H E). Qed.

Lemma last_seq_none_cnext st c : last_seq (cstream c (s_log st)) = None <-> cnext st c = 0.
Proof.
  rewrite last_seq_none_iff. unfold cnext, next_of, nlen, cstream.
  destruct (stream KContinuity c (s_log st)); cbn; split; intros H; try reflexivity; try discriminate; lia.
Qed.

(* load_next_seq_for on a valid log: the number of frames of the thread, or failure when it has none *)
Lemma load_next_spec st c :
  Valid (s_log st) ->
  (exists sd, load_next st c = (Some (cnext st c), sd) /\ cnext st c <> 0)
  \/ (load_next st c = (None, s_side st) /\ cnext st c = 0).
Proof.
  intros HV. unfold load_next. destruct (last_seq (cstream c (s_log st))) as [q|] eqn:E.
  - left. pose proof (last_seq_cnext _ _ _ HV E) as Hq. rewrite Hq. eexists. split; [reflexivity|lia].
  - right. split; [reflexivity|]. apply last_seq_none_cnext. exact E.
Qed.

(* ---------- well-formed programs ---------- *)
Lemma wf_from_cons ph m r :
  wf_from ph (m :: r) = true -> exists ph', next_phase ph m = Some ph' /\ wf_from ph' r = true.
Proof. cbn [wf_from]. destruct (next_phase ph m) as [ph'|]; [|discriminate]. eauto. Qed.

Lemma wf_skip r : forall ph, wf_from ph r = true -> wf_from PIdle (skip_call r) = true.
Proof.
  induction r as [|m r IH]; intros ph H; [reflexivity|]. cbn [skip_call].
  destruct (call_start m) eqn:Ec.
  - destruct (wf_from_cons _ _ _ H) as [ph' [Hn _]].
    destruct m; try discriminate Ec; destruct ph; cbn in Hn;
      repeat match type of Hn with context [if ?b then _ else _] => destruct b end;
      try discriminate Hn; exact H.
  - destruct (wf_from_cons _ _ _ H) as [ph' [_ Hw]]. apply (IH _ Hw).
Qed.

Lemma uses_sess_skip r : uses_sess (skip_call r) = true -> uses_sess r = true.
Proof.
  induction r as [|m r IH]; intros H; [exact H|]. cbn [skip_call] in H.
  destruct (call_start m); [exact H|]. unfold uses_sess. cbn [existsb].
  apply orb_true_iff. right. apply IH. exact H.
Qed.

Lemma uses_sess_tail m r : uses_sess r = true -> uses_sess (m :: r) = true.
Proof. intros H. unfold uses_sess. cbn [existsb]. apply orb_true_iff. right. exact H. Qed.

(* ---------- the seq mutex has one owner ---------- *)
Lemma holder_unique st a b pa pb :
  Inv st -> s_procs st a = Some pa -> s_procs st b = Some pb ->
  holds (p_ph pa) = true -> holds (p_ph pb) = true -> a = b.
Proof.
  intros I Ha Hb Hha Hhb. pose proof (i_lock _ I _ _ Ha Hha) as E1.
  pose proof (i_lock _ I _ _ Hb Hhb) as E2. congruence.
Qed.

Lemma busy_on_holds p c : busy_on p c -> holds (p_ph p) = true.
Proof. unfold busy_on. destruct (p_ph p) as [| | | | | |k sc nx| | |]; try tauto; reflexivity. Qed.

Lemma cont_ok_nonholding st p : holds (p_ph p) = false -> cont_ok st p.
Proof. unfold cont_ok. destruct (p_ph p); try discriminate; intros _; exact I. Qed.

Lemma release_self a : release (Some a) a = None.
Proof. unfold release. rewrite N.eqb_refl. reflexivity. Qed.
Lemma release_other a b : b <> a -> release (Some b) a = Some b.
Proof. intros H. unfold release. destruct (b =? a) eqn:E; [apply N.eqb_eq in E; congruence|reflexivity]. Qed.

(* ---------- clauses depend on few components ---------- *)
Lemma cont_ok_ext st st' p :
  (forall c, s_next st' c = s_next st c) -> (forall c, cnext st' c = cnext st c) ->
  s_fresh st <= s_fresh st' -> cont_ok st p -> cont_ok st' p.
Proof.
  intros Hn Hc Hf. unfold cont_ok. destruct (p_ph p); try (intros; exact I).
  - intros [c [n [H1 [H2 [H3 H4]]]]]. exists c, n. rewrite Hn, Hc. tauto.
  - intros [c [n [f [H1 [H2 [H3 [H4 H5]]]]]]]. exists c, n, f. rewrite Hn, Hc. tauto.
  - intros [c [H1 [H2 [H3 H4]]]]. exists c. rewrite Hn, Hc. repeat split; try assumption; lia.
  - intros [c [H1 [H2 [H3 [H4 [H5 [H6 H7]]]]]]]. exists c. rewrite Hn, Hc. repeat split; try assumption; lia.
Qed.

Lemma task_ok_ext st st' b p :
  s_tmu st' = s_tmu st -> s_tcnt st' = s_tcnt st -> (forall t, tnext st' t = tnext st t) ->
  task_ok st b p -> task_ok st' b p.
Proof.
  intros Hm Hc Ht. unfold task_ok. rewrite Hm, Hc, Ht. tauto.
Qed.

Lemma sess_ok_ext st st' p :
  (forall s, snext st' s = snext st s) -> sess_ok st p -> sess_ok st' p.
Proof. intros Hs H Hu. rewrite Hs. apply H. exact Hu. Qed.

Lemma busy_others st st' a c :
  (forall b, b <> a -> s_procs st' b = s_procs st b) ->
  (forall p, s_procs st a = Some p -> ~ busy_on p c) ->
  busy st c -> busy st' c.
Proof.
  intros Ho Ha [b [pb [Hb Hbz]]]. destruct (N.eq_dec b a) as [->|Hne].
  - exfalso. apply (Ha pb Hb Hbz).
  - exists b, pb. rewrite Ho by exact Hne. tauto.
Qed.

(* ---------- a step of the owner of the seq mutex ---------- *)
Lemma holder_step st st' a p p' :
  Inv st -> s_procs st a = Some p -> holds (p_ph p) = true ->
  s_procs st' = upd (s_procs st) a (Some p') ->
  s_tmu st' = s_tmu st -> s_tcnt st' = s_tcnt st ->
  (forall t, tnext st' t = tnext st t) -> (forall s, snext st' s = snext st s) ->
  Valid (s_log st') ->
  s_mu st' = (if holds (p_ph p') then Some a else None) ->
  wf_from (p_ph p') (p_rem p') = true ->
  cont_ok st' p' -> tholds (p_ph p') = false ->
  p_sess p' = p_sess p -> p_cnt p' = p_cnt p -> (uses_sess (p_rem p') = true -> uses_sess (p_rem p) = true) ->
  (forall c n, s_next st' c = Some n -> n = cnext st' c \/ busy_on p' c) ->
  (forall c, s_fresh st' <= c -> cnext st' c = 0 /\ s_next st' c = None) ->
  Inv st'.
Proof.
  intros Iv Hp Hh Hprocs Htmu Htcnt Htn Hsn HV Hmu Hwf Hco Hth Hse Hcn Hus Hnext Hfresh.
  assert (Hoth : forall b pb, b <> a -> s_procs st b = Some pb -> holds (p_ph pb) = false).
  { intros b pb Hne Hb. destruct (holds (p_ph pb)) eqn:E; [|reflexivity].
    exfalso. apply Hne. apply (holder_unique st b a pb p Iv Hb Hp E Hh). }
  assert (Hget : forall b pb, s_procs st' b = Some pb -> (b = a /\ pb = p') \/ (b <> a /\ s_procs st b = Some pb)).
  { intros b pb Hb. rewrite Hprocs in Hb. unfold upd in Hb. destruct (b =? a) eqn:E.
    - apply N.eqb_eq in E. left. inversion Hb. tauto.
    - apply N.eqb_neq in E. right. tauto. }
  constructor.
  - exact HV.
  - intros c n Hc. destruct (Hnext c n Hc) as [E|E]; [left; exact E|].
    right. exists a, p'. rewrite Hprocs, upd_same. tauto.
  - exact Hfresh.
  - intros b pb Hb Hhb. destruct (Hget b pb Hb) as [[-> ->]|[Hne Hb']].
    + rewrite Hmu, Hhb. reflexivity.
    + rewrite (Hoth b pb Hne Hb') in Hhb. discriminate.
  - intros b pb Hb. destruct (Hget b pb Hb) as [[-> ->]|[Hne Hb']]; [exact Hwf|apply (i_wf _ Iv _ _ Hb')].
  - intros b pb Hb. destruct (Hget b pb Hb) as [[-> ->]|[Hne Hb']]; [exact Hco|].
    apply cont_ok_nonholding. apply (Hoth b pb Hne Hb').
  - intros b pb Hb. destruct (Hget b pb Hb) as [[-> ->]|[Hne Hb']].
    + unfold task_ok. destruct (p_ph p'); try discriminate Hth; exact I.
    + apply (task_ok_ext st); try assumption. apply (i_task _ Iv _ _ Hb').
  - intros t Ht. rewrite Htmu in Ht. rewrite Htcnt, Htn. apply (i_tasks _ Iv _ Ht).
  - intros b pb Hb. destruct (Hget b pb Hb) as [[-> ->]|[Hne Hb']].
    + intros Hu. rewrite Hcn, Hse, Hsn. apply (i_sess _ Iv _ _ Hp). apply Hus. exact Hu.
    + apply (sess_ok_ext st); [exact Hsn|]. apply (i_sess _ Iv _ _ Hb').
  - intros b1 b2 p1 p2 Hne H1 H2 Hu1 Hu2.
    destruct (Hget b1 p1 H1) as [[-> ->]|[Hne1 H1']]; destruct (Hget b2 p2 H2) as [[-> ->]|[Hne2 H2']].
    + congruence.
    + rewrite Hse. apply (i_sessu _ Iv a b2 p p2); auto.
    + rewrite Hse. apply (i_sessu _ Iv b1 a p1 p); auto.
    + apply (i_sessu _ Iv b1 b2 p1 p2); auto.
Qed.

(* ---------- a step of an actor that does not own the seq mutex ---------- *)
Lemma nonholder_step st st' a p p' :
  Inv st -> s_procs st a = Some p -> holds (p_ph p) = false ->
  s_procs st' = upd (s_procs st) a (Some p') ->
  (forall c, s_next st' c = s_next st c) -> (forall c, cnext st' c = cnext st c) ->
  s_fresh st <= s_fresh st' -> Valid (s_log st') ->
  (forall b pb, b <> a -> s_procs st b = Some pb -> holds (p_ph pb) = true -> s_mu st' = Some b) ->
  (holds (p_ph p') = true -> s_mu st' = Some a) -> cont_ok st' p' ->
  wf_from (p_ph p') (p_rem p') = true ->
  (forall b pb, b <> a -> s_procs st b = Some pb -> task_ok st' b pb) -> task_ok st' a p' ->
  (forall t, s_tmu st' t = None -> s_tcnt st' t = tnext st' t) ->
  (forall b pb, b <> a -> s_procs st b = Some pb -> sess_ok st' pb) -> sess_ok st' p' ->
  p_sess p' = p_sess p -> (uses_sess (p_rem p') = true -> uses_sess (p_rem p) = true) ->
  Inv st'.
Proof.
  intros Iv Hp Hh Hprocs Hn Hc Hf HV Hm1 Hm2 Hco Hwf Hto Hta Hts Hso Hsa Hse Hus.
  assert (Hget : forall b pb, s_procs st' b = Some pb -> (b = a /\ pb = p') \/ (b <> a /\ s_procs st b = Some pb)).
  { intros b pb Hb. rewrite Hprocs in Hb. unfold upd in Hb. destruct (b =? a) eqn:E.
    - apply N.eqb_eq in E. left. inversion Hb. tauto.
    - apply N.eqb_neq in E. right. tauto. }
  assert (Hnb : forall c q, s_procs st a = Some q -> ~ busy_on q c).
  { intros c q Hq Hb. rewrite Hp in Hq. inversion Hq; subst q.
    apply busy_on_holds in Hb. congruence. }
  constructor.
  - exact HV.
  - intros c n Hcn. rewrite Hn in Hcn. rewrite Hc. destruct (i_next _ Iv _ _ Hcn) as [E|E]; [left; exact E|].
    right. apply (busy_others st st' a c); [|apply Hnb|exact E].
    intros b Hne. rewrite Hprocs. apply upd_other. exact Hne.
  - intros c Hfc. rewrite Hn, Hc. apply (i_fresh _ Iv). lia.
  - intros b pb Hb Hhb. destruct (Hget b pb Hb) as [[-> ->]|[Hne Hb']].
    + apply Hm2. exact Hhb.
    + apply (Hm1 b pb Hne Hb' Hhb).
  - intros b pb Hb. destruct (Hget b pb Hb) as [[-> ->]|[Hne Hb']]; [exact Hwf|apply (i_wf _ Iv _ _ Hb')].
  - intros b pb Hb. destruct (Hget b pb Hb) as [[-> ->]|[Hne Hb']].
    + exact Hco.
    + apply (cont_ok_ext st); try assumption. apply (i_cont _ Iv _ _ Hb').
  - intros b pb Hb. destruct (Hget b pb Hb) as [[-> ->]|[Hne Hb']]; [exact Hta|apply (Hto _ _ Hne Hb')].
  - exact Hts.
  - intros b pb Hb. destruct (Hget b pb Hb) as [[-> ->]|[Hne Hb']]; [exact Hsa|apply (Hso _ _ Hne Hb')].
  - intros b1 b2 p1 p2 Hne H1 H2 Hu1 Hu2.
    destruct (Hget b1 p1 H1) as [[-> ->]|[Hne1 H1']]; destruct (Hget b2 p2 H2) as [[-> ->]|[Hne2 H2']].
    + congruence.
    + rewrite Hse. apply (i_sessu _ Iv a b2 p p2); auto.
    + rewrite Hse. apply (i_sessu _ Iv b1 a p1 p); auto.
    + apply (i_sessu _ Iv b1 b2 p1 p2); auto.
Qed.

(* the same when neither the log nor the task counters change *)
Lemma nonholder_quiet_step st st' a p p' :
  Inv st -> s_procs st a = Some p -> holds (p_ph p) = false ->
  s_procs st' = upd (s_procs st) a (Some p') ->
  s_log st' = s_log st -> s_next st' = s_next st -> s_fresh st' = s_fresh st ->
  s_tmu st' = s_tmu st -> s_tcnt st' = s_tcnt st ->
  ((s_mu st' = s_mu st /\ holds (p_ph p') = false)
   \/ (s_mu st = None /\ s_mu st' = Some a /\ p_ph p' = PLocked)
   \/ (s_mu st' = release (s_mu st) a /\ holds (p_ph p') = false)) ->
  wf_from (p_ph p') (p_rem p') = true ->
  task_ok st' a p' ->
  p_sess p' = p_sess p -> p_cnt p' = p_cnt p -> (uses_sess (p_rem p') = true -> uses_sess (p_rem p) = true) ->
  Inv st'.
Proof.
  intros Iv Hp Hh Hprocs Hl Hn Hf Htm Htc Hmu Hwf Hta Hse Hcn Hus.
  assert (Ht : forall t, tnext st' t = tnext st t) by (intros t; unfold tnext; rewrite Hl; reflexivity).
  assert (Hs : forall s, snext st' s = snext st s) by (intros s; unfold snext; rewrite Hl; reflexivity).
  apply (nonholder_step st st' a p p'); try assumption.
  - intros c. rewrite Hn. reflexivity.
  - intros c. unfold cnext. rewrite Hl. reflexivity.
  - rewrite Hf. lia.
  - rewrite Hl. apply (i_valid _ Iv).
  - intros b pb Hne Hb Hhb. pose proof (i_lock _ Iv _ _ Hb Hhb) as E.
    destruct Hmu as [[E' _]|[[E' _]|[E' _]]]; try congruence.
    rewrite E', E. apply release_other. exact Hne.
  - intros Hh'. destruct Hmu as [[_ E]|[[_ [E _]]|[_ E]]]; congruence.
  - destruct Hmu as [[_ E]|[[_ [_ E]]|[_ E]]]; try (apply cont_ok_nonholding; exact E).
    unfold cont_ok. rewrite E. exact I.
  - intros b pb _ Hb. apply (task_ok_ext st); try assumption. apply (i_task _ Iv _ _ Hb).
  - intros t Ht0. rewrite Htm in Ht0. rewrite Htc, Ht. apply (i_tasks _ Iv _ Ht0).
  - intros b pb _ Hb. apply (sess_ok_ext st); [exact Hs|]. apply (i_sess _ Iv _ _ Hb).
  - intros Hu. rewrite Hcn, Hse, Hs. apply (i_sess _ Iv _ _ Hp). apply Hus. exact Hu.
Qed.

(* ---------- what one appended frame does to the counters ---------- *)
Lemma in_stream_kind_ne k s f : fkind f <> k -> in_stream k s f = false.
Proof. intros H. apply in_stream_other. intros E. inversion E. congruence. Qed.

Lemma snoc_other_kind k s f l : fkind f <> k -> next_of k s (l ++ [f]) = next_of k s l.
Proof. intros H. rewrite next_of_snoc, in_stream_kind_ne by exact H. lia. Qed.

Lemma snoc_cont_same f l : fkind f = KContinuity ->
  next_of KContinuity (sid f) (l ++ [f]) = next_of KContinuity (sid f) l + 1.
Proof. intros H. rewrite <- H. apply next_of_snoc_same. Qed.

Lemma snoc_same_kind_other k s f l : sid f <> s -> next_of k s (l ++ [f]) = next_of k s l.
Proof. intros H. apply next_of_snoc_other. intros E. inversion E. congruence. Qed.

Lemma mk_frame_kind st c n t ar : fkind (mk_frame st c n t ar) = kind_of t.
Proof. reflexivity. Qed.

Lemma Valid_snoc_intro l f : Valid l -> seq f = next_of (fkind f) (sid f) l -> Valid (l ++ [f]).
Proof. intros H1 H2. apply Valid_snoc. tauto. Qed.

(* ---------- which phases allow which micro-step ---------- *)
Ltac np_solve H :=
  cbn in H; repeat match type of H with context [if ?b then _ else _] => destruct b eqn:? end;
  try discriminate H; inversion H; subst; repeat split; eauto 8.

Lemma np_idle ph m ph' : next_phase ph m = Some ph' ->
  match m with MTarget _ | MPickNewest | MRead => ph = PIdle /\ ph' = PIdle | _ => True end.
Proof. intros H. destruct m; try exact I; destruct ph; np_solve H. Qed.
Lemma np_lock ph ph' : next_phase ph MLock = Some ph' -> ph = PIdle /\ ph' = PLocked.
Proof. intros H. destruct ph; np_solve H. Qed.
Lemma np_choose ph ph' : next_phase ph MChoose = Some ph' -> ph = PLocked /\ ph' = PChosen.
Proof. intros H. destruct ph; np_solve H. Qed.
Lemma np_logappend ph t ar ph' : next_phase ph (MLogAppend t ar) = Some ph' ->
  ph = PChosen /\ ph' = PLogged false /\ is_cont t = true.
Proof. intros H. destruct ph; np_solve H. Qed.
Lemma np_sidecar ph ph' : next_phase ph MSidecar = Some ph' ->
  (exists sc, ph = PLogged sc /\ ph' = PLogged true)
  \/ (exists k sc nx, ph = PChild k sc nx /\ ph' = PChild k true nx).
Proof. intros H. destruct ph; np_solve H. Qed.
Lemma np_bcast ph ph' : next_phase ph MBcast = Some ph' ->
  ph' = ph /\ ((exists sc, ph = PLogged sc) \/ ph = PAdvanced \/ (exists k sc nx, ph = PChild k sc nx) \/ ph = PTChosen).
Proof. intros H. destruct ph; np_solve H. Qed.
Lemma np_advance ph ph' : next_phase ph MAdvance = Some ph' -> ph = PLogged true /\ ph' = PAdvanced.
Proof. intros H. destruct ph; np_solve H. Qed.
Lemma np_unlock ph ph' : next_phase ph MUnlock = Some ph' ->
  ph' = PIdle /\ (ph = PLocked \/ ph = PChosen \/ ph = PAlloc \/ ph = PAdvanced \/ (exists k, ph = PChild k true true) \/ ph = PChild 1 true false).
Proof.
  intros H. destruct ph as [| | |sc0| | |k sc nx| | |]; try (solve [np_solve H]).
  cbn in H. destruct sc; [|discriminate H]. destruct nx; cbn [orb] in H.
  - inversion H. split; [reflexivity|]. right. right. right. right. left. exists k. reflexivity.
  - destruct (k =? 1) eqn:E; [|discriminate H]. apply N.eqb_eq in E. subst k. inversion H. split; [reflexivity|]. repeat right. reflexivity.
Qed.
Lemma np_alloc ph ph' : next_phase ph MAlloc = Some ph' -> ph = PLocked /\ ph' = PAlloc.
Proof. intros H. destruct ph; np_solve H. Qed.
Lemma np_fixed ph n t ar ph' : next_phase ph (MLogAppendFixed n t ar) = Some ph' ->
  is_cont t = true /\
  ((ph = PAlloc /\ n = 0 /\ ph' = PChild 1 false false)
   \/ (exists k sc nx, ph = PChild k sc nx /\ n = k /\ ph' = PChild (k + 1) false false)).
Proof.
  intros H. destruct ph; cbn in H;
    repeat match type of H with context [if ?b then _ else _] => destruct b eqn:? end;
    try discriminate H; inversion H; subst;
    match goal with E : (_ && _)%bool = true |- _ => apply andb_true_iff in E; destruct E as [E1 E2]; apply N.eqb_eq in E1 end;
    subst; split; eauto 10.
Qed.
Lemma np_index ph ph' : next_phase ph MIndexInsert = Some ph' ->
  exists k sc nx, ph = PChild k sc nx /\ ph' = PChild k sc nx.
Proof. intros H. destruct ph; np_solve H. Qed.
Lemma np_setnext ph n ph' : next_phase ph (MSetNext n) = Some ph' ->
  exists k sc nx, ph = PChild k sc nx /\ n = k /\ ph' = PChild k sc true.
Proof.
  intros H. destruct ph; cbn in H;
    repeat match type of H with context [if ?b then _ else _] => destruct b eqn:? end;
    try discriminate H; inversion H; subst;
    match goal with E : (_ =? _) = true |- _ => apply N.eqb_eq in E end; subst; eauto 8.
Qed.
Lemma np_none ph m ph' : next_phase ph m = Some ph' ->
  match m with MSetNextLocked _ | MUnknown => False | _ => True end.
Proof. intros H. destruct m; try exact I; destruct ph; cbn in H; repeat match type of H with context [if ?b then _ else _] => destruct b end; discriminate H. Qed.
Lemma np_sess ph t ph' : next_phase ph (MSessEmit t) = Some ph' -> ph = PIdle /\ ph' = PIdle /\ is_sess t = true.
Proof. intros H. destruct ph; np_solve H. Qed.
Lemma np_tasklock ph ph' : next_phase ph MTaskLock = Some ph' -> ph = PIdle /\ ph' = PTLocked.
Proof. intros H. destruct ph; np_solve H. Qed.
Lemma np_taskchoose ph ph' : next_phase ph MTaskChoose = Some ph' -> ph = PTLocked /\ ph' = PTChosen.
Proof. intros H. destruct ph; np_solve H. Qed.
Lemma np_taskappend ph t ph' : next_phase ph (MTaskAppend t) = Some ph' -> ph = PTChosen /\ ph' = PTLogged /\ is_task t = true.
Proof. intros H. destruct ph; np_solve H. Qed.
Lemma np_taskunlock ph ph' : next_phase ph MTaskUnlock = Some ph' -> ph = PTLogged /\ ph' = PIdle.
Proof. intros H. destruct ph; np_solve H. Qed.

(* ---------- the micro-steps, one by one ---------- *)
Ltac proj := cbn [s_log s_side s_next s_index s_fresh s_mu s_tcnt s_tmu s_procs set_proc set_store
                  set_task p_rem p_ph p_cid p_seq p_last p_child p_sess p_cnt pop pop_same aborted abort].
Ltac proj_in H := cbn [s_log s_side s_next s_index s_fresh s_mu s_tcnt s_tmu s_procs set_proc set_store
                  set_task p_rem p_ph p_cid p_seq p_last p_child p_sess p_cnt pop pop_same aborted abort] in H.

Lemma phase_after_eq ph m ph' : next_phase ph m = Some ph' -> phase_after ph m = ph'.
Proof. intros H. unfold phase_after. rewrite H. reflexivity. Qed.

Lemma task_ok_idle st a p : tholds (p_ph p) = false -> task_ok st a p.
Proof. unfold task_ok. destruct (p_ph p); try discriminate; intros _; exact I. Qed.

Section Step.
  Variables (st : state) (a : N) (p : proc) (m : mstep) (r : list mstep) (ph' : phase).
  Hypothesis Iv : Inv st.
  Hypothesis Hp : s_procs st a = Some p.
  Hypothesis Hr : p_rem p = m :: r.
  Hypothesis Hnp : next_phase (p_ph p) m = Some ph'.
  Hypothesis Hwr : wf_from ph' r = true.

  Lemma Hus_tail : uses_sess r = true -> uses_sess (p_rem p) = true.
  Proof using All. rewrite Hr. apply uses_sess_tail. Qed.

  (* an idle actor moves on without touching anything shared (MTarget, MPickNewest, MRead, MBcast of a task) *)
  Lemma idle_local_step st' p' :
    holds (p_ph p) = false -> ph' = p_ph p ->
    s_procs st' = upd (s_procs st) a (Some p') ->
    s_log st' = s_log st -> s_next st' = s_next st -> s_fresh st' = s_fresh st -> s_mu st' = s_mu st ->
    s_tmu st' = s_tmu st -> s_tcnt st' = s_tcnt st ->
    p_rem p' = r -> p_ph p' = ph' -> p_sess p' = p_sess p -> p_cnt p' = p_cnt p ->
    (tholds (p_ph p) = true -> p_seq p' = p_seq p) ->
    Inv st'.
  Proof using All.
    intros Hh Hsame Hprocs Hl Hn Hf Hmu Htm Htc Hr' Hph' Hse Hcn Hsq.
    apply (nonholder_quiet_step st st' a p p' Iv Hp Hh); try assumption.
    - left. split; [exact Hmu|]. rewrite Hph', Hsame. exact Hh.
    - rewrite Hr', Hph'. exact Hwr.
    - pose proof (i_task _ Iv _ _ Hp) as Hta. unfold task_ok in *. rewrite Htm, Htc. unfold tnext. rewrite Hl.
      rewrite Hph', Hsame, Hse.
      destruct (p_ph p) eqn:E; try exact I; try exact Hta.
      rewrite Hsq by reflexivity. exact Hta.
    - rewrite Hr'. apply Hus_tail.
  Qed.

  Lemma busy_is_me c : holds (p_ph p) = true -> busy st c -> busy_on p c.
  Proof using All.
    intros Hh [b [pb [Hb Hbz]]].
    assert (b = a) by (apply (holder_unique st b a pb p Iv Hb Hp (busy_on_holds _ _ Hbz) Hh)).
    subst b. rewrite Hp in Hb. inversion Hb. subst pb. exact Hbz.
  Qed.

  Lemma mu_is_me : holds (p_ph p) = true -> s_mu st = Some a.
  Proof using All. apply (i_lock _ Iv _ _ Hp). Qed.

  (* the owner moves on without touching the log or the counters (MSidecar, MBcast, MIndexInsert,
     MAlloc, MUnlock, early return) *)
  Lemma holder_quiet_step st' p' :
    holds (p_ph p) = true ->
    s_procs st' = upd (s_procs st) a (Some p') ->
    s_log st' = s_log st -> s_next st' = s_next st -> s_fresh st <= s_fresh st' ->
    s_mu st' = (if holds (p_ph p') then Some a else None) ->
    s_tmu st' = s_tmu st -> s_tcnt st' = s_tcnt st ->
    wf_from (p_ph p') (p_rem p') = true -> tholds (p_ph p') = false ->
    (uses_sess (p_rem p') = true -> uses_sess r = true) ->
    p_sess p' = p_sess p -> p_cnt p' = p_cnt p ->
    cont_ok st' p' -> (forall c, busy_on p c -> busy_on p' c) ->
    Inv st'.
  Proof using All.
    intros Hh Hprocs Hl Hn Hf Hmu Htm Htc Hwf' Hth Hus' Hse Hcn Hco Hbz.
    assert (Hc : forall c, cnext st' c = cnext st c) by (intros c; unfold cnext; rewrite Hl; reflexivity).
    apply (holder_step st st' a p p' Iv Hp Hh); try assumption.
    - intros t. unfold tnext. rewrite Hl. reflexivity.
    - intros t. unfold snext. rewrite Hl. reflexivity.
    - rewrite Hl. apply (i_valid _ Iv).
    - intros Hu. apply Hus_tail. apply Hus'. exact Hu.
    - intros c n Hcn'. rewrite Hn in Hcn'. rewrite Hc. destruct (i_next _ Iv _ _ Hcn') as [E|E]; [left; exact E|].
      right. apply Hbz. apply busy_is_me; assumption.
    - intros c Hfc. rewrite Hc, Hn. apply (i_fresh _ Iv). lia.
  Qed.

  (* the same when the owner lets go of a thread whose counter the cache does not hold (a creation whose index save
     failed: the guard is dropped with the child's counter never recorded) *)
  Lemma holder_release_step st' p' :
    holds (p_ph p) = true ->
    s_procs st' = upd (s_procs st) a (Some p') ->
    s_log st' = s_log st -> s_next st' = s_next st -> s_fresh st <= s_fresh st' ->
    s_mu st' = (if holds (p_ph p') then Some a else None) ->
    s_tmu st' = s_tmu st -> s_tcnt st' = s_tcnt st ->
    wf_from (p_ph p') (p_rem p') = true -> tholds (p_ph p') = false ->
    (uses_sess (p_rem p') = true -> uses_sess r = true) ->
    p_sess p' = p_sess p -> p_cnt p' = p_cnt p ->
    cont_ok st' p' -> (forall c, busy_on p c -> busy_on p' c \/ s_next st c = None) ->
    Inv st'.
  Proof using All.
    intros Hh Hprocs Hl Hn Hf Hmu Htm Htc Hwf' Hth Hus' Hse Hcn Hco Hbz.
    assert (Hc : forall c, cnext st' c = cnext st c) by (intros c; unfold cnext; rewrite Hl; reflexivity).
    apply (holder_step st st' a p p' Iv Hp Hh); try assumption.
    - intros t. unfold tnext. rewrite Hl. reflexivity.
    - intros t. unfold snext. rewrite Hl. reflexivity.
    - rewrite Hl. apply (i_valid _ Iv).
    - intros Hu. apply Hus_tail. apply Hus'. exact Hu.
    - intros c n Hcn'. rewrite Hn in Hcn'. rewrite Hc. destruct (i_next _ Iv _ _ Hcn') as [E|E]; [left; exact E|].
      destruct (Hbz c (busy_is_me c Hh E)) as [B|B]; [right; exact B|congruence].
    - intros c Hfc. rewrite Hc, Hn. apply (i_fresh _ Iv). lia.
  Qed.

  (* the owner appends one frame of thread c carrying the number of frames c has *)
  Lemma holder_append_step st' p' c f :
    holds (p_ph p) = true -> holds ph' = true -> tholds ph' = false ->
    s_procs st' = upd (s_procs st) a (Some p') ->
    s_log st' = s_log st ++ [f] -> s_next st' = s_next st -> s_fresh st' = s_fresh st + 1 ->
    s_mu st' = s_mu st -> s_tmu st' = s_tmu st -> s_tcnt st' = s_tcnt st ->
    fkind f = KContinuity -> sid f = c -> seq f = cnext st c -> c < s_fresh st ->
    p_rem p' = r -> p_ph p' = ph' -> p_sess p' = p_sess p -> p_cnt p' = p_cnt p ->
    cont_ok st' p' -> busy_on p' c -> (forall c', busy_on p c' -> c' = c) ->
    Inv st'.
  Proof using All.
    intros Hh Hh' Hth Hprocs Hl Hn Hf Hmu Htm Htc Hfk Hsid Hseq Hlt Hr' Hph' Hse Hcn Hco Hbz Hbo.
    assert (Hc : forall c', c' <> c -> cnext st' c' = cnext st c').
    { intros c' Hne. unfold cnext. rewrite Hl. apply snoc_same_kind_other. congruence. }
    apply (holder_step st st' a p p' Iv Hp Hh); try assumption.
    - intros t. unfold tnext. rewrite Hl. apply snoc_other_kind. rewrite Hfk. discriminate.
    - intros t. unfold snext. rewrite Hl. apply snoc_other_kind. rewrite Hfk. discriminate.
    - rewrite Hl. apply Valid_snoc_intro; [apply (i_valid _ Iv)|]. rewrite Hfk, Hsid. exact Hseq.
    - rewrite Hph', Hh', Hmu. apply mu_is_me. exact Hh.
    - rewrite Hr', Hph'. exact Hwr.
    - rewrite Hph'. exact Hth.
    - rewrite Hr'. apply Hus_tail.
    - intros c' n Hcn'. rewrite Hn in Hcn'. destruct (N.eq_dec c' c) as [->|Hne]; [right; exact Hbz|].
      rewrite Hc by exact Hne. destruct (i_next _ Iv _ _ Hcn') as [E|E]; [left; exact E|].
      exfalso. apply Hne. apply Hbo. apply busy_is_me; assumption.
    - intros c' Hfc. rewrite Hn. assert (c' <> c) by lia. rewrite Hc by assumption.
      apply (i_fresh _ Iv). lia.
  Qed.

  (* the owner records next seq v = number of frames for thread c *)
  Lemma holder_setnext_step st' p' c v :
    holds (p_ph p) = true -> holds ph' = true -> tholds ph' = false ->
    s_procs st' = upd (s_procs st) a (Some p') ->
    s_log st' = s_log st -> s_next st' = upd (s_next st) c (Some v) -> s_fresh st' = s_fresh st ->
    s_mu st' = s_mu st -> s_tmu st' = s_tmu st -> s_tcnt st' = s_tcnt st ->
    v = cnext st c -> c < s_fresh st ->
    p_rem p' = r -> p_ph p' = ph' -> p_sess p' = p_sess p -> p_cnt p' = p_cnt p ->
    cont_ok st' p' -> (forall c', busy_on p c' -> c' = c) ->
    Inv st'.
  Proof using All.
    intros Hh Hh' Hth Hprocs Hl Hn Hf Hmu Htm Htc Hv Hlt Hr' Hph' Hse Hcn Hco Hbo.
    assert (Hc : forall c', cnext st' c' = cnext st c') by (intros c'; unfold cnext; rewrite Hl; reflexivity).
    apply (holder_step st st' a p p' Iv Hp Hh); try assumption.
    - intros t. unfold tnext. rewrite Hl. reflexivity.
    - intros t. unfold snext. rewrite Hl. reflexivity.
    - rewrite Hl. apply (i_valid _ Iv).
    - rewrite Hph', Hh', Hmu. apply mu_is_me. exact Hh.
    - rewrite Hr', Hph'. exact Hwr.
    - rewrite Hph'. exact Hth.
    - rewrite Hr'. apply Hus_tail.
    - intros c' n Hcn'. rewrite Hn in Hcn'. rewrite Hc. destruct (N.eq_dec c' c) as [->|Hne].
      + rewrite upd_same in Hcn'. inversion Hcn'. left. congruence.
      + rewrite upd_other in Hcn' by exact Hne. destruct (i_next _ Iv _ _ Hcn') as [E|E]; [left; exact E|].
        exfalso. apply Hne. apply Hbo. apply busy_is_me; assumption.
    - intros c' Hfc. rewrite Hc, Hn. rewrite Hf in Hfc. assert (c' <> c) by lia.
      rewrite upd_other by assumption. apply (i_fresh _ Iv). exact Hfc.
  Qed.

  (* early return (`?`) *)
  Lemma idle_abort_inv : holds (p_ph p) = false -> Inv (abort st a p r).
  Proof using All.
    intros Hh. unfold abort.
    match goal with |- Inv ?s => apply (nonholder_quiet_step st s a p (aborted p r) Iv Hp Hh) end; try reflexivity.
    - right. right. split; reflexivity.
    - proj. apply (wf_skip r ph' Hwr).
    - proj. intros Hu. apply Hus_tail. apply uses_sess_skip. exact Hu.
  Qed.

  Lemma holder_abort_inv sd :
    holds (p_ph p) = true -> (forall c, busy_on p c -> False) ->
    Inv (abort (set_store st (s_log st) sd (s_next st) (s_index st) (s_fresh st) (s_mu st)) a p r).
  Proof using All.
    intros Hh Hnb. unfold abort.
    match goal with |- Inv ?s => apply (holder_quiet_step s (aborted p r) Hh) end; try reflexivity.
    - proj. rewrite (mu_is_me Hh). apply release_self.
    - proj. apply (wf_skip r ph' Hwr).
    - proj. apply uses_sess_skip.
    - intros c Hc. destruct (Hnb c Hc).
  Qed.
End Step.

(* ---------- every continuity micro-step preserves the invariant ---------- *)
Ltac pa Hph := unfold phase_after; rewrite Hph; cbn [next_phase].

Ltac sp3 Hnp Hph Hph' := proj; rewrite ?(phase_after_eq _ _ _ Hnp), ?Hph', ?Hph; cbn [holds tholds].

Ltac close_local Hnp Hph Hph' Hmu Hh Hwr Hco :=
  first [ sp3 Hnp Hph Hph'; apply Hmu; exact Hh
        | sp3 Hnp Hph Hph'; rewrite <- Hph'; exact Hwr
        | sp3 Hnp Hph Hph'; reflexivity
        | sp3 Hnp Hph Hph'; tauto
        | unfold cont_ok in *; sp3 Hnp Hph Hph'; rewrite Hph in Hco; exact Hco
        | intros ?c0; unfold busy_on; rewrite Hph; sp3 Hnp Hph Hph'; tauto ].
Ltac holder_local Iv Hp Hr Hnp Hwr Hh Hmu Hco Hph Hph' p' :=
  match goal with |- Inv ?s => apply (holder_quiet_step _ _ _ _ _ _ Iv Hp Hr Hnp Hwr s p' Hh) end;
  try reflexivity; close_local Hnp Hph Hph' Hmu Hh Hwr Hco.

Lemma exec_m_inv_cont st a p m r ph' :
  Inv st -> s_procs st a = Some p -> p_rem p = m :: r ->
  next_phase (p_ph p) m = Some ph' -> wf_from ph' r = true ->
  match m with MSessEmit _ | MTaskLock | MTaskChoose | MTaskAppend _ | MTaskUnlock => False | _ => True end ->
  Inv (exec_m st a p m r).
Proof.
  intros Iv Hp Hr Hnp Hwr Hm.
  pose proof (i_cont _ Iv _ _ Hp) as Hco.
  pose proof (busy_is_me st a p _ r ph' Iv Hp Hr Hnp Hwr) as Hbusy.
  pose proof (mu_is_me st a p _ r ph' Iv Hp Hr Hnp Hwr) as Hmu.
  unfold exec_m. destruct m; try (exfalso; exact Hm); cbn [exec_m_gen].
  - (* MTarget *)
    destruct (np_idle _ _ _ Hnp) as [Hph Hph'].
    match goal with |- Inv ?s => apply (idle_local_step st a p _ r ph' Iv Hp Hr Hnp Hwr s (pop p (MTarget c) r (Some c) (p_seq p) (p_last p) (p_child p) (p_cnt p))) end;
      try reflexivity; try (rewrite Hph; reflexivity); try (rewrite Hph; discriminate).
    + congruence.
    + proj. pa Hph. congruence.
  - (* MPickNewest *)
    destruct (np_idle _ _ _ Hnp) as [Hph Hph'].
    destruct (hd_error (rev (s_index st))) as [c|].
    + match goal with |- Inv ?s => apply (idle_local_step st a p _ r ph' Iv Hp Hr Hnp Hwr s (pop p MPickNewest r (Some c) (p_seq p) (p_last p) (p_child p) (p_cnt p))) end;
        try reflexivity; try (rewrite Hph; reflexivity); try (rewrite Hph; discriminate).
      * congruence.
      * proj. pa Hph. congruence.
    + apply (idle_abort_inv st a p _ r ph' Iv Hp Hr Hnp Hwr). rewrite Hph. reflexivity.
  - (* MLock *)
    destruct (np_lock _ _ Hnp) as [Hph Hph'].
    destruct (s_mu st) eqn:Emu; [exact Iv|].
    match goal with |- Inv ?s => apply (nonholder_quiet_step st s a p (pop_same p MLock r) Iv Hp) end; try reflexivity.
    + rewrite Hph. reflexivity.
    + right. left. proj. pa Hph. auto.
    + proj. pa Hph. rewrite <- Hph'. exact Hwr.
    + apply task_ok_idle. proj. pa Hph. reflexivity.
    + proj. rewrite Hr. apply uses_sess_tail.
  - (* MChoose *)
    destruct (np_choose _ _ Hnp) as [Hph Hph'].
    assert (Hh : holds (p_ph p) = true) by (rewrite Hph; reflexivity).
    assert (Hnb : forall c, busy_on p c -> False) by (intros c; unfold busy_on; rewrite Hph; tauto).
    pose proof (holder_abort_inv st a p _ r ph' Iv Hp Hr Hnp Hwr) as Habort.
    destruct (p_cid p) as [c|] eqn:Ecid; [|apply (Habort (s_side st) Hh Hnb)].
    destruct (s_next st c) as [n|] eqn:En.
    + (* cached *)
      assert (Hn : n = cnext st c).
      { destruct (i_next _ Iv _ _ En) as [E|E]; [exact E|]. destruct (Hnb c (Hbusy c Hh E)). }
      match goal with |- Inv ?s => apply (holder_quiet_step st a p _ r ph' Iv Hp Hr Hnp Hwr s (pop p MChoose r (Some c) (Some n) (p_last p) (p_child p) (p_cnt p)) Hh) end; try reflexivity.
      * sp3 Hnp Hph Hph'. apply Hmu. exact Hh.
      * sp3 Hnp Hph Hph'. rewrite <- Hph'. exact Hwr.
      * sp3 Hnp Hph Hph'. reflexivity.
      * sp3 Hnp Hph Hph'. tauto.
      * unfold cont_ok. sp3 Hnp Hph Hph'. exists c, n. auto.
      * intros c' Hc'. destruct (Hnb c' Hc').
    + (* cold cache: load_next_seq_for *)
      destruct (load_next_spec st c (i_valid _ Iv)) as [[sd [El Hnz]]|[El Hz]]; rewrite El.
      2:{ apply (Habort (s_side st) Hh Hnb). }
      assert (Hlt : c < s_fresh st).
      { destruct (N.lt_ge_cases c (s_fresh st)) as [H|H]; [exact H|]. destruct (i_fresh _ Iv c H) as [H0 _]. congruence. }
      match goal with |- Inv ?s => apply (holder_setnext_step st a p _ r ph' Iv Hp Hr Hnp Hwr s (pop p MChoose r (Some c) (Some (cnext st c)) (p_last p) (p_child p) (p_cnt p)) c (cnext st c) Hh) end; try reflexivity; try assumption.
      * rewrite Hph'. reflexivity.
      * rewrite Hph'. reflexivity.
      * sp3 Hnp Hph Hph'. congruence.
      * unfold cont_ok. sp3 Hnp Hph Hph'. exists c, (cnext st c). repeat split; try reflexivity. apply upd_same.
      * intros c' Hc'. destruct (Hnb c' Hc').
  - (* MLogAppend *)
    destruct (np_logappend _ _ _ _ Hnp) as [Hph [Hph' Hct]].
    assert (Hh : holds (p_ph p) = true) by (rewrite Hph; reflexivity).
    assert (Hnb : forall c, busy_on p c -> False) by (intros c; unfold busy_on; rewrite Hph; tauto).
    unfold cont_ok in Hco. rewrite Hph in Hco. destruct Hco as [c [n [Ec [Es [En Hn]]]]].
    rewrite Ec, Es.
    assert (Hlt : c < s_fresh st).
    { destruct (N.lt_ge_cases c (s_fresh st)) as [H|H]; [exact H|]. destruct (i_fresh _ Iv c H) as [_ H0]. congruence. }
    match goal with |- Inv ?s => apply (holder_append_step st a p _ r ph' Iv Hp Hr Hnp Hwr s (pop p (MLogAppend t ar) r (Some c) (Some n) (Some (mk_frame st c n t ar)) (p_child p) (p_cnt p)) c (mk_frame st c n t ar) Hh) end; try reflexivity; try assumption.
    + rewrite Hph'. reflexivity.
    + rewrite Hph'. reflexivity.
    + apply is_cont_kind. exact Hct.
    + sp3 Hnp Hph Hph'. congruence.
    + unfold cont_ok. sp3 Hnp Hph Hph'. exists c, n, (mk_frame st c n t ar). repeat split; try reflexivity; try assumption.
      unfold cnext. proj. rewrite (snoc_cont_same (mk_frame st c n t ar)) by (apply is_cont_kind; exact Hct).
      rewrite Hn. reflexivity.
    + unfold busy_on. sp3 Hnp Hph Hph'. reflexivity.
    + intros c' Hc'. destruct (Hnb c' Hc').
  - (* MSidecar *)
    destruct (p_last p) as [f|];
      (destruct (np_sidecar _ _ Hnp) as [[sc [Hph Hph']]|[k [sc [nx [Hph Hph']]]]];
       (assert (Hh : holds (p_ph p) = true) by (rewrite Hph; reflexivity));
       holder_local Iv Hp Hr Hnp Hwr Hh Hmu Hco Hph Hph' (pop_same p MSidecar r)).
  - (* MBcast *)
    destruct (np_bcast _ _ Hnp) as [Hph' [[sc Hph]|[Hph|[[k [sc [nx Hph]]]|Hph]]]].
    1-3: (assert (Hh : holds (p_ph p) = true) by (rewrite Hph; reflexivity));
         rewrite Hph in Hph'; holder_local Iv Hp Hr Hnp Hwr Hh Hmu Hco Hph Hph' (pop_same p MBcast r).
    match goal with |- Inv ?s => apply (idle_local_step st a p _ r ph' Iv Hp Hr Hnp Hwr s (pop_same p MBcast r)) end;
      try reflexivity; try (rewrite Hph; reflexivity); try congruence.
    proj. rewrite (phase_after_eq _ _ _ Hnp). reflexivity.
  - (* MAdvance *)
    destruct (np_advance _ _ Hnp) as [Hph Hph'].
    assert (Hh : holds (p_ph p) = true) by (rewrite Hph; reflexivity).
    unfold cont_ok in Hco. rewrite Hph in Hco. destruct Hco as [c [n [f [Ec [Es [En [Hn [El Hs]]]]]]]].
    rewrite Ec, Es.
    assert (Hlt : c < s_fresh st).
    { destruct (N.lt_ge_cases c (s_fresh st)) as [H|H]; [exact H|]. destruct (i_fresh _ Iv c H) as [_ H0]. congruence. }
    match goal with |- Inv ?s => apply (holder_setnext_step st a p _ r ph' Iv Hp Hr Hnp Hwr s (pop p MAdvance r (Some c) None (p_last p) (p_child p) (p_cnt p)) c (n + 1) Hh) end; try reflexivity; try assumption.
    + rewrite Hph'. reflexivity.
    + rewrite Hph'. reflexivity.
    + congruence.
    + sp3 Hnp Hph Hph'. reflexivity.
    + unfold cont_ok. sp3 Hnp Hph Hph'. exact I.
    + intros c'. unfold busy_on. rewrite Hph, Ec. congruence.
  - (* MUnlock *)
    destruct (np_unlock _ _ Hnp) as [Hph' Hcases].
    assert (Hh : holds (p_ph p) = true) by (destruct Hcases as [E|[E|[E|[E|[[k E]|E]]]]]; rewrite E; reflexivity).
    assert (Hrel : forall c, busy_on p c -> s_next st c = None).
    { intros c. unfold busy_on. destruct Hcases as [E|[E|[E|[E|[[k E]|E]]]]]; rewrite E; try tauto.
      intros Ec. unfold cont_ok in Hco. rewrite E in Hco. destruct Hco as [c0 [Ec0 [_ [_ [_ [_ [_ Hnone]]]]]]].
      assert (c0 = c) by congruence. subst c0. apply Hnone; reflexivity. }
    match goal with |- Inv ?s => apply (holder_release_step st a p _ r ph' Iv Hp Hr Hnp Hwr s (pop p MUnlock r (p_cid p) None None (p_child p) (p_cnt p)) Hh) end; try reflexivity.
    + proj. rewrite (phase_after_eq _ _ _ Hnp), Hph'. cbn [holds]. rewrite (Hmu Hh). apply release_self.
    + proj. rewrite (phase_after_eq _ _ _ Hnp). exact Hwr.
    + proj. rewrite (phase_after_eq _ _ _ Hnp), Hph'. reflexivity.
    + proj. tauto.
    + unfold cont_ok. proj. rewrite (phase_after_eq _ _ _ Hnp), Hph'. exact I.
    + intros c Hc. right. apply Hrel. exact Hc.
  - (* MAlloc *)
    destruct (np_alloc _ _ Hnp) as [Hph Hph'].
    assert (Hh : holds (p_ph p) = true) by (rewrite Hph; reflexivity).
    assert (Hnb : forall c, busy_on p c -> False) by (intros c; unfold busy_on; rewrite Hph; tauto).
    match goal with |- Inv ?s => apply (holder_quiet_step st a p _ r ph' Iv Hp Hr Hnp Hwr s (pop p MAlloc r (p_cid p) (p_seq p) (p_last p) (Some (s_fresh st)) (p_cnt p)) Hh) end; try reflexivity.
    + proj. lia.
    + sp3 Hnp Hph Hph'. apply Hmu. exact Hh.
    + sp3 Hnp Hph Hph'. rewrite <- Hph'. exact Hwr.
    + sp3 Hnp Hph Hph'. reflexivity.
    + sp3 Hnp Hph Hph'. tauto.
    + unfold cont_ok. sp3 Hnp Hph Hph'. exists (s_fresh st).
      destruct (i_fresh _ Iv (s_fresh st) (N.le_refl _)) as [H0 H1].
      repeat split; try assumption; try reflexivity. lia.
    + intros c Hc. destruct (Hnb c Hc).
  - (* MLogAppendFixed *)
    destruct (np_fixed _ _ _ _ _ Hnp) as [Hct Hcases].
    assert (Hh : holds (p_ph p) = true) by (destruct Hcases as [[E _]|[k [sc [nx [E _]]]]]; rewrite E; reflexivity).
    assert (Hc : exists c, p_child p = Some c /\ c < s_fresh st /\ cnext st c = n /\ (forall c', busy_on p c' -> c' = c)
                           /\ (n = 0 -> s_next st c = None)).
    { unfold cont_ok in Hco. destruct Hcases as [[E [-> _]]|[k [sc [nx [E [-> _]]]]]]; rewrite E in Hco.
      - destruct Hco as [c [H1 [H2 [H3 H4]]]]. exists c. repeat split; try assumption.
        + intros c'. unfold busy_on. rewrite E. tauto.
        + intros _. exact H4.
      - destruct Hco as [c [H1 [H2 [H3 [H4 [H5 [H6 H7]]]]]]]. exists c. repeat split; try assumption.
        + intros c'. unfold busy_on. rewrite E. destruct nx; [tauto|]. congruence.
        + intros Hk0. lia. }
    destruct Hc as [c [Ec [Hlt [Hn [Hbo Hn0]]]]]. rewrite Ec.
    assert (Hph' : ph' = PChild (n + 1) false false).
    { destruct Hcases as [[_ [-> E]]|[k [sc [nx [_ [-> E]]]]]]; exact E. }
    match goal with |- Inv ?s => apply (holder_append_step st a p _ r ph' Iv Hp Hr Hnp Hwr s (pop p (MLogAppendFixed n t ar) r (p_cid p) (p_seq p) (Some (mk_frame st c n t ar)) (Some c) (p_cnt p)) c (mk_frame st c n t ar) Hh) end; try reflexivity; try assumption.
    + rewrite Hph'. reflexivity.
    + rewrite Hph'. reflexivity.
    + apply is_cont_kind. exact Hct.
    + cbn. congruence.
    + proj. apply (phase_after_eq _ _ _ Hnp).
    + unfold cont_ok. proj. rewrite (phase_after_eq _ _ _ Hnp), Hph'. exists c. repeat split; try reflexivity.
      * lia.
      * unfold cnext. proj. rewrite (snoc_cont_same (mk_frame st c n t ar)) by (apply is_cont_kind; exact Hct).
        unfold cnext in Hn. cbn [sid mk_frame]. rewrite Hn. reflexivity.
      * discriminate.
      * intros f Hf. inversion Hf. reflexivity.
      * lia.
      * intros _ Hk1. proj. apply Hn0. lia.
    + unfold busy_on. proj. rewrite (phase_after_eq _ _ _ Hnp), Hph'. reflexivity.
  - (* MIndexInsert *)
    destruct (np_index _ _ Hnp) as [k [sc [nx [Hph Hph']]]].
    assert (Hh : holds (p_ph p) = true) by (rewrite Hph; reflexivity).
    destruct (p_child p) as [c|] eqn:Ec.
    + holder_local Iv Hp Hr Hnp Hwr Hh Hmu Hco Hph Hph' (pop_same p MIndexInsert r).
    + exfalso. unfold cont_ok in Hco. rewrite Hph in Hco. destruct Hco as [c [H1 _]]. congruence.
  - (* MSetNext *)
    destruct (np_setnext _ _ _ Hnp) as [k [sc [nx [Hph [-> Hph']]]]].
    assert (Hh : holds (p_ph p) = true) by (rewrite Hph; reflexivity).
    unfold cont_ok in Hco. rewrite Hph in Hco. destruct Hco as [c [Ec [Hlt [Hn [Hnx [Hl [Hk1 Hk2]]]]]]].
    rewrite Ec.
    match goal with |- Inv ?s => apply (holder_setnext_step st a p _ r ph' Iv Hp Hr Hnp Hwr s (pop_same p (MSetNext k) r) c k Hh) end; try reflexivity; try assumption.
    + rewrite Hph'. reflexivity.
    + rewrite Hph'. reflexivity.
    + congruence.
    + proj. apply (phase_after_eq _ _ _ Hnp).
    + unfold cont_ok. proj. rewrite (phase_after_eq _ _ _ Hnp), Hph'. exists c. repeat split; try assumption.
      * intros _. apply upd_same.
      * intros Hd. discriminate Hd.
    + intros c'. unfold busy_on. rewrite Hph. destruct nx; [tauto|]. congruence.
  - (* MSetNextLocked *) destruct (np_none _ _ _ Hnp).
  - (* MRead *)
    destruct (np_idle _ _ _ Hnp) as [Hph Hph'].
    destruct (p_cid p) as [c|].
    all: match goal with |- Inv ?s => apply (idle_local_step st a p _ r ph' Iv Hp Hr Hnp Hwr s (pop_same p MRead r)) end;
      try reflexivity; try (rewrite Hph; reflexivity); try (rewrite Hph; discriminate); try congruence;
      try (proj; apply (phase_after_eq _ _ _ Hnp)).
  - (* MUnknown *) destruct (np_none _ _ _ Hnp).
Qed.

(* ---------- session and task emitters ---------- *)
Lemma task_ok_other st st' b pb t0 :
  task_ok st b pb -> (forall t, tnext st' t = tnext st t \/ t = t0) ->
  (forall t, t <> t0 -> s_tmu st' t = s_tmu st t /\ s_tcnt st' t = s_tcnt st t) ->
  (tholds (p_ph pb) = true -> p_sess pb <> t0) -> task_ok st' b pb.
Proof.
  intros H Ht Hu Hne. unfold task_ok in *.
  destruct (p_ph pb); try exact I;
    (assert (Hn : p_sess pb <> t0) by (apply Hne; reflexivity));
    destruct (Hu _ Hn) as [-> ->]; (destruct (Ht (p_sess pb)) as [->|E]; [exact H|congruence]).
Qed.

Lemma emit_step st st' a p p' :
  Inv st -> s_procs st a = Some p -> holds (p_ph p) = false -> holds (p_ph p') = false ->
  s_procs st' = upd (s_procs st) a (Some p') ->
  s_next st' = s_next st -> (forall c, cnext st' c = cnext st c) -> s_fresh st <= s_fresh st' ->
  s_mu st' = s_mu st -> Valid (s_log st') ->
  wf_from (p_ph p') (p_rem p') = true ->
  (forall b pb, b <> a -> s_procs st b = Some pb -> task_ok st' b pb) -> task_ok st' a p' ->
  (forall t, s_tmu st' t = None -> s_tcnt st' t = tnext st' t) ->
  (forall b pb, b <> a -> s_procs st b = Some pb -> sess_ok st' pb) -> sess_ok st' p' ->
  p_sess p' = p_sess p -> (uses_sess (p_rem p') = true -> uses_sess (p_rem p) = true) ->
  Inv st'.
Proof.
  intros Iv Hp Hh Hh' Hprocs Hn Hc Hf Hmu HV Hwf Hto Hta Hts Hso Hsa Hse Hus.
  apply (nonholder_step st st' a p p' Iv Hp Hh Hprocs); try assumption.
  - intros c. rewrite Hn. reflexivity.
  - intros b pb _ Hb Hhb. rewrite Hmu. apply (i_lock _ Iv _ _ Hb Hhb).
  - intros E. congruence.
  - apply cont_ok_nonholding. exact Hh'.
Qed.

Lemma task_quiet_step st st' a p p' :
  Inv st -> s_procs st a = Some p -> holds (p_ph p) = false -> holds (p_ph p') = false ->
  s_procs st' = upd (s_procs st) a (Some p') ->
  s_log st' = s_log st -> s_next st' = s_next st -> s_fresh st' = s_fresh st -> s_mu st' = s_mu st ->
  (forall t, t <> p_sess p -> s_tmu st' t = s_tmu st t /\ s_tcnt st' t = s_tcnt st t) ->
  (s_tmu st (p_sess p) = None \/ s_tmu st (p_sess p) = Some a) ->
  wf_from (p_ph p') (p_rem p') = true -> task_ok st' a p' ->
  (s_tmu st' (p_sess p) = None -> s_tcnt st' (p_sess p) = tnext st (p_sess p)) ->
  p_sess p' = p_sess p -> p_cnt p' = p_cnt p -> (uses_sess (p_rem p') = true -> uses_sess (p_rem p) = true) ->
  Inv st'.
Proof.
  intros Iv Hp Hh Hh' Hprocs Hl Hn Hf Hmu Hu Hfree Hwf Hta Hts Hse Hcn Hus.
  assert (Ht : forall t, tnext st' t = tnext st t) by (intros t; unfold tnext; rewrite Hl; reflexivity).
  assert (Hs : forall t, snext st' t = snext st t) by (intros t; unfold snext; rewrite Hl; reflexivity).
  apply (emit_step st st' a p p' Iv Hp Hh Hh' Hprocs); try assumption.
  - intros c. unfold cnext. rewrite Hl. reflexivity.
  - rewrite Hf. lia.
  - rewrite Hl. apply (i_valid _ Iv).
  - intros b pb Hne Hb. apply (task_ok_other st st' b pb (p_sess p)); [apply (i_task _ Iv _ _ Hb)|auto|exact Hu|].
    intros Hth E. pose proof (i_task _ Iv _ _ Hb) as Hb'. unfold task_ok in Hb'.
    destruct (p_ph pb); try discriminate Hth; rewrite E in Hb'; destruct Hb' as [Hb' _]; destruct Hfree; congruence.
  - intros t Ht0. rewrite Ht. destruct (N.eq_dec t (p_sess p)) as [->|Hne]; [apply Hts; exact Ht0|].
    destruct (Hu t Hne) as [E1 E2]. rewrite E1 in Ht0. rewrite E2. apply (i_tasks _ Iv _ Ht0).
  - intros b pb _ Hb. apply (sess_ok_ext st); [exact Hs|apply (i_sess _ Iv _ _ Hb)].
  - intros Hu'. rewrite Hcn, Hse, Hs. apply (i_sess _ Iv _ _ Hp). apply Hus. exact Hu'.
Qed.

Lemma exec_m_inv_emit st a p m r ph' :
  Inv st -> s_procs st a = Some p -> p_rem p = m :: r ->
  next_phase (p_ph p) m = Some ph' -> wf_from ph' r = true ->
  match m with MSessEmit _ | MTaskLock | MTaskChoose | MTaskAppend _ | MTaskUnlock => True | _ => False end ->
  Inv (exec_m st a p m r).
Proof.
  intros Iv Hp Hr Hnp Hwr Hm.
  pose proof (i_task _ Iv _ _ Hp) as Hta.
  assert (Hlock : forall st', s_mu st' = s_mu st -> forall b pb, b <> a -> s_procs st b = Some pb -> holds (p_ph pb) = true -> s_mu st' = Some b).
  { intros st' E b pb _ Hb Hhb. rewrite E. apply (i_lock _ Iv _ _ Hb Hhb). }
  assert (Hother : forall b pb, b <> a -> s_procs st b = Some pb -> tholds (p_ph pb) = true ->
                   s_tmu st (p_sess p) = None \/ s_tmu st (p_sess p) = Some a -> p_sess pb <> p_sess p).
  { intros b pb Hne Hb Hth Hfree E. pose proof (i_task _ Iv _ _ Hb) as Hb'. unfold task_ok in Hb'.
    destruct (p_ph pb); try discriminate Hth; rewrite E in Hb'; destruct Hb' as [Hb' _]; destruct Hfree; congruence. }
  unfold exec_m. destruct m; try (exfalso; exact Hm); cbn [exec_m_gen].
  - (* MSessEmit *)
    destruct (np_sess _ _ _ Hnp) as [Hph [Hph' Hst]].
    set (f := mk_frame st (p_sess p) (p_cnt p) t []).
    assert (Hfk : fkind f = KSession) by (apply is_sess_kind; exact Hst).
    assert (Hus : uses_sess (p_rem p) = true) by (rewrite Hr; reflexivity).
    match goal with |- Inv ?s => apply (emit_step st s a p (pop p (MSessEmit t) r (p_cid p) (p_seq p) (p_last p) (p_child p) (p_cnt p + 1)) Iv Hp) end; try reflexivity.
    + rewrite Hph. reflexivity.
    + proj. rewrite (phase_after_eq _ _ _ Hnp), Hph'. reflexivity.
    + intros c. unfold cnext. proj. apply snoc_other_kind. rewrite Hfk. discriminate.
    + proj. lia.
    + proj. apply Valid_snoc_intro; [apply (i_valid _ Iv)|]. rewrite Hfk. apply (i_sess _ Iv _ _ Hp Hus).
    + proj. rewrite (phase_after_eq _ _ _ Hnp). exact Hwr.
    + intros b pb _ Hb. apply (task_ok_ext st); try reflexivity; [|apply (i_task _ Iv _ _ Hb)].
      intros t0. unfold tnext. proj. apply snoc_other_kind. rewrite Hfk. discriminate.
    + apply task_ok_idle. proj. rewrite (phase_after_eq _ _ _ Hnp), Hph'. reflexivity.
    + intros t0 Ht0. proj_in Ht0. proj. unfold tnext. proj. rewrite snoc_other_kind by (rewrite Hfk; discriminate).
      apply (i_tasks _ Iv _ Ht0).
    + intros b pb Hne Hb Hu. unfold snext. proj.
      rewrite snoc_same_kind_other; [apply (i_sess _ Iv _ _ Hb Hu)|].
      cbn [sid f mk_frame]. intros E. apply (i_sessu _ Iv a b p pb); auto.
    + intros Hu. proj. unfold snext. proj.
      pose proof (next_of_snoc_same f (s_log st)) as E. rewrite Hfk in E. cbn [sid f mk_frame] in E. rewrite E.
      rewrite (i_sess _ Iv _ _ Hp Hus). reflexivity.
    + proj. rewrite Hr. apply uses_sess_tail.
  - (* MTaskLock *)
    destruct (np_tasklock _ _ Hnp) as [Hph Hph'].
    destruct (s_tmu st (p_sess p)) eqn:Etm; [exact Iv|].
    match goal with |- Inv ?s => apply (task_quiet_step st s a p (pop_same p MTaskLock r) Iv Hp) end; try reflexivity.
    + rewrite Hph. reflexivity.
    + proj. rewrite (phase_after_eq _ _ _ Hnp), Hph'. reflexivity.
    + intros t0 Hne. proj. rewrite upd_other by exact Hne. auto.
    + left. exact Etm.
    + proj. rewrite (phase_after_eq _ _ _ Hnp). exact Hwr.
    + unfold task_ok. proj. rewrite (phase_after_eq _ _ _ Hnp), Hph'. rewrite upd_same. split; [reflexivity|].
      apply (i_tasks _ Iv _ Etm).
    + proj. rewrite upd_same. discriminate.
    + proj. rewrite Hr. apply uses_sess_tail.
  - (* MTaskChoose *)
    destruct (np_taskchoose _ _ Hnp) as [Hph Hph'].
    unfold task_ok in Hta. rewrite Hph in Hta. destruct Hta as [Htm Htc].
    match goal with |- Inv ?s => apply (task_quiet_step st s a p (pop p MTaskChoose r (p_cid p) (Some (s_tcnt st (p_sess p))) (p_last p) (p_child p) (p_cnt p)) Iv Hp) end; try reflexivity.
    + rewrite Hph. reflexivity.
    + proj. rewrite (phase_after_eq _ _ _ Hnp), Hph'. reflexivity.
    + intros t0 Hne. proj. rewrite upd_other by exact Hne. auto.
    + right. exact Htm.
    + proj. rewrite (phase_after_eq _ _ _ Hnp). exact Hwr.
    + unfold task_ok. proj. rewrite (phase_after_eq _ _ _ Hnp), Hph'. split; [exact Htm|].
      exists (s_tcnt st (p_sess p)). rewrite upd_same. repeat split; try reflexivity. exact Htc.
    + proj. rewrite Htm. discriminate.
    + proj. rewrite Hr. apply uses_sess_tail.
  - (* MTaskAppend *)
    destruct (np_taskappend _ _ _ Hnp) as [Hph [Hph' Htt]].
    unfold task_ok in Hta. rewrite Hph in Hta. destruct Hta as [Htm [n [Es [Hn Htc]]]].
    rewrite Es.
    set (f := mk_frame st (p_sess p) n t []).
    assert (Hfk : fkind f = KTask) by (apply is_task_kind; exact Htt).
    match goal with |- Inv ?s => apply (emit_step st s a p (pop p (MTaskAppend t) r (p_cid p) None (p_last p) (p_child p) (p_cnt p)) Iv Hp) end; try reflexivity.
    + rewrite Hph. reflexivity.
    + proj. rewrite (phase_after_eq _ _ _ Hnp), Hph'. reflexivity.
    + intros c. unfold cnext. proj. apply snoc_other_kind. rewrite Hfk. discriminate.
    + proj. lia.
    + proj. apply Valid_snoc_intro; [apply (i_valid _ Iv)|]. rewrite Hfk. exact Hn.
    + proj. rewrite (phase_after_eq _ _ _ Hnp). exact Hwr.
    + intros b pb Hne Hb. apply (task_ok_other st _ b pb (p_sess p)); [apply (i_task _ Iv _ _ Hb)| | |].
      * intros t0. destruct (N.eq_dec t0 (p_sess p)) as [->|Hne0]; [right; reflexivity|left].
        unfold tnext. proj. apply snoc_same_kind_other. cbn [sid f mk_frame]. congruence.
      * intros t0 _. proj. auto.
      * intros Hth. apply (Hother b pb Hne Hb Hth). right. exact Htm.
    + unfold task_ok. proj. rewrite (phase_after_eq _ _ _ Hnp), Hph'. split; [exact Htm|].
      rewrite Htc. unfold tnext. proj.
      pose proof (next_of_snoc_same f (s_log st)) as E. rewrite Hfk in E. cbn [sid f mk_frame] in E. rewrite E.
      unfold tnext in Hn. rewrite Hn. reflexivity.
    + intros t0 Ht0. proj_in Ht0. proj. assert (t0 <> p_sess p) by congruence.
      unfold tnext. proj. rewrite snoc_same_kind_other by (cbn [sid f mk_frame]; congruence).
      apply (i_tasks _ Iv _ Ht0).
    + intros b pb _ Hb. apply (sess_ok_ext st); [|apply (i_sess _ Iv _ _ Hb)].
      intros s0. unfold snext. proj. apply snoc_other_kind. rewrite Hfk. discriminate.
    + intros Hu. proj. unfold snext. proj. rewrite snoc_other_kind by (rewrite Hfk; discriminate).
      apply (i_sess _ Iv _ _ Hp). rewrite Hr. apply uses_sess_tail. exact Hu.
    + proj. rewrite Hr. apply uses_sess_tail.
  - (* MTaskUnlock *)
    destruct (np_taskunlock _ _ Hnp) as [Hph Hph'].
    unfold task_ok in Hta. rewrite Hph in Hta. destruct Hta as [Htm Htc].
    match goal with |- Inv ?s => apply (task_quiet_step st s a p (pop_same p MTaskUnlock r) Iv Hp) end; try reflexivity.
    + rewrite Hph. reflexivity.
    + proj. rewrite (phase_after_eq _ _ _ Hnp), Hph'. reflexivity.
    + intros t0 Hne. proj. rewrite upd_other by exact Hne. auto.
    + right. exact Htm.
    + proj. rewrite (phase_after_eq _ _ _ Hnp). exact Hwr.
    + apply task_ok_idle. proj. rewrite (phase_after_eq _ _ _ Hnp), Hph'. reflexivity.
    + proj. intros _. exact Htc.
    + proj. rewrite Hr. apply uses_sess_tail.
Qed.

(* ---------- every micro-step, every schedule ---------- *)
Lemma exec_m_inv st a p m r :
  Inv st -> s_procs st a = Some p -> p_rem p = m :: r -> Inv (exec_m st a p m r).
Proof.
  intros Iv Hp Hr. pose proof (i_wf _ Iv _ _ Hp) as Hwf. rewrite Hr in Hwf.
  destruct (wf_from_cons _ _ _ Hwf) as [ph' [Hnp Hwr]].
  destruct m;
    first [ apply (exec_m_inv_cont st a p _ r ph' Iv Hp Hr Hnp Hwr I)
          | apply (exec_m_inv_emit st a p _ r ph' Iv Hp Hr Hnp Hwr I) ].
Qed.

Theorem step_inv st a : Inv st -> Inv (step st a).
Proof.
  intros Iv. unfold step, step_gen. destruct (s_procs st a) as [p|] eqn:Hp; [|exact Iv].
  destruct (p_rem p) as [|m r] eqn:Hr; [exact Iv|]. apply (exec_m_inv st a p m r Iv Hp Hr).
Qed.

Theorem run_inv sched : forall st, Inv st -> Inv (run sched st).
Proof.
  induction sched as [|a r IH]; intros st Iv; rewrite ?run_nil, ?run_cons; [exact Iv|].
  apply IH. apply step_inv. exact Iv.
Qed.

(* ---------- spawning actors on a store, quiescence, restart ---------- *)
Lemma procs_of_in ps : forall i a p,
  procs_of i ps a = Some p -> exists x, In x ps /\ p = new_proc (fst x) (snd x).
Proof.
  induction ps as [|[prog s] r IH]; intros i a p H; cbn [procs_of] in H; [discriminate|].
  unfold upd in H. destruct (a =? i).
  - inversion H. exists (prog, s). split; [left; reflexivity|reflexivity].
  - destruct (IH _ _ _ H) as [x [Hx E]]. exists x. split; [right; exact Hx|exact E].
Qed.

Lemma procs_of_lt ps : forall i a p, procs_of i ps a = Some p -> i <= a.
Proof.
  induction ps as [|[prog s] r IH]; intros i a p H; cbn [procs_of] in H; [discriminate|].
  unfold upd in H. destruct (a =? i) eqn:E.
  - apply N.eqb_eq in E. lia.
  - apply IH in H. lia.
Qed.

Lemma procs_of_sessu ps : sess_distinct ps -> forall i a b pa pb,
  a <> b -> procs_of i ps a = Some pa -> procs_of i ps b = Some pb ->
  uses_sess (p_rem pa) = true -> uses_sess (p_rem pb) = true -> p_sess pa <> p_sess pb.
Proof.
  induction ps as [|[prog s] r IH]; intros Hd i a b pa pb Hne Ha Hb Hua Hub; cbn [procs_of] in *; [discriminate|].
  destruct Hd as [Hd1 Hd2]. unfold upd in Ha, Hb.
  destruct (a =? i) eqn:Ea; destruct (b =? i) eqn:Eb.
  - apply N.eqb_eq in Ea, Eb. congruence.
  - inversion Ha; subst pa. cbn in Hua. destruct (procs_of_in _ _ _ _ Hb) as [x [Hx E]]. subst pb. cbn in *.
    rewrite Forall_forall in Hd1. specialize (Hd1 Hua x Hx Hub). congruence.
  - inversion Hb; subst pb. cbn in Hub. destruct (procs_of_in _ _ _ _ Ha) as [x [Hx E]]. subst pa. cbn in *.
    rewrite Forall_forall in Hd1. specialize (Hd1 Hub x Hx Hua). congruence.
  - apply (IH Hd2 (i + 1) a b pa pb Hne Ha Hb Hua Hub).
Qed.

Theorem spawn_inv ps st :
  SInv st -> progs_wf ps -> sess_fresh st ps -> sess_distinct ps -> Inv (spawn ps st).
Proof.
  intros S Hwf Hsf Hsd.
  assert (Hnew : forall a p, s_procs (spawn ps st) a = Some p -> exists x, In x ps /\ p = new_proc (fst x) (snd x)).
  { intros a p H. cbn in H. apply (procs_of_in _ _ _ _ H). }
  constructor.
  - apply (si_valid _ S).
  - intros c n H. left. apply (si_next _ S _ _ H).
  - apply (si_fresh _ S).
  - intros a p H Hh. destruct (Hnew a p H) as [x [_ ->]]. discriminate Hh.
  - intros a p H. destruct (Hnew a p H) as [x [Hx ->]]. cbn. unfold progs_wf in Hwf.
    rewrite Forall_forall in Hwf. apply (Hwf x Hx).
  - intros a p H. destruct (Hnew a p H) as [x [_ ->]]. exact I.
  - intros a p H. destruct (Hnew a p H) as [x [_ ->]]. exact I.
  - apply (si_tasks _ S).
  - intros a p H. destruct (Hnew a p H) as [x [Hx ->]]. intros Hu. cbn in *.
    unfold sess_fresh in Hsf. rewrite Forall_forall in Hsf. symmetry. apply (Hsf x Hx Hu).
  - intros a b pa pb Hne Ha Hb. cbn in Ha, Hb. apply (procs_of_sessu ps Hsd 0 a b pa pb Hne Ha Hb).
Qed.

(* when every actor is outside a call the store part of the invariant holds again: more actors
   may be spawned (histories of any length) *)
Theorem idle_sinv st : Inv st -> AllIdle st -> SInv st.
Proof.
  intros Iv Hid. constructor.
  - apply (i_valid _ Iv).
  - intros c n H. destruct (i_next _ Iv _ _ H) as [E|[a [p [Hp Hb]]]]; [exact E|].
    apply busy_on_holds in Hb. rewrite (Hid a p Hp) in Hb. discriminate.
  - apply (i_fresh _ Iv).
  - apply (i_tasks _ Iv).
Qed.

Theorem empty_sinv : SInv empty_state.
Proof.
  constructor; cbn.
  - apply Valid_nil.
  - intros c n H. discriminate.
  - intros c _. split; reflexivity.
  - intros t _. reflexivity.
Qed.

(* a restart at ANY point (actors killed wherever they are, sidecars in any condition) *)
Theorem restart_sinv st :
  Valid (s_log st) -> (forall c, s_fresh st <= c -> cnext st c = 0) -> SInv (restart st).
Proof.
  intros HV Hf. constructor; cbn.
  - exact HV.
  - intros c n H. discriminate.
  - intros c Hc. split; [apply (Hf c Hc)|reflexivity].
  - intros t _. reflexivity.
Qed.

Lemma inv_restartable st : Inv st -> Restartable st.
Proof.
  intros Iv. constructor; [apply (i_valid _ Iv)|]. intros c Hc. apply (i_fresh _ Iv c Hc).
Qed.

(* ---------- the theorems of C01 ---------- *)
Theorem valid_all_schedules ps sched st :
  SInv st -> progs_wf ps -> sess_fresh st ps -> sess_distinct ps ->
  Valid (s_log (run sched (spawn ps st))).
Proof.
  intros S Hwf Hsf Hsd. apply i_valid. apply run_inv. apply spawn_inv; assumption.
Qed.

Theorem validate_all_schedules ps sched st :
  SInv st -> progs_wf ps -> sess_fresh st ps -> sess_distinct ps ->
  validate (s_log (run sched (spawn ps st))) = true.
Proof. intros. apply validate_spec. apply valid_all_schedules; assumption. Qed.

Theorem valid_after_restart ps sched ps' sched' st :
  SInv st -> progs_wf ps -> sess_fresh st ps -> sess_distinct ps ->
  let crashed := run sched (spawn ps st) in
  progs_wf ps' -> sess_fresh (restart crashed) ps' -> sess_distinct ps' ->
  Valid (s_log (run sched' (spawn ps' (restart crashed)))).
Proof.
  intros S Hwf Hsf Hsd crashed Hwf' Hsf' Hsd'.
  assert (Iv : Inv crashed) by (apply run_inv; apply spawn_inv; assumption).
  apply valid_all_schedules; try assumption.
  destruct (inv_restartable _ Iv) as [HV Hf]. apply restart_sinv; assumption.
Qed.

Theorem valid_restart_any_store ps sched st :
  Restartable st -> progs_wf ps -> sess_fresh (restart st) ps -> sess_distinct ps ->
  Valid (s_log (run sched (spawn ps (restart st)))).
Proof.
  intros [HV Hf] Hwf Hsf Hsd. apply valid_all_schedules; try assumption. apply restart_sinv; assumption.
Qed.

Theorem sinv_after_quiescence ps sched st :
  SInv st -> progs_wf ps -> sess_fresh st ps -> sess_distinct ps ->
  AllIdle (run sched (spawn ps st)) -> SInv (run sched (spawn ps st)).
Proof. intros S Hwf Hsf Hsd Hid. apply idle_sinv; [|exact Hid]. apply run_inv. apply spawn_inv; assumption. Qed.

(* ---------- the call skeletons are well-formed programs ---------- *)
Lemma wf_from_app a : forall ph b, wf_from ph a = true -> wf_prog b = true -> wf_from ph (a ++ b) = true.
Proof.
  induction a as [|m a IH]; intros ph b Ha Hb.
  - cbn in Ha. destruct ph; try discriminate Ha. exact Hb.
  - cbn [app wf_from] in *. destruct (next_phase ph m) as [ph'|]; [|discriminate]. apply IH; assumption.
Qed.

Lemma wf_prog_app a b : wf_prog a = true -> wf_prog b = true -> wf_prog (a ++ b) = true.
Proof. apply wf_from_app. Qed.

Lemma wf_prog_concat ls : Forall (fun x => wf_prog x = true) ls -> wf_prog (concat ls) = true.
Proof.
  induction 1 as [|x l Hx Hl IH]; [reflexivity|]. cbn [concat]. apply wf_prog_app; assumption.
Qed.

Lemma wf_locked_call c t ar : is_cont t = true -> wf_prog (MTarget c :: locked_append t ar) = true.
Proof. intros H. unfold wf_prog, locked_append. cbn [wf_from next_phase]. rewrite H. reflexivity. Qed.
Lemma wf_post_newest : wf_prog (MPickNewest :: locked_append EContinuityMessageAppended []) = true.
Proof. reflexivity. Qed.
Lemma wf_create ar : wf_prog (create_prog ar) = true.
Proof. reflexivity. Qed.
Lemma wf_lineage t a1 a2 : is_cont t = true -> wf_prog (lineage_prog t a1 a2) = true.
Proof. intros H. destruct t; try discriminate H; reflexivity. Qed.
Lemma wf_session ts : forallb is_sess ts = true -> wf_prog (session_prog ts) = true.
Proof.
  induction ts as [|t r IH]; intros H; [reflexivity|]. cbn [forallb] in H. apply andb_true_iff in H.
  destruct H as [H1 H2]. unfold wf_prog, session_prog. cbn [map wf_from next_phase]. rewrite H1. apply IH. exact H2.
Qed.
Lemma wf_task_emit t : is_task t = true -> wf_prog (task_emit t) = true.
Proof. intros H. unfold wf_prog, task_emit. cbn [wf_from next_phase]. rewrite H. reflexivity. Qed.

Definition cop_ok (o : cop) : bool :=
  match o with OAppend t _ => is_cont t | OTaskEmit t => is_task t | _ => true end.

Lemma wf_prog_of_cop l o : cop_ok o = true -> wf_prog (prog_of_cop l o) = true.
Proof.
  destruct o; cbn [cop_ok prog_of_cop]; intros H.
  - apply wf_locked_call. exact H.
  - apply wf_post_newest.
  - apply (wf_prog_app [MTarget _; MRead]); [reflexivity|apply wf_lineage; reflexivity].
  - apply (wf_prog_app [MTarget _; MRead]); [reflexivity|apply wf_lineage; reflexivity].
  - reflexivity.
  - apply wf_task_emit. exact H.
Qed.

(* the actors of a correspondence case satisfy the hypotheses of the theorem *)
Lemma actors_of_wf l acts :
  forallb (forallb cop_ok) acts = true -> progs_wf (actors_of l acts).
Proof.
  unfold progs_wf, actors_of. induction acts as [|ops r IH]; intros H; cbn [map]; constructor.
  - cbn [forallb] in H. apply andb_true_iff in H. destruct H as [H _]. cbn [fst].
    apply wf_prog_concat. induction ops as [|o os IHo]; cbn [map]; constructor.
    + cbn [forallb] in H. apply andb_true_iff in H. apply wf_prog_of_cop. tauto.
    + apply IHo. cbn [forallb] in H. apply andb_true_iff in H. tauto.
  - apply IH. cbn [forallb] in H. apply andb_true_iff in H. tauto.
Qed.

(* ---------- witnesses (named constants, computed once) ---------- *)
Definition w_st0 : state :=
  snd (run_calls empty_state [KCap CapEnsureDefault 0%nat fact_ok;
                              KCap (CapAppend EContinuityMessageAppended) 0%nat fact_ok]).
(* S5: branch as it was (lineage frame outside the seq mutex) against a post to the newest listed thread *)
Definition w_s5_actors : list (list mstep * N) :=
  [(prog_of_cop_unfixed (s_log w_st0) (OBranch 0%nat), 0); (prog_of_cop (s_log w_st0) OPostNewest, 0)].
Definition w_s5_fixed : list (list mstep * N) :=
  [(prog_of_cop (s_log w_st0) (OBranch 0%nat), 0); (prog_of_cop (s_log w_st0) OPostNewest, 0)].
Definition w_s5_sched : list N := repeat 0 8 ++ repeat 1 8 ++ repeat 0 6.
Lemma w_s5_unfixed_invalid : validate (s_log (run w_s5_sched (spawn w_s5_actors w_st0))) = false.
Proof. vm_compute. reflexivity. Qed.
Lemma w_s5_seqs :
  map seq (cstream 3 (s_log (run w_s5_sched (spawn w_s5_actors w_st0)))) = [0; 1; 1].
Proof. vm_compute. reflexivity. Qed.

(* S3: load_next_seq_for as it was (sidecar tail) after a restart on a stale well-formed prefix *)
Definition w_s3_st0 : state :=
  snd (run_calls empty_state [KCap CapEnsureDefault 0%nat fact_ok;
                              KCap (CapAppend EContinuityMessageAppended) 0%nat fact_ok;
                              KCap (CapAppend EContinuityMessageAppended) 0%nat fact_ok;
                              KFault XCutLine 0%nat; KRestart]).
Definition w_s3_actors : list (list mstep * N) :=
  [(prog_of_cop (s_log w_s3_st0) (OAppend EContinuityMessageAppended 0%nat), 0)].
Lemma w_s3_unfixed_invalid :
  validate (s_log (run_gen load_next_unfixed (repeat 0 8) (spawn w_s3_actors w_s3_st0))) = false.
Proof. vm_compute. reflexivity. Qed.
Lemma w_s3_fixed_valid :
  validate (s_log (run (repeat 0 8) (spawn w_s3_actors w_s3_st0))) = true
  /\ nlen (s_log (run (repeat 0 8) (spawn w_s3_actors w_s3_st0))) = 4.
Proof. vm_compute. split; reflexivity. Qed.

(* S6: two runs on one session id *)
Definition w_s6_actors : list (list mstep * N) :=
  [(session_prog [ESessionStarted; ESessionEnded], 7); (session_prog [ESessionStarted], 7)].
Lemma w_s6_invalid : validate (s_log (run [0; 1] (spawn w_s6_actors empty_state))) = false.
Proof. vm_compute. reflexivity. Qed.
Lemma w_s6_hyps : progs_wf w_s6_actors /\ sess_fresh empty_state w_s6_actors.
Proof. split; repeat constructor. Qed.

(* non-vacuity: five actors (create, post to newest, a run, two pumps of one task) on the empty store *)
Definition w_ex_actors : list (list mstep * N) :=
  [(create_prog [], 0);
   (MPickNewest :: locked_append EContinuityMessageAppended [], 0);
   (session_prog [ESessionStarted; EOutputTextDelta; ESessionEnded], 7);
   (task_emit EToolTaskSpawned ++ task_emit EToolTaskOutputDelta, 9);
   (task_emit EToolTaskOutputDelta, 9)].
Definition w_ex_sched : list N :=
  [0; 3; 3; 0; 4; 2; 0; 0; 3; 3; 3; 0; 0; 0; 4; 4; 4; 4; 1; 1; 2; 1; 1; 1; 1; 3; 3; 1; 1; 2; 3; 3; 3]
  ++ repeat 0 4 ++ repeat 1 8 ++ repeat 4 5 ++ repeat 3 10.
Lemma w_ex_hyps :
  SInv empty_state /\ progs_wf w_ex_actors /\ sess_fresh empty_state w_ex_actors /\ sess_distinct w_ex_actors.
Proof.
  split; [apply empty_sinv|]. split; [repeat constructor|]. split; [repeat constructor|].
  cbn. repeat split; try (intros; discriminate); try (intros; repeat constructor; cbn; intros; discriminate).
Qed.
Lemma w_ex_log :
  canon_log (s_log (run w_ex_sched (spawn w_ex_actors empty_state)))
  = [0; 0; 0;  1; 0; 3;  2; 0; 30;  2; 1; 34;  0; 1; 1;  0; 2; 2;  1; 1; 4;  2; 2; 34].
Proof. vm_compute. reflexivity. Qed.

(* ---------- the task counter (TaskEmitter::emit) ---------- *)
Definition task_actors (es : list (etype * N)) : list (list mstep * N) :=
  map (fun e => (task_emit (fst e), snd e)) es.

Lemma task_actors_wf es : Forall (fun e => is_task (fst e) = true) es -> progs_wf (task_actors es).
Proof.
  unfold progs_wf, task_actors. induction 1 as [|e l He Hl IH]; cbn [map]; constructor; [|exact IH].
  cbn [fst]. apply wf_task_emit. exact He.
Qed.
Lemma task_actors_sess_fresh st es : sess_fresh st (task_actors es).
Proof.
  unfold sess_fresh, task_actors. induction es as [|e l IH]; cbn [map]; constructor; [|exact IH].
  cbn. intros H. discriminate H.
Qed.
Lemma task_actors_no_sess es : Forall (fun y => uses_sess (fst y) = false) (task_actors es).
Proof. unfold task_actors. induction es as [|e l IH]; cbn [map]; constructor; [reflexivity|exact IH]. Qed.
Lemma task_actors_sess_distinct es : sess_distinct (task_actors es).
Proof.
  unfold task_actors. induction es as [|e l IH]; cbn [map sess_distinct]; [exact I|].
  split; [|exact IH]. cbn. intros H. discriminate H.
Qed.

(* any number of emitters (stdout pump, stderr pump, control paths) on any tasks, any schedule *)
Theorem task_counter_valid es sched st :
  SInv st -> Forall (fun e => is_task (fst e) = true) es ->
  Valid (s_log (run sched (spawn (task_actors es) st))).
Proof.
  intros S H. apply valid_all_schedules; [exact S|apply task_actors_wf; exact H|
    apply task_actors_sess_fresh|apply task_actors_sess_distinct].
Qed.

(* the same call with a guard that ends before the log append (the counter alone is protected) *)
Definition task_emit_narrow (t : etype) : list mstep :=
  [MTaskLock; MTaskChoose; MTaskUnlock; MBcast; MTaskAppend t].
Definition w_task_narrow_actors : list (list mstep * N) :=
  [(task_emit_narrow EToolTaskOutputDelta, 9); (task_emit_narrow EToolTaskOutputDelta, 9)].
Definition w_task_narrow_sched : list N := [0; 0; 0; 1; 1; 1; 1; 1; 0; 0].
Lemma w_task_narrow_invalid :
  validate (s_log (run w_task_narrow_sched (spawn w_task_narrow_actors empty_state))) = false
  /\ map seq (s_log (run w_task_narrow_sched (spawn w_task_narrow_actors empty_state))) = [1; 0].
Proof. vm_compute. split; reflexivity. Qed.
