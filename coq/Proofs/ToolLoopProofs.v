(* C16 — proofs about Model/ToolLoop.v: collector (completion only at done events, distinct call ids with the
   fix, drain = stable sort), tool_choice enforcement by shape, and the loop (run relation + the theorems of
   Props/C16.v). *)
From Coq Require Import Strings.String Strings.Ascii.
From RipV Require Import Base.Prelude Base.Json Model.ToolLoop.
From Coq Require Import Permutation Sorted.

(* ---------------------------------------------------------------- strings *)
Lemma str_eqb_eq a b : str_eqb a b = true <-> a = b.
Proof. apply lN_eqb_spec. Qed.
Lemma str_eqb_refl a : str_eqb a a = true.
Proof. apply str_eqb_eq; reflexivity. Qed.
Lemma str_eqb_neq a b : str_eqb a b = false <-> a <> b.
Proof.
  split.
  - intros H E. apply str_eqb_eq in E. congruence.
  - intros H. destruct (str_eqb a b) eqn:E; [apply str_eqb_eq in E; contradiction | reflexivity].
Qed.

(* ---------------------------------------------------------------- drain = stable sort by output_index *)
Lemma ins_call_perm x l : Permutation (ins_call x l) (x :: l).
Proof.
  induction l as [|y r IH]; cbn [ins_call]; [apply Permutation_refl|].
  destruct (c_oi x <=? c_oi y); [apply Permutation_refl|].
  eapply perm_trans; [apply perm_skip, IH | apply perm_swap].
Qed.

Lemma sort_calls_perm l : Permutation (sort_calls l) l.
Proof.
  induction l as [|x r IH]; cbn [sort_calls]; [constructor|].
  eapply perm_trans; [apply ins_call_perm | apply perm_skip, IH].
Qed.

Definition oi_le (a b : call) : Prop := c_oi a <= c_oi b.

Lemma ins_call_sorted x l : StronglySorted oi_le l -> StronglySorted oi_le (ins_call x l).
Proof.
  induction l as [|y r IH]; intros Hs; cbn [ins_call].
  - constructor; constructor.
  - destruct (c_oi x <=? c_oi y) eqn:E.
    + constructor; [exact Hs|].
      inversion Hs as [|? ? Hr Hy]; subst.
      constructor; [unfold oi_le; lia|].
      eapply Forall_impl; [|exact Hy]. intros z Hz. unfold oi_le in *. lia.
    + inversion Hs as [|? ? Hr Hy]; subst.
      constructor; [apply IH; exact Hr|].
      eapply Permutation_Forall; [apply Permutation_sym, ins_call_perm|].
      constructor; [unfold oi_le; lia | exact Hy].
Qed.

Lemma sort_calls_sorted l : StronglySorted oi_le (sort_calls l).
Proof.
  induction l as [|x r IH]; cbn [sort_calls]; [constructor | apply ins_call_sorted, IH].
Qed.

(* stability: calls with the same output index keep their completion order *)
Lemma ins_call_filter k x l :
  filter (fun c => c_oi c =? k) (ins_call x l)
  = if c_oi x =? k then x :: filter (fun c => c_oi c =? k) l else filter (fun c => c_oi c =? k) l.
Proof.
  induction l as [|y r IH]; cbn [ins_call filter]; [reflexivity|].
  destruct (c_oi x <=? c_oi y) eqn:E; cbn [filter].
  - reflexivity.
  - rewrite IH. destruct (c_oi y =? k) eqn:Ey; destruct (c_oi x =? k) eqn:Ex; try reflexivity.
    exfalso. lia.
Qed.

Lemma sort_calls_stable k l :
  filter (fun c => c_oi c =? k) (sort_calls l) = filter (fun c => c_oi c =? k) l.
Proof.
  induction l as [|x r IH]; cbn [sort_calls filter]; [reflexivity|].
  rewrite ins_call_filter, IH. reflexivity.
Qed.

Lemma drain_perm c : Permutation (drain c) (k_done c).
Proof. apply sort_calls_perm. Qed.

(* ---------------------------------------------------------------- collector: what observe does to k_done *)
(* an `output_item.done` event carrying a function_call item *)
Definition is_fc_done (ev : json) : bool :=
  match ev with
  | JObj obj =>
    match get_str K_type obj with
    | Some ty =>
      str_eqb ty S_item_done &&
      match obind (jget K_item obj) as_obj with
      | Some item => match get_str K_type item with Some t => str_eqb t S_function_call | None => false end
      | None => false
      end
    | None => false
    end
  | _ => false
  end.

Definition grows (fx : bool) (d d' : list call) : Prop :=
  d' = d \/ exists x, d' = push_done fx d x.

Lemma k_done_obs_item fx c obj dn :
  k_done (obs_item fx c obj dn) = k_done c \/
  (dn = true /\
   (match obind (jget K_item obj) as_obj with
    | Some item => match get_str K_type item with Some t => str_eqb t S_function_call | None => false end
    | None => false
    end) = true /\
   exists x, k_done (obs_item fx c obj dn) = push_done fx (k_done c) x).
Proof.
  unfold obs_item.
  destruct (obind (jget K_item obj) as_obj) as [item|]; [|left; reflexivity].
  destruct (match get_str K_type item with Some t => str_eqb t S_function_call | None => false end) eqn:Et;
    cbn [negb]; [|left; reflexivity].
  repeat match goal with
  | |- context [match ?x with _ => _ end] => destruct x eqn:?; cbn [k_done]; try (left; reflexivity)
  end.
  all: right; split; [reflexivity|]; split; [reflexivity|]; eexists; reflexivity.
Qed.

Lemma k_done_obs_args c obj dn : k_done (obs_args c obj dn) = k_done c.
Proof.
  unfold obs_args. destruct (get_str K_item_id obj); [|reflexivity]. reflexivity.
Qed.

Lemma k_done_observe fx c ev :
  k_done (observe fx c ev) = k_done c \/
  (is_fc_done ev = true /\ exists x, k_done (observe fx c ev) = push_done fx (k_done c) x).
Proof.
  unfold observe, is_fc_done.
  destruct ev as [| | | |?|obj]; try (left; reflexivity).
  set (c1 := match nonempty _ with Some id => _ | None => c end).
  assert (H1 : k_done c1 = k_done c).
  { subst c1. destruct (nonempty _); reflexivity. }
  destruct (get_str K_type obj) as [ty|]; [|left; exact H1].
  destruct (str_eqb ty S_item_added) eqn:Ea.
  { destruct (k_done_obs_item fx c1 obj false) as [H|(H & _)]; [left; congruence | discriminate]. }
  destruct (str_eqb ty S_item_done) eqn:Ed.
  { destruct (k_done_obs_item fx c1 obj true) as [H|(_ & Ht & x & Hx)]; [left; congruence|].
    right. cbn [andb]. split; [exact Ht|]. exists x. rewrite Hx, H1. reflexivity. }
  destruct (str_eqb ty S_args_delta); [left; rewrite k_done_obs_args; exact H1|].
  destruct (str_eqb ty S_args_done); [left; rewrite k_done_obs_args; exact H1|].
  left; exact H1.
Qed.

Lemma push_done_length fx d x : (length (push_done fx d x) <= S (length d))%nat.
Proof.
  unfold push_done. destruct (fx && has_call_id (c_id x) d); [lia|]. rewrite app_length. cbn. lia.
Qed.

Lemma has_call_id_false ci l : has_call_id ci l = false -> ~ In ci (map c_id l).
Proof.
  unfold has_call_id. induction l as [|y r IH]; cbn [existsb map In]; [tauto|].
  intros H. apply orb_false_iff in H. destruct H as [Hy Hr].
  intros [E|Hin]; [|exact (IH Hr Hin)].
  apply str_eqb_neq in Hy. congruence.
Qed.

Lemma push_done_nodup d x : NoDup (map c_id d) -> NoDup (map c_id (push_done true d x)).
Proof.
  intros Hd. unfold push_done. cbn [andb].
  destruct (has_call_id (c_id x) d) eqn:E; [exact Hd|].
  rewrite map_app. cbn [map].
  eapply Permutation_NoDup; [apply Permutation_cons_append|].
  constructor; [apply has_call_id_false; exact E | exact Hd].
Qed.

(* generalised fold *)
Lemma collect_from_length fx evs c :
  (length (k_done (fold_left (observe fx) evs c)) <= length (k_done c) + length (filter is_fc_done evs))%nat.
Proof.
  revert c. induction evs as [|ev r IH]; intros c; cbn [fold_left filter]; [lia|].
  specialize (IH (observe fx c ev)).
  destruct (k_done_observe fx c ev) as [H|(Hd & x & Hx)].
  - rewrite H in IH. destruct (is_fc_done ev); cbn [length]; lia.
  - rewrite Hd. cbn [length]. rewrite Hx in IH. pose proof (push_done_length fx (k_done c) x). lia.
Qed.

Lemma collect_from_nodup evs c :
  NoDup (map c_id (k_done c)) -> NoDup (map c_id (k_done (fold_left (observe true) evs c))).
Proof.
  revert c. induction evs as [|ev r IH]; intros c Hc; cbn [fold_left]; [exact Hc|].
  apply IH. destruct (k_done_observe true c ev) as [H|(_ & x & Hx)].
  - rewrite H; exact Hc.
  - rewrite Hx. apply push_done_nodup; exact Hc.
Qed.

(* no more completed calls than done events of function-call items *)
Lemma collect_length fx evs :
  (length (k_done (collect fx evs)) <= length (filter is_fc_done evs))%nat.
Proof. unfold collect. pose proof (collect_from_length fx evs coll0). cbn in H. exact H. Qed.

Lemma collect_nodup evs : NoDup (map c_id (k_done (collect FIXED evs))).
Proof. unfold collect, FIXED. apply collect_from_nodup. constructor. Qed.

Lemma drain_nodup evs : NoDup (map c_id (drain (collect FIXED evs))).
Proof.
  eapply Permutation_NoDup; [|apply collect_nodup].
  apply Permutation_map, Permutation_sym, drain_perm.
Qed.

Lemma drain_length fx evs : (length (drain (collect fx evs)) <= length (filter is_fc_done evs))%nat.
Proof.
  rewrite (Permutation_length (drain_perm _)). apply collect_length.
Qed.


(* ---------------------------------------------------------------- a well-formed done event completes its call *)
(* an `output_item.done` event whose function_call item carries a non-empty call id and a name
   (the item id may be missing: the collector falls back to the call id) *)
Definition wf_done (ev : json) (cid : str) : Prop :=
  exists obj item nm,
    ev = JObj obj /\ get_str K_type obj = Some S_item_done /\
    obind (jget K_item obj) as_obj = Some item /\
    get_str K_type item = Some S_function_call /\
    get_str K_call_id item = Some cid /\ cid <> [] /\ get_str K_name item = Some nm.

Lemma push_done_keeps fx d x y : In y (map c_id d) -> In y (map c_id (push_done fx d x)).
Proof.
  intros H. unfold push_done. destruct (fx && has_call_id (c_id x) d); [exact H|].
  rewrite map_app. apply in_or_app. left; exact H.
Qed.

Lemma has_call_id_true ci l : has_call_id ci l = true -> In ci (map c_id l).
Proof.
  unfold has_call_id. intros H. apply existsb_exists in H. destruct H as (x & Hin & Hx).
  apply str_eqb_eq in Hx. subst ci. apply in_map; exact Hin.
Qed.

Lemma push_done_has fx d x : In (c_id x) (map c_id (push_done fx d x)).
Proof.
  unfold push_done. destruct fx; cbn [andb].
  - destruct (has_call_id (c_id x) d) eqn:E; [apply has_call_id_true; exact E|].
    rewrite map_app. apply in_or_app. right. left. reflexivity.
  - rewrite map_app. apply in_or_app. right. left. reflexivity.
Qed.

Lemma observe_keeps fx c ev y : In y (map c_id (k_done c)) -> In y (map c_id (k_done (observe fx c ev))).
Proof.
  intros H. destruct (k_done_observe fx c ev) as [E|(_ & x & E)]; rewrite E; [exact H|].
  apply push_done_keeps; exact H.
Qed.

Lemma fold_observe_keeps fx evs : forall c y,
  In y (map c_id (k_done c)) -> In y (map c_id (k_done (fold_left (observe fx) evs c))).
Proof.
  induction evs as [|ev r IH]; intros c y H; cbn [fold_left]; [exact H|].
  apply IH. apply observe_keeps; exact H.
Qed.

(* item ids remembered per call id are never empty *)
Definition ids_ok (c : coll) : Prop := forall k v, aget k (k_ids c) = Some v -> v <> [].

Lemma aget_aset {V} k k' (v : V) l :
  aget k (aset k' v l) = if str_eqb k k' then Some v else aget k l.
Proof.
  induction l as [|[k0 v0] r IH]; cbn [aset aget].
  - destruct (str_eqb k k'); reflexivity.
  - destruct (str_eqb k' k0) eqn:E0; cbn [aget].
    + apply str_eqb_eq in E0. subst k0. destruct (str_eqb k k'); reflexivity.
    + rewrite IH. destruct (str_eqb k k') eqn:E1; [|reflexivity].
      apply str_eqb_eq in E1. subst k'. rewrite E0. reflexivity.
Qed.

Lemma k_ids_obs_item fx c obj dn :
  k_ids (obs_item fx c obj dn) = k_ids c \/
  exists cid iid, iid <> [] /\ k_ids (obs_item fx c obj dn) = aset cid iid (k_ids c).
Proof.
  unfold obs_item.
  repeat match goal with
  | |- context [match ?x with _ => _ end] => destruct x eqn:?; cbn [k_ids]; try (left; reflexivity)
  end.
  all: right; eexists; eexists; split; [|reflexivity]; discriminate.
Qed.

Lemma k_ids_obs_args c obj dn : k_ids (obs_args c obj dn) = k_ids c.
Proof. unfold obs_args. destruct (get_str K_item_id obj); reflexivity. Qed.

Lemma ids_ok_observe fx c ev : ids_ok c -> ids_ok (observe fx c ev).
Proof.
  intros Hc. unfold observe.
  destruct ev as [| | | |?|obj]; try exact Hc.
  set (c1 := match nonempty _ with Some id => _ | None => c end).
  assert (H1 : k_ids c1 = k_ids c) by (subst c1; destruct (nonempty _); reflexivity).
  assert (Hc1 : ids_ok c1) by (unfold ids_ok; rewrite H1; exact Hc).
  assert (Hitem : forall dn, ids_ok (obs_item fx c1 obj dn)).
  { intros dn. destruct (k_ids_obs_item fx c1 obj dn) as [E|(cid & iid & Hne & E)]; unfold ids_ok; rewrite E.
    - exact Hc1.
    - intros k v. rewrite aget_aset. destruct (str_eqb k cid); [intros H; inversion H; subst; exact Hne | apply Hc1]. }
  assert (Hargs : forall dn, ids_ok (obs_args c1 obj dn)).
  { intros dn. unfold ids_ok. rewrite k_ids_obs_args. exact Hc1. }
  destruct (get_str K_type obj) as [ty|]; [|exact Hc1].
  destruct (str_eqb ty S_item_added); [apply Hitem|].
  destruct (str_eqb ty S_item_done); [apply Hitem|].
  destruct (str_eqb ty S_args_delta); [apply Hargs|].
  destruct (str_eqb ty S_args_done); [apply Hargs|].
  exact Hc1.
Qed.

Lemma ids_ok_fold fx evs : forall c, ids_ok c -> ids_ok (fold_left (observe fx) evs c).
Proof.
  induction evs as [|ev r IH]; intros c H; cbn [fold_left]; [exact H|]. apply IH, ids_ok_observe, H.
Qed.

Lemma ids_ok_coll0 : ids_ok coll0.
Proof. intros k v H. discriminate H. Qed.

Lemma observe_wf_done fx c ev cid :
  ids_ok c -> wf_done ev cid -> In cid (map c_id (k_done (observe fx c ev))).
Proof.
  intros Hok (obj & item & nm & -> & Ht & Hi & Hit & Hc & Hne & Hn).
  unfold observe. rewrite Ht.
  replace (str_eqb S_item_done S_item_added) with false by reflexivity.
  rewrite str_eqb_refl.
  set (c1 := match nonempty _ with Some id => _ | None => c end).
  assert (H1 : k_ids c1 = k_ids c) by (subst c1; destruct (nonempty _); reflexivity).
  unfold obs_item. rewrite Hi, Hit, str_eqb_refl. cbn [negb].
  rewrite Hc, Hn.
  destruct cid as [|c0 cr]; [contradiction|]. cbn [nonempty orelse obind].
  match goal with |- context [match ?e with [] => c1 | _ :: _ => _ end] => destruct e as [|i0 ir] eqn:Eid end.
  - exfalso. revert Eid.
    destruct (get_str K_id item) as [[|a b]|]; cbn [nonempty orelse].
    + destruct (aget (c0 :: cr) (k_ids c1)) as [v|] eqn:E2; cbn [orelse]; [|discriminate].
      intros ->. rewrite H1 in E2. exact (Hok _ _ E2 eq_refl).
    + discriminate.
    + destruct (aget (c0 :: cr) (k_ids c1)) as [v|] eqn:E2; cbn [orelse]; [|discriminate].
      intros ->. rewrite H1 in E2. exact (Hok _ _ E2 eq_refl).
  - cbn [k_done].
    match goal with |- In _ (map c_id (push_done fx ?d ?x)) => apply (push_done_has fx d x) end.
Qed.

(* every well-formed done event of an answer puts its call id among the drained calls *)
Lemma emitted_call_drained fx evs1 ev evs2 cid :
  wf_done ev cid -> In cid (map c_id (drain (collect fx (evs1 ++ ev :: evs2)))).
Proof.
  intros Hw. eapply Permutation_in; [apply Permutation_map, Permutation_sym, drain_perm|].
  unfold collect. rewrite fold_left_app. cbn [fold_left].
  apply fold_observe_keeps. apply observe_wf_done; [|exact Hw].
  apply ids_ok_fold, ids_ok_coll0.
Qed.

(* ---------------------------------------------------------------- tool_choice enforcement by shape *)
Lemma enforce_none : enforce (JStr S_none) = NoTools.
Proof. reflexivity. Qed.

Lemma enforce_string s : s <> S_none -> enforce (JStr s) = AllFunctions.
Proof. intros H. cbn [enforce]. apply str_eqb_neq in H. rewrite H. reflexivity. Qed.

Lemma enforce_other_value v :
  match v with JStr _ | JObj _ => False | _ => True end -> enforce v = AllFunctions.
Proof. destruct v; cbn; tauto. Qed.

Lemma enforce_object_other obj :
  match get_str K_type obj with
  | Some ty => ty <> S_function /\ ty <> S_allowed_tools
  | None => True
  end -> enforce (JObj obj) = AllFunctions.
Proof.
  cbn [enforce]. destruct (get_str K_type obj) as [ty|]; [|reflexivity].
  intros [H1 H2]. apply str_eqb_neq in H1. apply str_eqb_neq in H2. rewrite H1, H2. reflexivity.
Qed.

Lemma allows_function obj n :
  get_str K_type obj = Some S_function ->
  (allows (enforce (JObj obj)) n = true <-> (get_str K_name obj = Some n /\ n <> [])).
Proof.
  intros Ht. cbn [enforce]. rewrite Ht, str_eqb_refl.
  destruct (get_str K_name obj) as [[|c r]|]; cbn [nonempty allows existsb].
  - split; [discriminate | intros [E Hn]; inversion E; subst; contradiction].
  - rewrite orb_false_r, str_eqb_eq. split.
    + intros ->. split; [reflexivity | discriminate].
    + intros [E _]. inversion E. reflexivity.
  - split; [discriminate | intros [E _]; discriminate].
Qed.

Lemma in_allowed_tool_name t n :
  In n (allowed_tool_name t) <->
  exists o, t = JObj o /\ get_str K_type o = Some S_function /\ get_str K_name o = Some n /\ n <> [].
Proof.
  unfold allowed_tool_name. split.
  - destruct t as [| | | | |o]; try (cbn; tauto).
    destruct (get_str K_type o) as [ty|] eqn:Et; [|cbn; tauto].
    destruct (str_eqb ty S_function) eqn:Ef; [|cbn; tauto].
    apply str_eqb_eq in Ef. subst ty.
    destruct (get_str K_name o) as [[|c r]|] eqn:En; cbn [nonempty In]; try tauto.
    intros [E|[]]. subst n. exists o. repeat split; try assumption. discriminate.
  - intros (o & -> & Et & En & Hn). rewrite Et, str_eqb_refl, En.
    destruct n; [contradiction|]. cbn. left; reflexivity.
Qed.

Lemma allows_allowed_tools obj n :
  get_str K_type obj = Some S_allowed_tools ->
  (allows (enforce (JObj obj)) n = true <->
   (get_str K_mode obj <> Some S_none /\
    exists tools t, obind (jget K_tools obj) as_arr = Some tools /\ In t tools /\ In n (allowed_tool_name t))).
Proof.
  intros Ht. cbn [enforce]. rewrite Ht.
  replace (str_eqb S_allowed_tools S_function) with false by reflexivity.
  rewrite str_eqb_refl.
  destruct (get_str K_mode obj) as [m|] eqn:Em.
  - destruct (str_eqb m S_none) eqn:E.
    + apply str_eqb_eq in E. subst m. cbn [allows]. split; [discriminate | intros [H _]; exfalso; apply H; reflexivity].
    + apply str_eqb_neq in E.
      destruct (obind (jget K_tools obj) as_arr) as [tools|]; cbn [allows].
      * rewrite existsb_exists. split.
        -- intros (x & Hin & Hx). apply str_eqb_eq in Hx. subst x.
           apply in_flat_map in Hin. destruct Hin as (t & Ht1 & Ht2).
           split; [congruence|]. exists tools, t. auto.
        -- intros (_ & tools' & t & E1 & Hin & Hn). inversion E1; subst tools'.
           exists n. split; [apply in_flat_map; exists t; auto | apply str_eqb_refl].
      * cbn [existsb]. split; [discriminate | intros (_ & tools & t & E1 & _); discriminate].
  - destruct (obind (jget K_tools obj) as_arr) as [tools|]; cbn [allows].
    + rewrite existsb_exists. split.
      * intros (x & Hin & Hx). apply str_eqb_eq in Hx. subst x.
        apply in_flat_map in Hin. destruct Hin as (t & Ht1 & Ht2).
        split; [discriminate|]. exists tools, t. auto.
      * intros (_ & tools' & t & E1 & Hin & Hn). inversion E1; subst tools'.
        exists n. split; [apply in_flat_map; exists t; auto | apply str_eqb_refl].
    + cbn [existsb]. split; [discriminate | intros (_ & tools & t & E1 & _); discriminate].
Qed.

(* ---------------------------------------------------------------- run_calls *)
Lemma run_calls_spec e tool calls : forall count nexec xs cnt ne hit,
  run_calls e tool count nexec calls = (xs, cnt, ne, hit) ->
  map x_call xs = firstn (length xs) calls /\
  Forall (fun x => x_ran x = allows e (c_name (x_call x))) xs /\
  Forall (fun x => x_ran x = false -> x_out x = reject_output (x_call x)) xs /\
  cnt = count + nlen xs /\
  (count <= MAX_TOOL_CALLS -> cnt <= MAX_TOOL_CALLS) /\
  (hit = false -> map x_call xs = calls) /\
  (hit = true -> cnt = MAX_TOOL_CALLS \/ MAX_TOOL_CALLS < count).
Proof.
  unfold nlen.
  induction calls as [|c r IH]; intros count nexec xs cnt ne hit H; cbn [run_calls] in H.
  - inversion H; subst. cbn. repeat split; auto; try lia; discriminate.
  - destruct (MAX_TOOL_CALLS <=? count) eqn:Em.
    + inversion H; subst. cbn. repeat split; auto; try lia; try discriminate.
    + destruct (allows e (c_name c)) eqn:Ea.
      * destruct (run_calls e tool (count + 1) (nexec + 1) r) as [[[xs' cnt'] ne'] hit'] eqn:Er.
        inversion H; subst. specialize (IH _ _ _ _ _ _ Er).
        destruct IH as (I1 & I2 & I3 & I4 & I5 & I6 & I7).
        cbn [map length firstn x_call]. repeat split.
        -- f_equal; exact I1.
        -- constructor; [cbn; congruence | exact I2].
        -- constructor; [cbn; discriminate | exact I3].
        -- cbn [length]. lia.
        -- intros Hc. apply I5. lia.
        -- intros Hh. f_equal. apply I6; exact Hh.
        -- intros Hh. destruct (I7 Hh); [left; assumption | right; lia].
      * destruct (run_calls e tool (count + 1) nexec r) as [[[xs' cnt'] ne'] hit'] eqn:Er.
        inversion H; subst. specialize (IH _ _ _ _ _ _ Er).
        destruct IH as (I1 & I2 & I3 & I4 & I5 & I6 & I7).
        cbn [map length firstn x_call]. repeat split.
        -- f_equal; exact I1.
        -- constructor; [cbn; congruence | exact I2].
        -- constructor; [cbn; reflexivity | exact I3].
        -- cbn [length]. lia.
        -- intros Hc. apply I5. lia.
        -- intros Hh. f_equal. apply I6; exact Hh.
        -- intros Hh. destruct (I7 Hh); [left; assumption | right; lia].
Qed.

(* ---------------------------------------------------------------- the loop as a relation *)
Section Run.
Variable g : cfg.
Variable valid : N -> request -> bool.
Variable tool : N -> call -> str.
Variable prompt : str.

Definition next_state (s s1 : lst) (prev : option str) (calls : list call) (xs : list xcall) (cnt ne : N) : lst :=
  let hist1 := if g_stateless g then s_hist s1 ++ map call_item calls else s_hist s1 in
  let outs := outputs_for (g_stateless g) xs in
  {| s_prev := prev; s_follow := Some outs; s_count := cnt; s_nexec := ne;
     s_hist := if g_stateless g then hist1 ++ outs else hist1;
     s_init := s_init s1; s_idx := s_idx s + 1 |}.

(* how a run ends after its last request was sent *)
Inductive last_iter (script : list round) (s1 : lst) : list call -> list xcall -> reason -> Prop :=
| LI_exhausted : script = [] -> last_iter script s1 [] [] ProviderError
| LI_failed rd rest : script = rd :: rest -> r_fail rd = true -> last_iter script s1 [] [] ProviderError
| LI_completed rd rest :
    script = rd :: rest -> r_fail rd = false -> drain (collect (g_fixed g) (r_events rd)) = [] ->
    last_iter script s1 [] [] Completed
| LI_noprev rd rest calls :
    script = rd :: rest -> r_fail rd = false -> calls = drain (collect (g_fixed g) (r_events rd)) -> calls <> [] ->
    g_stateless g = false -> orelse (k_resp (collect (g_fixed g) (r_events rd))) (s_prev s1) = None ->
    last_iter script s1 calls [] ProviderError
| LI_bound rd rest calls xs cnt ne :
    script = rd :: rest -> r_fail rd = false -> calls = drain (collect (g_fixed g) (r_events rd)) -> calls <> [] ->
    run_calls (enforce (g_choice g)) tool (s_count s1) (s_nexec s1) calls = (xs, cnt, ne, true) ->
    last_iter script s1 calls xs MaxToolCalls.

Inductive LoopRun : list round -> lst -> result -> Prop :=
| LR_max script s : MAX_TOOL_CALLS <= s_count s -> LoopRun script s (mkres [] None MaxToolCalls)
| LR_noprev script s :
    s_count s < MAX_TOOL_CALLS -> build g prompt s = None -> LoopRun script s (mkres [] None ProviderError)
| LR_invalid script s req s1 :
    s_count s < MAX_TOOL_CALLS -> build g prompt s = Some (req, s1) -> valid (s_idx s) req = false ->
    LoopRun script s (mkres [] (Some req) InvalidRequest)
| LR_last script s req s1 calls xs rsn :
    s_count s < MAX_TOOL_CALLS -> build g prompt s = Some (req, s1) -> valid (s_idx s) req = true ->
    last_iter script s1 calls xs rsn ->
    LoopRun script s (mkres [mkiter req calls xs] None rsn)
| LR_step rd rest s req s1 calls xs cnt ne prev r :
    s_count s < MAX_TOOL_CALLS -> build g prompt s = Some (req, s1) -> valid (s_idx s) req = true ->
    r_fail rd = false ->
    calls = drain (collect (g_fixed g) (r_events rd)) -> calls <> [] ->
    prev = orelse (k_resp (collect (g_fixed g) (r_events rd))) (s_prev s1) ->
    (g_stateless g = false -> prev <> None) ->
    run_calls (enforce (g_choice g)) tool (s_count s1) (s_nexec s1) calls = (xs, cnt, ne, false) ->
    LoopRun rest (next_state s s1 prev calls xs cnt ne) r ->
    LoopRun (rd :: rest) s (mkres (mkiter req calls xs :: res_iters r) (res_rejected r) (res_reason r)).

Lemma loop_run script : forall s, LoopRun script s (loop g valid tool prompt script s).
Proof.
  induction script as [|rd rest IH]; intros s.
  - cbn [loop]. destruct (MAX_TOOL_CALLS <=? s_count s) eqn:Em; [apply LR_max; lia|].
    destruct (build g prompt s) as [[req s1]|] eqn:Eb; [|apply LR_noprev; [lia|exact Eb]].
    destruct (valid (s_idx s) req) eqn:Ev; cbn [negb].
    + eapply LR_last; eauto; [lia | apply LI_exhausted; reflexivity].
    + eapply LR_invalid; eauto. lia.
  - cbn [loop]. destruct (MAX_TOOL_CALLS <=? s_count s) eqn:Em; [apply LR_max; lia|].
    destruct (build g prompt s) as [[req s1]|] eqn:Eb; [|apply LR_noprev; [lia|exact Eb]].
    destruct (valid (s_idx s) req) eqn:Ev; cbn [negb]; [|eapply LR_invalid; eauto; lia].
    destruct (r_fail rd) eqn:Ef; [eapply LR_last; eauto; [lia | eapply LI_failed; eauto]|].
    destruct (drain (collect (g_fixed g) (r_events rd))) as [|c0 cr] eqn:Ed.
    { eapply LR_last; eauto; [lia | eapply LI_completed; eauto]. }
    destruct (negb (g_stateless g) &&
              match orelse (k_resp (collect (g_fixed g) (r_events rd))) (s_prev s1) with
              | Some _ => false | None => true end) eqn:Ep.
    { apply andb_true_iff in Ep. destruct Ep as [Ep1 Ep2].
      eapply LR_last; eauto; [lia|]. eapply LI_noprev; eauto.
      - try rewrite Ed; discriminate.
      - destruct (g_stateless g); [discriminate | reflexivity].
      - destruct (orelse _ _); [discriminate | reflexivity]. }
    destruct (run_calls (enforce (g_choice g)) tool (s_count s1) (s_nexec s1) (c0 :: cr))
      as [[[xs cnt] ne] hit] eqn:Er.
    destruct hit.
    { eapply LR_last; eauto; [lia|]. eapply LI_bound; eauto. try rewrite Ed; discriminate. }
    eapply LR_step with (cnt := cnt) (ne := ne); eauto.
    + lia.
    + try rewrite Ed; discriminate.
    + intros Hs. rewrite Hs in Ep. cbn [negb andb] in Ep.
      destruct (orelse _ _); [discriminate | discriminate].
Qed.

(* build never touches the counters and the index *)
Lemma build_fields s req s1 :
  build g prompt s = Some (req, s1) ->
  s_count s1 = s_count s /\ s_nexec s1 = s_nexec s /\ s_idx s1 = s_idx s /\ s_prev s1 = s_prev s.
Proof.
  unfold build. intros H.
  destruct (s_follow s).
  - destruct (g_stateless g); [inversion H; subst; cbn; auto|].
    destruct (s_prev s); [inversion H; subst; cbn; auto | discriminate].
  - destruct (s_init s); [inversion H; subst; cbn; auto|].
    destruct (g_stateless g); inversion H; subst; auto.
Qed.

(* ---------- never runs a barred tool ---------- *)
Lemma last_iter_ran script s1 calls xs rsn :
  last_iter script s1 calls xs rsn ->
  Forall (fun x => x_ran x = allows (enforce (g_choice g)) (c_name (x_call x))) xs.
Proof.
  intros H. inversion H; subst; try constructor.
  match goal with Hr : run_calls _ _ _ _ _ = _ |- _ => apply run_calls_spec in Hr; tauto end.
Qed.

Lemma run_barred script s r :
  LoopRun script s r ->
  forall it x, In it (res_iters r) -> In x (it_done it) ->
  x_ran x = allows (enforce (g_choice g)) (c_name (x_call x)).
Proof.
  induction 1 as [| | |script s req s1 calls xs rsn Hc Hb Hv Hl|rd rest s req s1 calls xs cnt ne prev r Hc Hb Hv Hf Hd Hne Hp Hpn Hr Hrun IH];
    intros it x Hit Hx; cbn [res_iters mkres] in Hit; try contradiction.
  - destruct Hit as [<-|[]]. cbn in Hx. apply last_iter_ran in Hl.
    rewrite Forall_forall in Hl. apply Hl; exact Hx.
  - destruct Hit as [<-|Hit].
    + cbn in Hx. apply run_calls_spec in Hr. destruct Hr as (_ & H2 & _).
      rewrite Forall_forall in H2. apply H2; exact Hx.
    + eapply IH; eauto.
Qed.

(* ---------- each iteration: what was drained from which scripted answer, and what was processed ---------- *)
Definition iter_from (rd : option round) (it : iter) : Prop :=
  (it_calls it = [] \/
   exists r, rd = Some r /\ r_fail r = false /\ it_calls it = drain (collect (g_fixed g) (r_events r))) /\
  map x_call (it_done it) = firstn (length (it_done it)) (it_calls it).

Lemma last_iter_from script s1 calls xs rsn req :
  last_iter script s1 calls xs rsn -> iter_from (nth_error script 0) (mkiter req calls xs).
Proof.
  intros H. inversion H; subst; unfold iter_from; cbn [it_calls it_done mkiter map length firstn nth_error].
  - split; [left; reflexivity | reflexivity].
  - split; [left; reflexivity | reflexivity].
  - split; [left; reflexivity | reflexivity].
  - split; [right; eexists; eauto | reflexivity].
  - split; [right; eexists; eauto|].
    match goal with Hr : run_calls _ _ _ _ _ = _ |- _ => apply run_calls_spec in Hr; tauto end.
Qed.

Lemma run_iter_from script s r :
  LoopRun script s r ->
  forall i it, nth_error (res_iters r) i = Some it -> iter_from (nth_error script i) it.
Proof.
  induction 1 as [| | |script s req s1 calls xs rsn Hc Hb Hv Hl|rd rest s req s1 calls xs cnt ne prev r Hc Hb Hv Hf Hd Hne Hp Hpn Hr Hrun IH];
    intros i it Hi; cbn [res_iters mkres] in Hi.
  - destruct i; discriminate.
  - destruct i; discriminate.
  - destruct i; discriminate.
  - destruct i as [|[|i]]; try discriminate. cbn in Hi. inversion Hi; subst.
    eapply last_iter_from; eauto.
  - destruct i as [|i]; cbn [nth_error] in *.
    + inversion Hi; subst it. unfold iter_from. cbn [it_calls it_done mkiter].
      split; [right; eexists; eauto|].
      apply run_calls_spec in Hr. tauto.
    + apply IH; exact Hi.
Qed.

(* ---------- bounded ---------- *)
Lemma run_bound script s r :
  LoopRun script s r -> s_count s <= MAX_TOOL_CALLS ->
  nlen (processed r) + s_count s <= MAX_TOOL_CALLS /\
  (length (res_iters r) <= length (processed r) + 1)%nat /\
  (res_reason r = MaxToolCalls -> nlen (processed r) + s_count s = MAX_TOOL_CALLS).
Proof.
  unfold processed, nlen.
  induction 1 as [script s Hm|script s Hc Hb|script s req s1 Hc Hb Hv|script s req s1 calls xs rsn Hc Hb Hv Hl|rd rest s req s1 calls xs cnt ne prev r Hc Hb Hv Hf Hd Hne Hp Hpn Hr Hrun IH];
    intros Hs; cbn [res_iters res_reason mkres map concat length it_done mkiter].
  - repeat split; try lia.
  - repeat split; try lia. discriminate.
  - repeat split; try lia. discriminate.
  - rewrite app_nil_r. destruct (build_fields _ _ _ Hb) as (B1 & B2 & B3 & B4).
    inversion Hl; subst; cbn [length]; repeat split; try lia; try discriminate.
    + match goal with Hr : run_calls _ _ _ _ _ = _ |- _ => apply run_calls_spec in Hr;
        destruct Hr as (_ & _ & _ & R4 & R5 & _ & _) end.
      unfold nlen in R4. rewrite B1 in *. specialize (R5 ltac:(lia)). lia.
    + intros _.
      match goal with Hr : run_calls _ _ _ _ _ = _ |- _ => apply run_calls_spec in Hr;
        destruct Hr as (_ & _ & _ & R4 & R5 & _ & R7) end.
      unfold nlen in R4. rewrite B1 in *. specialize (R5 ltac:(lia)). destruct (R7 eq_refl); lia.
  - destruct (build_fields _ _ _ Hb) as (B1 & B2 & B3 & B4).
    pose proof (run_calls_spec _ _ _ _ _ _ _ _ _ Hr) as (R1 & _ & _ & R4 & R5 & R6 & _).
    unfold nlen in R4. rewrite B1 in *. specialize (R5 ltac:(lia)).
    cbn [s_count next_state] in IH. specialize (IH R5). destruct IH as (I1 & I2 & I3).
    rewrite app_length.
    assert (Hx : (1 <= length xs)%nat).
    { specialize (R6 eq_refl). destruct xs; [cbn in R6; congruence | cbn; lia]. }
    repeat split; try lia.
Qed.

(* ---------- a schema-invalid request is never sent ---------- *)
Lemma run_valid script s r :
  LoopRun script s r ->
  (forall i it, nth_error (res_iters r) i = Some it -> valid (s_idx s + N.of_nat i) (it_req it) = true) /\
  (forall q, res_rejected r = Some q ->
     res_reason r = InvalidRequest /\ valid (s_idx s + nlen (res_iters r)) q = false).
Proof.
  unfold nlen.
  induction 1 as [| |script s req s1 Hc Hb Hv|script s req s1 calls xs rsn Hc Hb Hv Hl|rd rest s req s1 calls xs cnt ne prev r Hc Hb Hv Hf Hd Hne Hp Hpn Hr Hrun IH];
    cbn [res_iters res_rejected res_reason mkres].
  - split; [intros [|i] it Hi; discriminate | intros q Hq; discriminate].
  - split; [intros [|i] it Hi; discriminate | intros q Hq; discriminate].
  - split; [intros [|i] it Hi; discriminate|].
    intros q Hq. inversion Hq; subst. cbn [length]. rewrite N.add_0_r. auto.
  - split; [|intros q Hq; discriminate].
    intros [|[|i]] it Hi; try discriminate. cbn in Hi. inversion Hi; subst. cbn [it_req mkiter].
    rewrite N.add_0_r. exact Hv.
  - destruct IH as [I1 I2]. cbn [s_idx next_state] in *. split.
    + intros [|i] it Hi; cbn [nth_error] in Hi.
      * inversion Hi; subst. cbn [it_req mkiter]. rewrite N.add_0_r. exact Hv.
      * specialize (I1 i it Hi). replace (s_idx s + N.of_nat (S i)) with (s_idx s + 1 + N.of_nat i) by lia. exact I1.
    + intros q Hq. destruct (I2 q Hq) as [J1 J2]. split; [exact J1|].
      cbn [length]. replace (s_idx s + N.of_nat (S (length (res_iters r)))) with (s_idx s + 1 + N.of_nat (length (res_iters r))) by lia.
      exact J2.
Qed.

(* ---------- answered in the very next request ---------- *)
(* initial-items invariant: while the compiled context has not been sent, it is the history and no follow-up is pending *)
Definition init_inv (s : lst) : Prop :=
  match s_init s with Some l => (g_stateless g = true -> s_hist s = l) /\ s_follow s = None | None => True end.

(* what the next request must look like after an iteration that continues *)
Definition answers (it1 it2 : iter) : Prop :=
  map x_call (it_done it1) = it_calls it1 /\ it_calls it1 <> [] /\
  (g_stateless g = false ->
     q_input (it_req it2) = InItems (outputs_for false (it_done it1) ++ fmsg g) /\
     q_prev (it_req it2) <> None /\ q_kind (it_req it2) = 3) /\
  (g_stateless g = true ->
     q_prev (it_req it2) = None /\ q_kind (it_req it2) = 4 /\
     filter is_out (items_of (it_req it2))
       = filter is_out (items_of (it_req it1)) ++ outputs_for true (it_done it1) /\
     (g_fixed g = true ->
        items_of (it_req it2)
        = items_of (it_req it1) ++ map call_item (it_calls it1) ++ outputs_for true (it_done it1) ++ fmsg g)).

Lemma first_request script s r it rest :
  LoopRun script s r -> res_iters r = it :: rest -> exists s1, build g prompt s = Some (it_req it, s1).
Proof.
  intros H. inversion H; subst; cbn [res_iters mkres]; intros E; try discriminate; inversion E; subst; cbn; eauto.
Qed.

Lemma filter_is_out_fmsg : filter is_out (fmsg g) = [].
Proof. unfold fmsg. destruct (g_followup g); reflexivity. Qed.

Lemma filter_is_out_calls l : filter is_out (map call_item l) = [].
Proof. induction l; cbn; auto. Qed.

Lemma filter_is_out_outputs st xs : filter is_out (outputs_for st xs) = outputs_for st xs.
Proof. unfold outputs_for. induction xs; cbn; [reflexivity | f_equal; assumption]. Qed.

(* the history the next state carries, in terms of the request just sent (stateless mode) *)
Lemma build_stateless s req s1 :
  g_stateless g = true -> init_inv s -> build g prompt s = Some (req, s1) ->
  s_init s1 = None /\ q_prev req = None /\
  filter is_out (s_hist s1) = filter is_out (items_of req) /\
  (g_fixed g = true -> s_hist s1 = items_of req) /\
  (s_follow s <> None -> q_kind req = 4 /\ items_of req = s_hist s ++ fmsg g).
Proof.
  intros Hst Hinv Hb. unfold build in Hb. unfold init_inv in Hinv. rewrite Hst in Hb.
  destruct (s_follow s) as [outs|] eqn:Ef.
  - inversion Hb; subst; clear Hb. cbn [s_init s_hist q_prev q_input items_of mkreq q_kind].
    destruct (s_init s) as [l|]; [destruct Hinv as [_ Hn]; discriminate|].
    repeat split; auto.
    + destruct (g_fixed g); rewrite ?filter_app, ?filter_is_out_fmsg, ?app_nil_r; reflexivity.
    + intros Hfx. rewrite Hfx. reflexivity.
  - destruct (s_init s) as [l|] eqn:Ei.
    + destruct Hinv as [Hh _]. specialize (Hh Hst).
      inversion Hb; subst req s1; clear Hb. cbn. rewrite Hh. repeat split; auto; exfalso; congruence.
    + inversion Hb; subst req s1; clear Hb. cbn. rewrite ?Ei. repeat split; auto; exfalso; congruence.
Qed.

Lemma build_stateful s req s1 outs :
  g_stateless g = false -> s_follow s = Some outs -> build g prompt s = Some (req, s1) ->
  q_input req = InItems (outs ++ fmsg g) /\ q_prev req <> None /\ q_kind req = 3.
Proof.
  intros Hst Hf Hb. unfold build in Hb. rewrite Hf, Hst in Hb.
  destruct (s_prev s); [|discriminate]. inversion Hb; subst. cbn. repeat split; auto. discriminate.
Qed.

Lemma next_state_inv s s1 prev calls xs cnt ne : s_init s1 = None -> init_inv (next_state s s1 prev calls xs cnt ne).
Proof. intros H. unfold init_inv, next_state. cbn [s_init]. rewrite H. exact I. Qed.

Lemma build_init_none s req s1 :
  init_inv s -> build g prompt s = Some (req, s1) -> s_init s1 = None.
Proof.
  intros Hinv Hb. unfold build in Hb. unfold init_inv in Hinv.
  destruct (s_follow s) as [outs|] eqn:Ef.
  - destruct (s_init s) as [l|] eqn:Ei; [destruct Hinv as [_ Hn]; discriminate|].
    destruct (g_stateless g); [inversion Hb; subst; cbn; auto|].
    destruct (s_prev s); [inversion Hb; subst; cbn; auto | discriminate].
  - destruct (s_init s) as [l|] eqn:Ei; [inversion Hb; subst; reflexivity|].
    destruct (g_stateless g); inversion Hb; subst; auto.
Qed.

Lemma run_answers script s r :
  LoopRun script s r -> init_inv s ->
  forall pre it1 it2 post, res_iters r = pre ++ it1 :: it2 :: post -> answers it1 it2.
Proof.
  induction 1 as [| | |script s req s1 calls xs rsn Hc Hb Hv Hl|rd rest s req s1 calls xs cnt ne prev r Hc Hb Hv Hf Hd Hne Hp Hpn Hr Hrun IH];
    intros Hinv pre it1 it2 post E; cbn [res_iters mkres] in E.
  - destruct pre; discriminate.
  - destruct pre; discriminate.
  - destruct pre; discriminate.
  - destruct pre as [|p [|p2 pre]]; discriminate.
  - pose proof (build_init_none _ _ _ Hinv Hb) as Hin.
    destruct pre as [|p pre].
    + cbn [app] in E. inversion E as [[E1 E2]]; subst it1. clear E.
      destruct (first_request _ _ _ _ _ Hrun E2) as (s1' & Hb2).
      pose proof (run_calls_spec _ _ _ _ _ _ _ _ _ Hr) as (_ & _ & _ & _ & _ & R6 & _).
      specialize (R6 eq_refl).
      unfold answers. cbn [it_done it_calls it_req mkiter].
      split; [exact R6|]. split; [exact Hne|]. split.
      * intros Hst.
        eapply build_stateful in Hb2; [|exact Hst|cbn [s_follow next_state]; reflexivity].
        rewrite Hst in Hb2. exact Hb2.
      * intros Hst.
        pose proof (build_stateless _ _ _ Hst Hinv Hb) as (_ & _ & H3 & H4 & _).
        pose proof (build_stateless _ _ _ Hst (next_state_inv s s1 prev calls xs cnt ne Hin) Hb2) as (_ & K2 & _ & _ & K5).
        cbn [s_follow next_state] in K5. destruct (K5 ltac:(discriminate)) as [K6 K7].
        cbn [s_hist next_state] in K7. rewrite Hst in K7.
        split; [exact K2|]. split; [exact K6|]. split.
        -- rewrite K7. rewrite !filter_app, filter_is_out_fmsg, filter_is_out_calls, filter_is_out_outputs, H3.
           rewrite !app_nil_r. reflexivity.
        -- intros Hfx. rewrite K7, (H4 Hfx). rewrite <- !app_assoc. reflexivity.
    + cbn [app] in E. inversion E as [[E1 E2]]. eapply IH; [|exact E2].
      apply next_state_inv. exact Hin.
Qed.

(* ---------- a run that completes has answered everything: its last iteration drained no call ---------- *)
Lemma run_completed script s r :
  LoopRun script s r -> res_reason r = Completed ->
  exists pre it, res_iters r = pre ++ [it] /\ it_calls it = [] /\ it_done it = [].
Proof.
  induction 1 as [| | |script s req s1 calls xs rsn Hc Hb Hv Hl|rd rest s req s1 calls xs cnt ne prev r Hc Hb Hv Hf Hd Hne Hp Hpn Hr Hrun IH];
    cbn [res_reason res_iters mkres]; intros Hrs; try discriminate.
  - inversion Hl; subst; try discriminate. exists [], (mkiter req [] []). auto.
  - destruct (IH Hrs) as (pre & it & E & H1 & H2). exists (mkiter req calls xs :: pre), it.
    rewrite E. auto.
Qed.

(* ---------- calls left without a next request: only for three named reasons ---------- *)
(* one step on: whatever payload is built from the state after an iteration that processed all its calls is the
   answer to exactly these calls (the same shape `answers` demands of the next request) *)
Lemma step_answers s req s1 calls xs cnt ne prev req2 s1' cs2 xs2 :
  init_inv s -> build g prompt s = Some (req, s1) -> calls <> [] ->
  run_calls (enforce (g_choice g)) tool (s_count s1) (s_nexec s1) calls = (xs, cnt, ne, false) ->
  build g prompt (next_state s s1 prev calls xs cnt ne) = Some (req2, s1') ->
  answers (mkiter req calls xs) (mkiter req2 cs2 xs2).
Proof.
  intros Hinv Hb Hne Hr Hb2.
  pose proof (build_init_none _ _ _ Hinv Hb) as Hin.
  pose proof (run_calls_spec _ _ _ _ _ _ _ _ _ Hr) as (_ & _ & _ & _ & _ & R6 & _).
  specialize (R6 eq_refl).
  unfold answers. cbn [it_done it_calls it_req mkiter].
  split; [exact R6|]. split; [exact Hne|]. split.
  - intros Hst.
    eapply build_stateful in Hb2; [|exact Hst|cbn [s_follow next_state]; reflexivity].
    rewrite Hst in Hb2. exact Hb2.
  - intros Hst.
    pose proof (build_stateless _ _ _ Hst Hinv Hb) as (_ & _ & H3 & H4 & _).
    pose proof (build_stateless _ _ _ Hst (next_state_inv s s1 prev calls xs cnt ne Hin) Hb2) as (_ & K2 & _ & _ & K5).
    cbn [s_follow next_state] in K5. destruct (K5 ltac:(discriminate)) as [K6 K7].
    cbn [s_hist next_state] in K7. rewrite Hst in K7.
    split; [exact K2|]. split; [exact K6|]. split.
    + rewrite K7. rewrite !filter_app, filter_is_out_fmsg, filter_is_out_calls, filter_is_out_outputs, H3.
      rewrite !app_nil_r. reflexivity.
    + intros Hfx. rewrite K7, (H4 Hfx). rewrite <- !app_assoc. reflexivity.
Qed.

Lemma looprun_no_iters script s r :
  LoopRun script s r -> res_iters r = [] ->
  r = mkres [] None MaxToolCalls \/
  (build g prompt s = None /\ r = mkres [] None ProviderError) \/
  (exists req s1, build g prompt s = Some (req, s1) /\ r = mkres [] (Some req) InvalidRequest).
Proof.
  intros H. inversion H; subst; cbn [res_iters mkres]; intros E; try discriminate; eauto 6.
Qed.

(* why the calls of a run's LAST iteration got no next request *)
Definition unanswered_why (r : result) (it : iter) : Prop :=
  (res_reason r = ProviderError /\ res_rejected r = None /\ g_stateless g = false /\ it_done it = []) \/
  (res_reason r = MaxToolCalls /\ res_rejected r = None) \/
  (res_reason r = InvalidRequest /\ exists q, res_rejected r = Some q /\ answers it (mkiter q [] [])).

Lemma run_last_unanswered script s r :
  LoopRun script s r -> init_inv s ->
  forall pre it, res_iters r = pre ++ [it] -> it_calls it <> [] -> unanswered_why r it.
Proof.
  induction 1 as [| | |script s req s1 calls xs rsn Hc Hb Hv Hl|rd rest s req s1 calls xs cnt ne prev r Hc Hb Hv Hf Hd Hne Hp Hpn Hr Hrun IH];
    intros Hinv pre it E Hcalls; cbn [res_iters mkres] in E.
  - destruct pre; discriminate.
  - destruct pre; discriminate.
  - destruct pre; discriminate.
  - destruct pre as [|p pre]; [|destruct pre; discriminate].
    cbn [app] in E. inversion E; subst it. cbn [it_calls mkiter] in Hcalls.
    unfold unanswered_why. cbn [res_reason res_rejected mkres it_done mkiter].
    inversion Hl; subst; try (exfalso; apply Hcalls; reflexivity).
    + left. repeat split; auto.
    + right. left. split; reflexivity.
  - pose proof (build_init_none _ _ _ Hinv Hb) as Hin.
    destruct (res_iters r) as [|i0 ir] eqn:Er.
    + destruct pre as [|p pre]; [|destruct pre; discriminate].
      cbn [app] in E. inversion E; subst it. clear E.
      unfold unanswered_why. cbn [res_reason res_rejected mkres].
      destruct (looprun_no_iters _ _ _ Hrun Er) as [Hm|[(Hn & Hm)|(req2 & s2 & Hb2 & Hm)]]; rewrite Hm;
        cbn [res_reason res_rejected mkres].
      * right. left. split; reflexivity.
      * exfalso. unfold build in Hn. cbn [s_follow next_state] in Hn.
        destruct (g_stateless g) eqn:Es; [discriminate|]. cbn [s_prev] in Hn.
        destruct prev as [pv|]; [discriminate|]. apply Hpn; reflexivity.
      * right. right. split; [reflexivity|]. exists req2. split; [reflexivity|].
        eapply step_answers; eauto.
    + destruct pre as [|p pre].
      { cbn [app] in E. inversion E. }
      cbn [app] in E. inversion E as [[E1 E2]].
      assert (Hw : unanswered_why r it).
      { eapply IH; [apply next_state_inv; exact Hin | exact E2 | exact Hcalls]. }
      unfold unanswered_why in *. cbn [res_reason res_rejected mkres]. exact Hw.
Qed.

End Run.

(* ---------------------------------------------------------------- statements about `run` *)
Lemma lst0_inv g prompt init : init_inv g (lst0 g prompt init).
Proof.
  unfold init_inv, lst0. cbn [s_init s_hist s_follow]. destruct init as [l|]; [|exact I].
  split; [intros ->; reflexivity | reflexivity].
Qed.

Lemma run_is_looprun g valid tool prompt init script :
  LoopRun g valid tool prompt script (lst0 g prompt init) (run g valid tool prompt init script).
Proof. unfold run. apply loop_run. Qed.

Lemma barred_never_executed g valid tool prompt init script it x :
  In it (res_iters (run g valid tool prompt init script)) -> In x (it_done it) -> x_ran x = true ->
  allows (enforce (g_choice g)) (c_name (x_call x)) = true.
Proof.
  intros Hit Hx Hr. rewrite <- Hr. symmetry.
  eapply run_barred; [apply run_is_looprun | exact Hit | exact Hx].
Qed.

(* refused calls are answered with the rejection text, executed ones with the tool's own output *)
Lemma refused_iff_barred g valid tool prompt init script it x :
  In it (res_iters (run g valid tool prompt init script)) -> In x (it_done it) ->
  x_ran x = allows (enforce (g_choice g)) (c_name (x_call x)).
Proof. intros Hit Hx. eapply run_barred; [apply run_is_looprun | exact Hit | exact Hx]. Qed.

Lemma at_most_once g valid tool prompt init script i it :
  nth_error (res_iters (run g valid tool prompt init script)) i = Some it ->
  (* the processed calls are an initial segment of the drained ones, position by position ... *)
  map x_call (it_done it) = firstn (length (it_done it)) (it_calls it) /\
  (* ... which are the calls completed in the i-th scripted answer, each once, in output order ... *)
  (it_calls it = [] \/
   exists rd, nth_error script i = Some rd /\ r_fail rd = false /\
     it_calls it = drain (collect (g_fixed g) (r_events rd)) /\
     Permutation (it_calls it) (k_done (collect (g_fixed g) (r_events rd))) /\
     StronglySorted oi_le (it_calls it) /\
     (forall k, filter (fun c => c_oi c =? k) (it_calls it)
                = filter (fun c => c_oi c =? k) (k_done (collect (g_fixed g) (r_events rd)))) /\
     (* ... no more than the answer has done events for function-call items *)
     (length (it_calls it) <= length (filter is_fc_done (r_events rd)))%nat).
Proof.
  intros Hi. pose proof (run_iter_from _ _ _ _ _ _ _ (run_is_looprun g valid tool prompt init script) _ _ Hi) as [H1 H2].
  split; [exact H2|].
  destruct H1 as [H1|(rd & E1 & E2 & E3)]; [left; exact H1|].
  right. exists rd. repeat split; auto.
  - rewrite E3. apply drain_perm.
  - rewrite E3. apply sort_calls_sorted.
  - intros k. rewrite E3. apply sort_calls_stable.
  - rewrite E3. apply drain_length.
Qed.

Lemma call_ids_distinct g valid tool prompt init script it :
  g_fixed g = FIXED ->
  In it (res_iters (run g valid tool prompt init script)) -> NoDup (map c_id (it_calls it)).
Proof.
  intros Hfx Hit. apply In_nth_error in Hit. destruct Hit as [i Hi].
  pose proof (run_iter_from _ _ _ _ _ _ _ (run_is_looprun g valid tool prompt init script) _ _ Hi) as [H1 _].
  destruct H1 as [H1|(rd & _ & _ & E3)]; [rewrite H1; constructor|].
  rewrite E3, Hfx. apply drain_nodup.
Qed.

Lemma filter_len {A} (f : A -> bool) (l : list A) : (length (filter f l) <= length l)%nat.
Proof. induction l as [|x r IH]; cbn [filter length]; [lia|]. destruct (f x); cbn [length]; lia. Qed.

Lemma bound g valid tool prompt init script :
  nlen (processed (run g valid tool prompt init script)) <= MAX_TOOL_CALLS /\
  nlen (executed (run g valid tool prompt init script)) <= MAX_TOOL_CALLS /\
  (length (sent (run g valid tool prompt init script)) <= 33)%nat /\
  (res_reason (run g valid tool prompt init script) = MaxToolCalls ->
   nlen (processed (run g valid tool prompt init script)) = MAX_TOOL_CALLS).
Proof.
  pose proof (run_bound _ _ _ _ _ _ _ (run_is_looprun g valid tool prompt init script)) as H.
  cbn [s_count lst0] in H. specialize (H ltac:(unfold MAX_TOOL_CALLS; lia)).
  destruct H as (H1 & H2 & H3). unfold MAX_TOOL_CALLS, nlen in *.
  repeat split.
  - lia.
  - unfold executed. pose proof (filter_len x_ran (processed (run g valid tool prompt init script))). lia.
  - unfold sent. rewrite map_length. lia.
  - intros Hm. specialize (H3 Hm). lia.
Qed.

Lemma invalid_never_sent g valid tool prompt init script :
  (forall i q, nth_error (sent (run g valid tool prompt init script)) i = Some q -> valid (N.of_nat i) q = true) /\
  (forall q, res_rejected (run g valid tool prompt init script) = Some q ->
     res_reason (run g valid tool prompt init script) = InvalidRequest /\
     valid (nlen (sent (run g valid tool prompt init script))) q = false).
Proof.
  pose proof (run_valid _ _ _ _ _ _ _ (run_is_looprun g valid tool prompt init script)) as [H1 H2].
  cbn [s_idx lst0] in *. split.
  - intros i q Hi. unfold sent in Hi. rewrite nth_error_map in Hi.
    destruct (nth_error (res_iters (run g valid tool prompt init script)) i) as [it|] eqn:E; [|discriminate].
    inversion Hi; subst. specialize (H1 i it E). rewrite N.add_0_l in H1. exact H1.
  - intros q Hq. destruct (H2 q Hq) as [J1 J2]. split; [exact J1|].
    unfold sent, nlen in *. rewrite map_length. rewrite N.add_0_l in J2. exact J2.
Qed.

Lemma answered_next_request g valid tool prompt init script pre it1 it2 post :
  res_iters (run g valid tool prompt init script) = pre ++ it1 :: it2 :: post -> answers g it1 it2.
Proof.
  intros E. eapply run_answers; [apply run_is_looprun | apply lst0_inv | exact E].
Qed.

Lemma stateless_prefix g valid tool prompt init script pre it1 it2 post :
  g_stateless g = true -> g_fixed g = FIXED ->
  res_iters (run g valid tool prompt init script) = pre ++ it1 :: it2 :: post ->
  exists ext, items_of (it_req it2) = items_of (it_req it1) ++ ext.
Proof.
  intros Hs Hf E. destruct (answered_next_request _ _ _ _ _ _ _ _ _ _ E) as (_ & _ & _ & H).
  destruct (H Hs) as (_ & _ & _ & H4). eexists. apply H4. exact Hf.
Qed.

Lemma completed_all_answered g valid tool prompt init script :
  res_reason (run g valid tool prompt init script) = Completed ->
  exists pre it, res_iters (run g valid tool prompt init script) = pre ++ [it] /\ it_calls it = [] /\ it_done it = [].
Proof. intros H. eapply run_completed; [apply run_is_looprun | exact H]. Qed.

(* answered exactly once, by call id, in output order: the call ids answered by the next request *)
Lemma out_ids_app a b : out_ids (a ++ b) = out_ids a ++ out_ids b.
Proof. unfold out_ids. apply flat_map_app. Qed.

Lemma out_ids_filter l : out_ids (filter is_out l) = out_ids l.
Proof.
  unfold out_ids. induction l as [|i r IH]; cbn [filter flat_map]; [reflexivity|].
  destruct i; cbn [is_out flat_map app]; rewrite ?IH; reflexivity.
Qed.

Lemma out_ids_outputs st xs : out_ids (outputs_for st xs) = map c_id (map x_call xs).
Proof.
  unfold out_ids, outputs_for. induction xs as [|x r IH]; cbn [map flat_map out_item app]; [reflexivity|].
  rewrite IH. reflexivity.
Qed.

Lemma out_ids_fmsg g : out_ids (fmsg g) = [].
Proof. unfold fmsg. destruct (g_followup g); reflexivity. Qed.

Lemma answered_by_call_id g valid tool prompt init script pre it1 it2 post :
  res_iters (run g valid tool prompt init script) = pre ++ it1 :: it2 :: post ->
  (g_stateless g = false -> out_ids (items_of (it_req it2)) = map c_id (it_calls it1)) /\
  (g_stateless g = true ->
     out_ids (items_of (it_req it2)) = out_ids (items_of (it_req it1)) ++ map c_id (it_calls it1)) /\
  (g_fixed g = FIXED -> NoDup (map c_id (it_calls it1))).
Proof.
  intros E. pose proof (answered_next_request _ _ _ _ _ _ _ _ _ _ E) as (A1 & _ & A3 & A4).
  split; [|split].
  - intros Hst. destruct (A3 Hst) as (B1 & _). unfold items_of. rewrite B1.
    rewrite out_ids_app, out_ids_outputs, out_ids_fmsg, app_nil_r, A1. reflexivity.
  - intros Hst. destruct (A4 Hst) as (_ & _ & B3 & _).
    rewrite <- (out_ids_filter (items_of (it_req it2))), B3, out_ids_app, out_ids_filter, out_ids_outputs, A1.
    reflexivity.
  - intros Hfx. eapply call_ids_distinct; [exact Hfx|].
    rewrite E. apply in_or_app. right. left. reflexivity.
Qed.

(* a call the provider announces with a well-formed done event in answer i is among the calls iteration i
   drains whenever the run goes on to a next request (where it is answered: answered_by_call_id) *)
Lemma emitted_call_answered g valid tool prompt init script pre it1 it2 post rd evs1 ev evs2 cid :
  res_iters (run g valid tool prompt init script) = pre ++ it1 :: it2 :: post ->
  nth_error script (length pre) = Some rd -> r_events rd = evs1 ++ ev :: evs2 -> wf_done ev cid ->
  In cid (map c_id (it_calls it1)).
Proof.
  intros E Hrd Hev Hw.
  assert (Hi : nth_error (res_iters (run g valid tool prompt init script)) (length pre) = Some it1).
  { rewrite E, nth_error_app2 by lia. rewrite Nat.sub_diag. reflexivity. }
  destruct (at_most_once _ _ _ _ _ _ _ _ Hi) as (_ & [H0|(rd' & Hrd' & _ & Hc & _)]).
  - destruct (answered_next_request _ _ _ _ _ _ _ _ _ _ E) as (_ & Hne & _). contradiction.
  - rewrite Hrd in Hrd'. inversion Hrd'; subst rd'. rewrite Hc, Hev. apply emitted_call_drained; exact Hw.
Qed.

(* calls stay unanswered only for three named reasons; a refused follow-up was exactly their answer *)
Lemma unanswered_only_when g valid tool prompt init script pre it :
  res_iters (run g valid tool prompt init script) = pre ++ [it] -> it_calls it <> [] ->
  (res_reason (run g valid tool prompt init script) = ProviderError /\
   res_rejected (run g valid tool prompt init script) = None /\ g_stateless g = false /\ it_done it = []) \/
  (res_reason (run g valid tool prompt init script) = MaxToolCalls /\
   res_rejected (run g valid tool prompt init script) = None /\
   nlen (processed (run g valid tool prompt init script)) = MAX_TOOL_CALLS) \/
  (res_reason (run g valid tool prompt init script) = InvalidRequest /\
   exists q, res_rejected (run g valid tool prompt init script) = Some q /\
     map x_call (it_done it) = it_calls it /\
     (g_stateless g = false ->
        q_input q = InItems (outputs_for false (it_done it) ++ fmsg g) /\ q_prev q <> None /\ q_kind q = 3) /\
     (g_stateless g = true ->
        q_prev q = None /\ q_kind q = 4 /\
        filter is_out (items_of q) = filter is_out (items_of (it_req it)) ++ outputs_for true (it_done it) /\
        (g_fixed g = true ->
           items_of q = items_of (it_req it) ++ map call_item (it_calls it) ++ outputs_for true (it_done it) ++ fmsg g))).
Proof.
  intros E Hc.
  pose proof (run_last_unanswered _ _ _ _ _ _ _ (run_is_looprun g valid tool prompt init script)
                (lst0_inv g prompt init) _ _ E Hc) as [H|[H|H]].
  - left. exact H.
  - right. left. destruct H as [H1 H2]. repeat split; auto.
    apply (bound g valid tool prompt init script). exact H1.
  - right. right. destruct H as (H1 & q & H2 & A1 & _ & A3 & A4). split; [exact H1|].
    exists q. cbn [it_req mkiter] in A3, A4. repeat split; auto; try (apply A3; assumption); try (apply A4; assumption).
Qed.

(* ---- the gate instantiated with the schema's own limits on input items ---- *)
Lemma sent_items_ok g valid tool prompt init script i q :
  nth_error (sent (run g (fun k r => items_ok r && valid k r) tool prompt init script)) i = Some q ->
  items_ok q = true.
Proof.
  intros H. destruct (invalid_never_sent g (fun k r => items_ok r && valid k r) tool prompt init script) as [H1 _].
  specialize (H1 i q H). cbn beta in H1. apply andb_true_iff in H1. tauto.
Qed.

Lemma call_id_ok_spec s : call_id_ok s = true <-> CALL_ID_MIN <= nlen s <= CALL_ID_MAX.
Proof. unfold call_id_ok. rewrite andb_true_iff, !N.leb_le. tauto. Qed.

Lemma name_ok_spec s :
  name_ok s = true <-> NAME_MIN <= nlen s <= NAME_MAX /\ (forall c, In c s -> name_char_ok c = true).
Proof. unfold name_ok. rewrite !andb_true_iff, !N.leb_le, forallb_forall. tauto. Qed.

Lemma sent_within_schema_limits g valid tool prompt init script i q :
  nth_error (sent (run g (fun k r => items_ok r && valid k r) tool prompt init script)) i = Some q ->
  (forall id cid n a, In (ICall id cid n a) (items_of q) ->
     CALL_ID_MIN <= nlen cid <= CALL_ID_MAX /\ NAME_MIN <= nlen n <= NAME_MAX /\
     (forall c, In c n -> name_char_ok c = true)) /\
  (forall id cid o, In (IOut id cid o) (items_of q) ->
     CALL_ID_MIN <= nlen cid <= CALL_ID_MAX /\ nlen o <= TEXT_MAX) /\
  (forall r t, In (IMsg r t) (items_of q) -> role_ok r = true /\ nlen t <= TEXT_MAX).
Proof.
  intros H. apply sent_items_ok in H. unfold items_ok in H. rewrite forallb_forall in H.
  split; [|split].
  - intros id cid n a Hin. specialize (H _ Hin). cbn [item_ok] in H. apply andb_true_iff in H.
    destruct H as [H1 H2]. apply call_id_ok_spec in H1. apply name_ok_spec in H2. tauto.
  - intros id cid o Hin. specialize (H _ Hin). cbn [item_ok] in H. apply andb_true_iff in H.
    destruct H as [H1 H2]. apply call_id_ok_spec in H1. apply N.leb_le in H2. tauto.
  - intros r t Hin. specialize (H _ Hin). cbn [item_ok] in H. apply andb_true_iff in H.
    destruct H as [H1 H2]. apply N.leb_le in H2. tauto.
Qed.

(* ---- across responses: what a request answers in all ---- *)
Definition init_items (init : option (list item)) : list item := match init with Some l => l | None => [] end.

Lemma first_request_out_ids g valid tool prompt init script it rest :
  res_iters (run g valid tool prompt init script) = it :: rest ->
  out_ids (items_of (it_req it)) = out_ids (init_items init).
Proof.
  intros E.
  destruct (first_request _ _ _ _ _ _ _ _ _ (run_is_looprun g valid tool prompt init script) E) as (s1 & Hb).
  unfold build, lst0 in Hb. cbn [s_follow s_init s_hist] in Hb.
  destruct init as [l|].
  - injection Hb as Hq Hs. rewrite <- Hq. reflexivity.
  - destruct (g_stateless g); injection Hb as Hq Hs; rewrite <- Hq; reflexivity.
Qed.

(* stateless history: request k answers, in order, the calls of ALL earlier responses, response by response
   (after whatever outputs the initial context already held); stateful: only those of the response before it
   (answered_by_call_id) *)
Lemma answers_accumulate g valid tool prompt init script : forall pre it post,
  g_stateless g = true ->
  res_iters (run g valid tool prompt init script) = pre ++ it :: post ->
  out_ids (items_of (it_req it)) = out_ids (init_items init) ++ flat_map (fun i => map c_id (it_calls i)) pre.
Proof.
  intros pre. induction pre as [|p pre IH] using rev_ind; intros it post Hst E.
  - cbn [app flat_map] in E |- *. rewrite app_nil_r. eapply first_request_out_ids; eauto.
  - rewrite <- app_assoc in E. cbn [app] in E.
    destruct (answered_by_call_id _ _ _ _ _ _ _ _ _ _ E) as (_ & A2 & _).
    rewrite (A2 Hst), (IH p (it :: post) Hst E), flat_map_app. cbn [flat_map]. rewrite app_nil_r, app_assoc.
    reflexivity.
Qed.

Definition str_eq_dec : forall a b : str, {a = b} + {a <> b} := list_eq_dec N.eq_dec.
Definition completes (cid : str) (it : iter) : bool := existsb (str_eqb cid) (map c_id (it_calls it)).

Lemma count_occ_nodup (l : list str) x :
  NoDup l -> count_occ str_eq_dec l x = if existsb (str_eqb x) l then 1%nat else 0%nat.
Proof.
  induction 1 as [|y l Hy Hn IH]; cbn [count_occ existsb]; [reflexivity|].
  destruct (str_eq_dec y x) as [->|Hne].
  - rewrite str_eqb_refl. cbn [orb].
    assert (Hz : count_occ str_eq_dec l x = 0%nat) by (apply count_occ_not_In; exact Hy).
    rewrite Hz. reflexivity.
  - assert (Hf : str_eqb x y = false) by (apply str_eqb_neq; congruence).
    rewrite Hf. cbn [orb]. exact IH.
Qed.

(* the same call id in several responses: in request k it is answered once per earlier response that completed it
   — the same id completed by two responses is two calls, each answered once *)
Lemma answered_once_per_response g valid tool prompt init script pre it post cid :
  g_stateless g = true -> g_fixed g = FIXED ->
  res_iters (run g valid tool prompt init script) = pre ++ it :: post ->
  count_occ str_eq_dec (out_ids (items_of (it_req it))) cid
  = (count_occ str_eq_dec (out_ids (init_items init)) cid + length (filter (completes cid) pre))%nat.
Proof.
  intros Hst Hfx E. rewrite (answers_accumulate _ _ _ _ _ _ _ _ _ Hst E), count_occ_app. f_equal.
  assert (Hin : forall i, In i pre -> In i (res_iters (run g valid tool prompt init script))).
  { intros i Hi. rewrite E. apply in_or_app. left. exact Hi. }
  clear E. induction pre as [|p pre IH]; cbn [flat_map filter length]; [reflexivity|].
  rewrite count_occ_app, IH by (intros i Hi; apply Hin; right; exact Hi).
  rewrite count_occ_nodup by (eapply call_ids_distinct; [exact Hfx | apply Hin; left; reflexivity]).
  unfold completes at 2. destruct (existsb (str_eqb cid) (map c_id (it_calls p))); cbn [length]; lia.
Qed.

(* ---------------------------------------------------------------- witnesses *)
Definition w_str (x : String.string) : str := lit x.
Definition w_done (oi : N) (id cid name args : String.string) : json :=
  JObj [ (K_type, JStr S_item_done); (K_output_index, JNum (lit (match oi with 0 => "0" | 1 => "1" | _ => "2" end)));
         (K_item, JObj [ (K_type, JStr S_function_call); (K_id, JStr (lit id)); (K_call_id, JStr (lit cid));
                         (K_name, JStr (lit name)); (K_arguments, JStr (lit args)) ]) ].
Definition w_resp (id : String.string) : json :=
  JObj [ (K_type, JStr (lit "response.created")); (K_response, JObj [ (K_id, JStr (lit id)) ]) ].

(* S16: stateless history + follow-up user message, two tool rounds *)
Definition s16_cfg (fx : bool) : cfg :=
  {| g_stateless := true; g_choice := JStr (lit "auto"); g_followup := Some (lit "go"); g_fixed := fx |}.
Definition s16_script : list round :=
  [ {| r_fail := false; r_events := [w_resp "r1"; w_done 0 "f1" "c1" "ls" "{}"] |};
    {| r_fail := false; r_events := [w_resp "r2"; w_done 0 "f2" "c2" "ls" "{}"] |};
    {| r_fail := false; r_events := [w_resp "r3"] |} ].
Definition s16_run (fx : bool) : result :=
  run (s16_cfg fx) (fun _ _ => true) (fun _ _ => lit "o") (lit "p") None s16_script.
Definition s16_inputs_unfixed : list (list item) :=
  Eval vm_compute in map (fun it => items_of (it_req it)) (res_iters (s16_run UNFIXED)).

Lemma s16_inputs_unfixed_ok :
  map (fun it => items_of (it_req it)) (res_iters (s16_run UNFIXED)) = s16_inputs_unfixed.
Proof. vm_compute. reflexivity. Qed.

Definition s16_in1 : list item := Eval vm_compute in nth 1 s16_inputs_unfixed [].
Definition s16_in2 : list item := Eval vm_compute in nth 2 s16_inputs_unfixed [].

Lemma s16_not_prefix : forall ext, s16_in2 <> s16_in1 ++ ext.
Proof. intros ext H. vm_compute in H. discriminate H. Qed.

Lemma stateless_prefix_unfixed_refuted :
  exists g valid tool prompt init script pre it1 it2 post,
    g_stateless g = true /\ g_fixed g = UNFIXED /\
    res_iters (run g valid tool prompt init script) = pre ++ it1 :: it2 :: post /\
    forall ext, items_of (it_req it2) <> items_of (it_req it1) ++ ext.
Proof.
  exists (s16_cfg UNFIXED), (fun _ _ => true), (fun _ _ => lit "o"), (lit "p"), None, s16_script.
  pose (its := res_iters (s16_run UNFIXED)).
  exists (firstn 1 its), (nth 1 its (mkiter (mkreq 0 None (InText [])) [] [])),
         (nth 2 its (mkiter (mkreq 0 None (InText [])) [] [])), (skipn 3 its).
  split; [reflexivity|]. split; [reflexivity|]. split; [vm_compute; reflexivity|].
  intros ext H. apply (s16_not_prefix ext). vm_compute in H. vm_compute. exact H.
Qed.

(* S19: the same completed call announced twice in one response *)
Definition s19_events : list json := [w_resp "r1"; w_done 0 "f1" "c1" "write" "{}"; w_done 0 "f1" "c1" "write" "{}"].

Lemma call_ids_distinct_unfixed_refuted :
  exists evs, ~ NoDup (map c_id (drain (collect UNFIXED evs))).
Proof.
  exists s19_events. vm_compute. intros H. inversion H as [|? ? Hn _]; subst. apply Hn. left; reflexivity.
Qed.

Lemma s19_fixed_once : length (drain (collect FIXED s19_events)) = 1%nat.
Proof. vm_compute. reflexivity. Qed.

(* non-vacuity: a run with two answered rounds, a refused call and an executed one *)
Definition ex_cfg : cfg :=
  {| g_stateless := false; g_choice := JObj [(K_type, JStr S_function); (K_name, JStr (lit "ls"))];
     g_followup := None; g_fixed := FIXED |}.
Definition ex_script : list round :=
  [ {| r_fail := false; r_events := [w_resp "r1"; w_done 1 "f1" "c1" "write" "{}"; w_done 0 "f2" "c2" "ls" "{}"] |};
    {| r_fail := false; r_events := [w_resp "r2"] |} ].
Definition ex_run : result := run ex_cfg (fun _ _ => true) (fun _ _ => lit "o") (lit "p") None ex_script.

Lemma ex_run_shape :
  length (res_iters ex_run) = 2%nat /\ res_reason ex_run = Completed /\
  map (fun x => (c_id (x_call x), x_ran x)) (processed ex_run) = [(lit "c2", true); (lit "c1", false)].
Proof. vm_compute. repeat split. Qed.

Lemma ex_wf_done : wf_done (w_done 0 "f1" "c1" "write" "{}") (lit "c1").
Proof.
  unfold wf_done, w_done. eexists _, _, (lit "write"). split; [reflexivity|].
  repeat split; try reflexivity. discriminate.
Qed.

(* a refused follow-up: the only request the validator lets through is the first one *)
Definition ex_refused_run : result :=
  run ex_cfg (fun i _ => i =? 0) (fun _ _ => lit "o") (lit "p") None ex_script.
Lemma ex_refused_shape :
  length (res_iters ex_refused_run) = 1%nat /\ res_reason ex_refused_run = InvalidRequest /\
  map (fun it => map c_id (it_calls it)) (res_iters ex_refused_run) = [[lit "c2"; lit "c1"]] /\
  match res_rejected ex_refused_run with Some q => out_ids (items_of q) = [lit "c2"; lit "c1"] | None => False end.
Proof. vm_compute. repeat split. Qed.

(* the same call id completed by two responses, stateless history: the third request answers it twice *)
Definition ex_same_id_cfg : cfg :=
  {| g_stateless := true; g_choice := JStr (lit "auto"); g_followup := None; g_fixed := FIXED |}.
Definition ex_same_id_script : list round :=
  [ {| r_fail := false; r_events := [w_done 0 "f1" "c1" "ls" "{}"] |};
    {| r_fail := false; r_events := [w_done 0 "f2" "c1" "ls" "{}"] |};
    {| r_fail := false; r_events := [] |} ].
Definition ex_same_id_run : result :=
  run ex_same_id_cfg (fun _ _ => true) (fun _ _ => lit "o") (lit "p") None ex_same_id_script.
Lemma ex_same_id_shape :
  res_reason ex_same_id_run = Completed /\
  map (fun it => out_ids (items_of (it_req it))) (res_iters ex_same_id_run) = [[]; [lit "c1"]; [lit "c1"; lit "c1"]].
Proof. vm_compute. repeat split. Qed.

(* the schema gate at work: the provider sends a 70-character call id; its answer is refused, nothing more is sent *)
Definition ex_long_id : String.string := "call_xxxxxxxxxxxxxxxxxxxxxxxxxxxxxxxxxxxxxxxxxxxxxxxxxxxxxxxxxxxxxxxxx".
Definition ex_long_id_script : list round :=
  [ {| r_fail := false; r_events := [w_resp "r1"; w_done 0 "f1" ex_long_id "ls" "{}"] |};
    {| r_fail := false; r_events := [w_resp "r2"] |} ].
Definition ex_long_id_run : result :=
  run ex_cfg (fun _ r => items_ok r) (fun _ _ => lit "o") (lit "p") None ex_long_id_script.
Lemma ex_long_id_shape :
  nlen (lit ex_long_id) = 70 /\ length (sent ex_long_id_run) = 1%nat /\ res_reason ex_long_id_run = InvalidRequest /\
  match res_rejected ex_long_id_run with Some q => out_ids (items_of q) = [lit ex_long_id] | None => False end.
Proof. vm_compute. repeat split. Qed.
