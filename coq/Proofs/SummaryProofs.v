(* C20 — proofs about Model/Summary.v (event_type / event_summary / truncate) *)
From RipV Require Import Base.Prelude Model.Summary.

Local Open Scope nat_scope.

(* ---------- pieces ---------- *)
Lemma dec_aux_len fuel n : length (dec_aux fuel n) <= fuel.
Proof.
  revert n; induction fuel as [|f IH]; intros n; cbn [dec_aux]; [cbn; lia|].
  destruct (n <? 10)%N; [cbn; lia|]. rewrite app_length; cbn [length]. specialize (IH (n / 10)%N). lia.
Qed.
Lemma dec_len n : length (dec n) <= 20.
Proof. apply dec_aux_len. Qed.
Lemma dec_signed_len b n : length (dec_signed b n) <= 21.
Proof. unfold dec_signed. pose proof (dec_len n). destruct b; cbn [length]; lia. Qed.

Lemma dec_aux_nonempty fuel n : fuel <> 0 -> dec_aux fuel n <> [].
Proof.
  destruct fuel as [|f]; [congruence|]. intros _. cbn [dec_aux].
  destruct (n <? 10)%N; [discriminate|]. destruct (dec_aux f (n / 10)%N); discriminate.
Qed.

Lemma hex_aux_len fuel n : length (hex_aux fuel n) <= fuel.
Proof.
  revert n; induction fuel as [|f IH]; intros n; cbn [hex_aux]; [cbn; lia|].
  destruct (n <? 16)%N; [cbn; lia|]. rewrite app_length; cbn [length]. specialize (IH (n / 16)%N). lia.
Qed.
Lemma esc_u_len c : length (esc_u c) <= 10.
Proof. unfold esc_u, hex. rewrite !app_length. cbn [length]. pose proof (hex_aux_len 6 c). lia. Qed.

Lemma esc_len unp c : 1 <= length (esc unp c) <= 10.
Proof.
  unfold esc. pose proof (esc_u_len c) as Hu.
  assert (Hu1 : 1 <= length (esc_u c)) by (unfold esc_u; rewrite !app_length; cbn [length]; lia).
  repeat match goal with |- context [if ?b then _ else _] => destruct b end; cbn [length]; lia.
Qed.

Lemma concat_esc_len unp s : length (concat (map (esc unp) s)) <= 10 * length s.
Proof.
  induction s as [|c r IH]; cbn [map concat length]; [lia|].
  rewrite app_length. pose proof (esc_len unp c). lia.
Qed.
Lemma dbg_len unp s : length (dbg unp s) <= 2 + 10 * length s.
Proof. unfold dbg. cbn [length]. rewrite app_length. cbn [length]. pose proof (concat_esc_len unp s). lia. Qed.

(* the debug rendering is quote, escaped characters in order, quote: nothing reordered or dropped *)
Lemma dbg_shape unp s : dbg unp s = [34%N] ++ concat (map (esc unp) s) ++ [34%N].
Proof. reflexivity. Qed.

(* ---------- truncate ---------- *)
Lemma trunc_len n s : length (trunc n s) <= S n.
Proof.
  unfold trunc. destruct (Nat.leb (length s) n) eqn:E; [apply Nat.leb_le in E; lia|].
  rewrite app_length, firstn_length. cbn [length]. lia.
Qed.

(* the cut falls between two characters of the input: the kept part is a prefix of exactly max_len
   characters, followed by the ellipsis; short inputs are returned unchanged *)
Theorem trunc_prefix n s :
  (length s <= n /\ trunc n s = s)
  \/ (n < length s /\ exists pre suf, s = pre ++ suf /\ length pre = n /\ trunc n s = pre ++ [ELLIPSIS]).
Proof.
  unfold trunc. destruct (Nat.leb (length s) n) eqn:E.
  - left. apply Nat.leb_le in E. auto.
  - right. apply Nat.leb_gt in E. split; [exact E|].
    exists (firstn n s), (skipn n s). split; [symmetry; apply firstn_skipn|].
    split; [rewrite firstn_length; lia | reflexivity].
Qed.

Lemma trunc_idem_short n s : length s <= n -> trunc n s = s.
Proof. intros H. unfold trunc. apply Nat.leb_le in H. rewrite H. reflexivity. Qed.

Lemma q_len unp s : length (dbg unp (trunc 64 s)) <= 652.
Proof. pose proof (dbg_len unp (trunc 64 s)). pose proof (trunc_len 64 s). lia. Qed.

(* ---------- event_summary is bounded, except for the four kinds that copy a field verbatim ---------- *)
Definition SUMMARY_MAX : nat := 652.

Ltac gen_len :=
  repeat match goal with
  | |- context [length (dbg ?u (trunc 64 ?s))] =>
    let H := fresh "H" in pose proof (q_len u s) as H;
    let x := fresh "x" in set (x := length (dbg u (trunc 64 s))) in *; clearbody x
  | |- context [length (trunc ?n ?s)] =>
    let H := fresh "H" in pose proof (trunc_len n s) as H;
    let x := fresh "x" in set (x := length (trunc n s)) in *; clearbody x
  | |- context [length (dec_signed ?b ?n)] =>
    let H := fresh "H" in pose proof (dec_signed_len b n) as H;
    let x := fresh "x" in set (x := length (dec_signed b n)) in *; clearbody x
  | |- context [length (dec ?n)] =>
    let H := fresh "H" in pose proof (dec_len n) as H;
    let x := fresh "x" in set (x := length (dec n)) in *; clearbody x
  end.

Ltac len_solve :=
  unfold L_run, L_none, L_unset, lit, or_unset, task_status_name;
  repeat match goal with
  | |- context [match ?o with Some _ => _ | None => _ end] => destruct o
  | |- context [if ?b then _ else _] => destruct b
  end;
  rewrite ?app_length; cbn [length]; rewrite ?app_length; cbn [length]; gen_len; lia.

Theorem summary_bounded unp k :
  passthrough k = None -> length (event_summary unp k) <= SUMMARY_MAX.
Proof.
  unfold SUMMARY_MAX.
  destruct k; cbn [passthrough event_summary]; intros Hp; try discriminate; try (len_solve; fail).
  (* provider_event *)
  destruct ((0 <? nerrors + nresp_errors)%N && negb (status =? 1)%N) eqn:E1.
  - len_solve.
  - destruct (status =? 0)%N eqn:E0.
    + destruct event_name as [s|]; [|cbn; lia].
      cbn [andb] in Hp. destruct (0 <? nerrors + nresp_errors)%N eqn:Ec; cbn [negb] in Hp; [|discriminate].
      cbn [andb] in E1. apply N.eqb_eq in E0. subst status. discriminate.
    + len_solve.
Qed.

Theorem summary_passthrough unp k s : passthrough k = Some s -> event_summary unp k = s.
Proof.
  destruct k; cbn [passthrough event_summary]; intros H; try discriminate; try (inversion H; reflexivity).
  destruct event_name as [e|]; [|discriminate].
  destruct (status =? 0)%N eqn:E0; cbn [andb] in H; [|discriminate].
  destruct (0 <? nerrors + nresp_errors)%N eqn:Ec; cbn [negb] in H; [discriminate|].
  inversion H; subst. cbn [andb]. reflexivity.
Qed.

(* the unbounded kinds are unbounded: the verbatim copy can exceed any limit *)
Lemma summary_unbounded_for_passthrough unp :
  forall n, exists k, n < length (event_summary unp k).
Proof. intros n. exists (SToolStarted (repeat 97%N (S n))). cbn [event_summary]. rewrite repeat_length. lia. Qed.

(* ---------- event_type ---------- *)
Fixpoint nodupb (l : list str) : bool :=
  match l with [] => true | x :: r => negb (existsb (lN_eqb x) r) && nodupb r end.
Lemma nodupb_sound l : nodupb l = true -> NoDup l.
Proof.
  induction l as [|x r IH]; cbn [nodupb]; intros H; [constructor|].
  apply andb_true_iff in H. destruct H as [H1 H2]. constructor; [|apply IH, H2].
  intros Hin. apply negb_true_iff in H1.
  assert (existsb (lN_eqb x) r = true) by (apply existsb_exists; exists x; split; [exact Hin | apply lN_eqb_spec; reflexivity]).
  congruence.
Qed.

Lemma type_names_nodup : NoDup type_names.
Proof. apply nodupb_sound. vm_compute. reflexivity. Qed.
Lemma type_names_len : length type_names = 38.
Proof. reflexivity. Qed.
Lemma kind_tag_lt k : kind_tag k < 38.
Proof. destruct k; cbn [kind_tag]; lia. Qed.

(* two frames have the same type name only if they are of the same kind; no name is empty *)
Theorem event_type_injective k1 k2 : event_type k1 = event_type k2 -> kind_tag k1 = kind_tag k2.
Proof.
  unfold event_type. intros H.
  apply (proj1 (NoDup_nth type_names []) type_names_nodup); rewrite ?type_names_len; auto using kind_tag_lt.
Qed.
Theorem event_type_nonempty k : event_type k <> [].
Proof. destruct k; cbn; discriminate. Qed.

(* ---------- the summary is a function of the frame's kind payload alone ---------- *)
Theorem summary_depends_on_frame_only unp f1 f2 :
  sf_kind f1 = sf_kind f2 -> summary_of unp f1 = summary_of unp f2 /\ type_of f1 = type_of f2.
Proof. unfold summary_of, type_of. intros ->. auto. Qed.

(* non-vacuity: a 70-character value with a multi-byte character at the cut *)
Definition demo_long : str := repeat 97%N 63 ++ [8364%N] ++ repeat 98%N 6.
Example demo_summary :
  event_summary [] (SSessionStarted demo_long) = [34%N] ++ repeat 97%N 63 ++ [8364%N; ELLIPSIS; 34%N]
  /\ length (event_summary [] (SSessionStarted demo_long)) = 67
  /\ event_summary [8203%N] (SToolFailed [8203%N; 10%N]) = [34; 92; 117; 123; 50; 48; 48; 98; 125; 92; 110; 34]%N
  /\ passthrough (SSessionStarted demo_long) = None.
Proof. vm_compute. auto. Qed.
