(* Proofs for Model/SeqCount.v (C01): the counter the provider pipe hands back is the number of frames it
   emitted, for every parsed-event list and every way of cutting it into pushes; a failed log append leaves
   the thread's counter at the number of frames the thread has. *)
From RipV Require Import Base.Prelude Model.Frames Model.Log Model.ContStore Model.ContInv Model.SessGuard
  Model.SeqCount Proofs.LogProofs Proofs.ContStoreProofs Proofs.ContOrderProofs Proofs.SessGuardProofs.

(* ================= A. the pipe ================= *)
Lemma nseq_app a n m : nseq a (n + m) = nseq a n ++ nseq (a + N.of_nat n) m.
Proof.
  revert a; induction n as [|n IH]; intros a.
  - cbn [Nat.add nseq app]. f_equal. lia.
  - cbn [Nat.add nseq app]. f_equal. rewrite IH. do 2 f_equal. lia.
Qed.

Lemma number_length s fs : length (number s fs) = length fs.
Proof. revert s; induction fs as [|f r IH]; intros s; cbn [number length]; [reflexivity|]. rewrite IH. reflexivity. Qed.
Lemma number_seqs s fs : map snd (number s fs) = nseq s (length fs).
Proof. revert s; induction fs as [|f r IH]; intros s; cbn [number map snd nseq length]; [reflexivity|]. rewrite IH. reflexivity. Qed.
Lemma number_kinds s fs : map fst (number s fs) = map fst fs.
Proof. revert s; induction fs as [|f r IH]; intros s; cbn [number map fst]; [reflexivity|]. rewrite IH. reflexivity. Qed.

(* the one fact: with the cut before the mapper, what a push adds to the counter is what it emits *)
Lemma push_parsed_count parsed :
  let '(mapped, emitted, count, _) := push CutParsed parsed in mapped = emitted /\ count = nlen emitted.
Proof. cbn [push]. split; reflexivity. Qed.

(* the invariant of the pipe: counter = offset + mapper.seq = offset + frames emitted, frames numbered from
   the offset without a gap *)
Definition pinv (off : N) (st : pstate) : Prop :=
  ps_mseq st = nlen (ps_out st) /\ ps_cnt st = off + nlen (ps_out st)
  /\ map snd (ps_out st) = nseq off (length (ps_out st)).

Lemma pinv_init off : pinv off {| ps_out := []; ps_mseq := 0; ps_cnt := off |}.
Proof. unfold pinv, nlen. cbn [ps_out ps_mseq ps_cnt length map nseq]. repeat split; lia. Qed.

Lemma pinv_push off st parsed : pinv off st -> pinv off (fst (emit_push CutParsed off st parsed)).
Proof.
  intros [Hm [Hc Hs]]. unfold emit_push. cbn [push fst ps_out ps_mseq ps_cnt].
  set (fs := map_evs (upto_done parsed)).
  unfold pinv. cbn [ps_out ps_mseq ps_cnt]. unfold nlen in *.
  rewrite app_length, number_length, map_app, number_seqs, Hs, nseq_app, Hm. repeat split; try lia.
Qed.

Lemma pinv_pushes off : forall pushes st, pinv off st -> pinv off (fst (run_pushes CutParsed off st pushes)).
Proof.
  induction pushes as [|p r IH]; intros st H; cbn [run_pushes fst]; [exact H|].
  pose proof (pinv_push off st p H) as H1.
  destruct (emit_push CutParsed off st p) as [st1 d] eqn:E. cbn [fst] in H1.
  destruct d; cbn [fst]; [exact H1|apply IH; exact H1].
Qed.

(* THE statement about the pipe: for every offset, every list of pushes (every way the provider's events
   are cut into decoder pushes: events after the terminal marker in the same push, in later pushes, no
   marker at all, several markers), every ending - the frames carry off, off+1, .. and the counter handed
   back is off + the number of frames emitted *)
Theorem pipe_counter_is_frames off pushes e :
  map snd (fst (run_pipe CutParsed off pushes e)) = nseq off (length (fst (run_pipe CutParsed off pushes e)))
  /\ snd (run_pipe CutParsed off pushes e) = off + nlen (fst (run_pipe CutParsed off pushes e)).
Proof.
  unfold run_pipe.
  pose proof (pinv_pushes off pushes _ (pinv_init off)) as H.
  destruct (run_pushes CutParsed off {| ps_out := []; ps_mseq := 0; ps_cnt := off |} pushes) as [st d] eqn:E.
  cbn [fst] in H. destruct d.
  - destruct H as [_ [Hc Hs]]. cbn [fst snd]. split; assumption.
  - destruct e as [fin|].
    + pose proof (pinv_push off st fin H) as [_ [Hc Hs]]. cbn [fst snd]. split; assumption.
    + destruct H as [_ [Hc Hs]]. cbn [fst snd]. unfold nlen in *.
      rewrite map_app, app_length, Hs, Nat.add_1_r, nseq_snoc. cbn [map snd length]. rewrite Hc. split; [reflexivity|lia].
Qed.

(* the frames a pipe emits are session frames *)
Lemma map_evs_kinds evs : forallb is_sess (map fst (map_evs evs)) = true.
Proof.
  induction evs as [|e r IH]; [reflexivity|].
  change (map_evs (e :: r)) with (ev_frames e ++ map_evs r). rewrite map_app, forallb_app.
  apply andb_true_intro. split; [|exact IH].
  unfold ev_frames. destruct (pv_delta e); reflexivity.
Qed.
Definition kinds_ok (st : pstate) : Prop := forallb is_sess (map fst (ps_out st)) = true.
Lemma kinds_push off st parsed : kinds_ok st -> kinds_ok (fst (emit_push CutParsed off st parsed)).
Proof.
  unfold kinds_ok, emit_push. cbn [push fst ps_out]. intros H.
  rewrite map_app, forallb_app, H, number_kinds. apply (map_evs_kinds (upto_done parsed)).
Qed.
Lemma kinds_pushes off : forall pushes st, kinds_ok st -> kinds_ok (fst (run_pushes CutParsed off st pushes)).
Proof.
  induction pushes as [|p r IH]; intros st H; cbn [run_pushes fst]; [exact H|].
  pose proof (kinds_push off st p H) as H1.
  destruct (emit_push CutParsed off st p) as [st1 d] eqn:E. cbn [fst] in H1.
  destruct d; cbn [fst]; [exact H1|apply IH; exact H1].
Qed.
Lemma pipe_kinds off pushes e : forallb is_sess (map fst (fst (run_pipe CutParsed off pushes e))) = true.
Proof.
  unfold run_pipe.
  assert (H0 : kinds_ok {| ps_out := []; ps_mseq := 0; ps_cnt := off |}) by reflexivity.
  pose proof (kinds_pushes off pushes _ H0) as H.
  destruct (run_pushes CutParsed off {| ps_out := []; ps_mseq := 0; ps_cnt := off |} pushes) as [st d] eqn:E.
  cbn [fst] in H. destruct d; [exact H|]. destruct e as [fin|].
  - apply (kinds_push off st fin H).
  - cbn [fst]. unfold kinds_ok in H. rewrite map_app, forallb_app, H. reflexivity.
Qed.

(* a run with pipes is a run of unit sites (Model/SessGuard.v run_frames): frame at the counter, counter + 1 *)
Definition unit_sites (ts : list etype) : list (etype * N) := map (fun t => (t, 1)) ts.
Lemma run_frames_app sid a : forall cnt b,
  run_frames sid cnt (unit_sites a ++ b) = run_frames sid cnt (unit_sites a) ++ run_frames sid (cnt + nlen a) b.
Proof.
  induction a as [|t r IH]; intros cnt b.
  - cbn [unit_sites map app run_frames]. unfold nlen. cbn [length N.of_nat]. rewrite N.add_0_r. reflexivity.
  - cbn [unit_sites map app run_frames]. fold (unit_sites r). rewrite IH. cbn [app]. do 3 f_equal.
    unfold nlen. cbn [length]. lia.
Qed.
Lemma numbered_frames sid : forall out cnt, map snd out = nseq cnt (length out) ->
  map (mkf sid) out = run_frames sid cnt (unit_sites (map fst out)).
Proof.
  induction out as [|[t s] r IH]; intros cnt H; [reflexivity|].
  cbn [map snd length nseq] in H. inversion H as [[H0 H1]]. subst s.
  cbn [map fst unit_sites run_frames]. fold (unit_sites (map fst r)). unfold mkf at 1. cbn [fst snd].
  f_equal. apply IH. exact H1.
Qed.

Fixpoint seg_kinds (cnt : N) (segs : list seg) : list etype :=
  match segs with
  | [] => []
  | SSite t :: r => t :: seg_kinds (cnt + 1) r
  | SPipe ps e :: r => map fst (fst (run_pipe CutParsed cnt ps e)) ++ seg_kinds (snd (run_pipe CutParsed cnt ps e)) r
  end.

Lemma run_segs_is_run_frames sid : forall segs cnt,
  run_segs CutParsed sid cnt segs = run_frames sid cnt (unit_sites (seg_kinds cnt segs)).
Proof.
  induction segs as [|s r IH]; intros cnt; [reflexivity|]. destruct s as [t|ps e].
  - cbn [run_segs seg_kinds unit_sites map run_frames]. fold (unit_sites (seg_kinds (cnt + 1) r)).
    unfold mkf. cbn [fst snd]. f_equal. apply IH.
  - cbn [run_segs seg_kinds]. destruct (pipe_counter_is_frames cnt ps e) as [Hs Hc].
    destruct (run_pipe CutParsed cnt ps e) as [out cnt'] eqn:E. cbn [fst snd] in *.
    unfold unit_sites. rewrite map_app. fold (unit_sites (map fst out)). fold (unit_sites (seg_kinds cnt' r)).
    rewrite run_frames_app. rewrite (numbered_frames sid out cnt Hs). f_equal.
    rewrite IH. unfold nlen in *. rewrite map_length. rewrite Hc. reflexivity.
Qed.

Lemma seg_kinds_sess : forall segs cnt, forallb seg_ok segs = true -> forallb is_sess (seg_kinds cnt segs) = true.
Proof.
  induction segs as [|s r IH]; intros cnt H; [reflexivity|].
  cbn [forallb] in H. apply andb_true_iff in H. destruct H as [H1 H2]. destruct s as [t|ps e].
  - cbn [seg_kinds forallb]. cbn [seg_ok] in H1. rewrite H1. apply IH. exact H2.
  - cbn [seg_kinds]. rewrite forallb_app, pipe_kinds. apply IH. exact H2.
Qed.

Lemma unit_sites_fst ts : map fst (unit_sites ts) = ts.
Proof. induction ts as [|t r IH]; [reflexivity|]. cbn [unit_sites map fst]. fold (unit_sites r). rewrite IH. reflexivity. Qed.
Lemma unit_sites_one ts : Forall (fun s : etype * N => snd s = 1) (unit_sites ts).
Proof. induction ts as [|t r IH]; constructor; [reflexivity|exact IH]. Qed.

(* any run: single sites and any number of pipes, each over any pushes with any ending - the session's
   stream is 0,1,2,.. *)
Theorem run_with_pipes_valid sid segs : forallb seg_ok segs = true -> Valid (run_segs CutParsed sid 0 segs).
Proof.
  intros H. rewrite run_segs_is_run_frames. apply run_counter_valid.
  - rewrite unit_sites_fst. apply seg_kinds_sess. exact H.
  - apply unit_sites_one.
Qed.
Theorem run_with_pipes_validates sid segs : forallb seg_ok segs = true -> validate (run_segs CutParsed sid 0 segs) = true.
Proof. intros H. apply validate_spec. apply run_with_pipes_valid. exact H. Qed.

(* ... for the pipe as the extractor finds it (Gen/AppendOps.v gen_pipe_cut, obligation gen_pipe_cut_ok) *)
Theorem run_with_pipes_as_built (ok : bool) (ck : cutk) :
  ok && cutk_eqb ck PIPE_CUT = true ->
  forall sid segs, forallb seg_ok segs = true -> validate (run_segs ck sid 0 segs) = true.
Proof.
  intros H sid segs Hs. apply andb_true_iff in H. destruct H as [_ H].
  destruct ck; [|discriminate H]. apply run_with_pipes_validates. exact Hs.
Qed.

(* the cut after the count (seeded change C01-8): a text delta, the marker, and in the same push a late
   delta and one more event; five frames before the pipe, the closing frame after it *)
Definition w_late_push : list pev := [pe false true; pe true false; pe false true; pe false false].
Definition w_late_run : list seg :=
  [SSite ESessionStarted; SSite EOpenResponsesRequest; SSite EOpenResponsesRequestStarted;
   SSite EOpenResponsesResponseHeaders; SSite EOpenResponsesResponseFirstByte;
   SPipe [w_late_push] (EndFinish []); SSite ESessionEnded].
Lemma w_late_hyps : forallb seg_ok w_late_run = true.
Proof. vm_compute. reflexivity. Qed.
Lemma w_late_invalid :
  validate (run_segs CutFramesAfterCount 7 0 w_late_run) = false
  /\ map seq (run_segs CutFramesAfterCount 7 0 w_late_run) = [0; 1; 2; 3; 4; 5; 6; 7; 11]
  /\ snd (run_pipe CutFramesAfterCount 5 [w_late_push] (EndFinish [])) = 11
  /\ nlen (fst (run_pipe CutFramesAfterCount 5 [w_late_push] (EndFinish []))) = 3.
Proof. repeat split; vm_compute; reflexivity. Qed.
Lemma w_late_as_built :
  validate (run_segs CutParsed 7 0 w_late_run) = true
  /\ map seq (run_segs CutParsed 7 0 w_late_run) = [0; 1; 2; 3; 4; 5; 6; 7; 8].
Proof. split; vm_compute; reflexivity. Qed.
(* the late events in a LATER push: never read, either way *)
Lemma w_late_other_push :
  validate (run_segs CutFramesAfterCount 7 0
     [SSite ESessionStarted; SPipe [[pe false true; pe true false]; [pe false true; pe false false]] (EndFinish []); SSite ESessionEnded]) = true.
Proof. vm_compute. reflexivity. Qed.

(* ================= B. a failed log append ================= *)
Lemma wf_failed_call c : wf_prog (MTarget c :: failed_append) = true.
Proof. reflexivity. Qed.
Lemma fail_at_locked t ar : fail_at 0 (locked_append t ar) = failed_append.
Proof. reflexivity. Qed.
Lemma fail_at_lineage_0 t a1 a2 : fail_at 0 (lineage_prog t a1 a2) = [MLock; MAlloc; MUnlock].
Proof. reflexivity. Qed.
(* the creation frame went in, the lineage frame was refused: what is left is a plain thread creation *)
Lemma fail_at_lineage_1 t a1 a2 : fail_at 1 (lineage_prog t a1 a2) = create_prog a1.
Proof. reflexivity. Qed.
Lemma fail_at_lineage_more t a1 a2 k : fail_at (S (S k)) (lineage_prog t a1 a2) = lineage_prog t a1 a2.
Proof. reflexivity. Qed.
Lemma fail_at_create_0 ar : fail_at 0 (create_prog ar) = [MLock; MAlloc; MUnlock].
Proof. reflexivity. Qed.
Lemma fail_at_create_more ar k : fail_at (S k) (create_prog ar) = create_prog ar.
Proof. reflexivity. Qed.

Lemma wf_fail_at_lineage t a1 a2 k : is_cont t = true -> wf_prog (fail_at k (lineage_prog t a1 a2)) = true.
Proof.
  intros H. destruct k as [|[|k]].
  - reflexivity.
  - rewrite fail_at_lineage_1. apply wf_create.
  - rewrite fail_at_lineage_more. apply wf_lineage. exact H.
Qed.
Lemma wf_fail_at_create ar k : wf_prog (fail_at k (create_prog ar)) = true.
Proof. destruct k as [|k]; [reflexivity|]. rewrite fail_at_create_more. apply wf_create. Qed.
Lemma wf_fail_at_locked c t ar k : is_cont t = true -> wf_prog (MTarget c :: fail_at k (locked_append t ar)) = true.
Proof. intros H. destruct k as [|k]; [reflexivity|]. apply wf_locked_call. exact H. Qed.

(* the actors of every append-failure case are well-formed programs *)
Lemma wf_appends_trace c : forall tr,
  forallb (fun x : option etype => match x with Some t => is_cont t | None => true end) tr = true ->
  wf_prog (concat (map (fun x : option etype => MTarget c :: match x with Some t => locked_append t [] | None => failed_append end) tr)) = true.
Proof.
  induction tr as [|x r IH]; intros H; [reflexivity|].
  cbn [forallb] in H. apply andb_true_iff in H. destruct H as [H1 H2].
  cbn [map concat]. apply wf_prog_app; [|apply IH; exact H2].
  destruct x as [t|]; [apply wf_locked_call; exact H1|apply wf_failed_call].
Qed.
Theorem fcall_wf l o : fcall_ok o = true -> wf_prog (prog_of_fcall l o) = true.
Proof.
  intros H. destruct o as [th tr|t th k|k|]; cbn [prog_of_fcall fcall_ok] in *.
  - apply wf_appends_trace. exact H.
  - apply (wf_prog_app [MTarget (nth_thread l th); MRead]); [reflexivity|].
    destruct k as [k|]; [apply wf_fail_at_lineage; exact H|apply wf_lineage; exact H].
  - destruct k as [k|]; [apply wf_fail_at_create|apply wf_create].
  - reflexivity.
Qed.

(* under `advance only after a successful append` - the shape T1 re-reads from every writer - failed appends
   are just more well-formed programs: any number of actors, any mix of successful and failed calls, any
   schedule; once everybody is outside a call every thread's counter, where cached, IS the number of frames
   the thread has in the log (next_seq = last_seq + 1) *)
Theorem failed_appends_leave_counter ps sched st :
  SInv st -> progs_wf ps -> sess_fresh st ps -> sess_distinct ps ->
  AllIdle (run sched (spawn ps st)) ->
  forall c n, s_next (run sched (spawn ps st)) c = Some n -> n = next_of KContinuity c (s_log (run sched (spawn ps st))).
Proof.
  intros H1 H2 H3 H4 H5 c n Hn.
  apply (si_next _ (sinv_after_quiescence ps sched st H1 H2 H3 H4 H5) c n Hn).
Qed.

(* one actor on the empty store: create a thread, a message, then run_ended is refused, then the retry and a
   message go in: the thread reads 0,1,2,3, and right after the refused call the counter is still 2 *)
Definition w_fail_prog (failed : list mstep) : list mstep :=
  create_prog [] ++ MTarget 0 :: locked_append EContinuityMessageAppended []
  ++ MTarget 0 :: failed ++ MTarget 0 :: locked_append EContinuityRunEnded []
  ++ MTarget 0 :: locked_append EContinuityMessageAppended [].
Definition w_fail_actors : list (list mstep * N) := [(w_fail_prog failed_append, 0)].
Lemma w_fail_hyps :
  SInv empty_state /\ progs_wf w_fail_actors /\ sess_fresh empty_state w_fail_actors /\ sess_distinct w_fail_actors.
Proof.
  split; [apply empty_sinv|]. split; [repeat constructor|]. split; [repeat constructor; discriminate|].
  cbn [w_fail_actors sess_distinct]. split; [discriminate|exact I].
Qed.
Lemma w_fail_result :
  s_next (run (repeat 0 20) (spawn w_fail_actors empty_state)) 0 = Some 2
  /\ map seq (s_log (run (repeat 0 20) (spawn w_fail_actors empty_state))) = [0; 1]
  /\ map seq (cstream 0 (s_log (run (repeat 0 36) (spawn w_fail_actors empty_state)))) = [0; 1; 2; 3]
  /\ validate (s_log (run (repeat 0 36) (spawn w_fail_actors empty_state))) = true.
Proof. repeat split; vm_compute; reflexivity. Qed.

(* the writer that reserves (seeded change C01-7): not a well-formed program, and the same history reads
   0,1,3,4 *)
Definition w_reserve_actors : list (list mstep * N) := [(w_fail_prog reserved_failed_append, 0)].
Lemma w_reserve_invalid :
  wf_prog (MTarget 0 :: reserved_failed_append) = false
  /\ s_next (run (repeat 0 21) (spawn w_reserve_actors empty_state)) 0 = Some 3
  /\ map seq (s_log (run (repeat 0 21) (spawn w_reserve_actors empty_state))) = [0; 1]
  /\ map seq (cstream 0 (s_log (run (repeat 0 37) (spawn w_reserve_actors empty_state)))) = [0; 1; 3; 4]
  /\ validate (s_log (run (repeat 0 37) (spawn w_reserve_actors empty_state))) = false.
Proof. repeat split; vm_compute; reflexivity. Qed.

(* ================= C. the session emitter ================= *)
Lemma emit_unchecked_all_ok sid : forall ts cnt,
  emit_unchecked sid cnt (map (fun t => (t, true)) ts) = run_frames sid cnt (unit_sites ts).
Proof.
  induction ts as [|t r IH]; intros cnt; [reflexivity|].
  cbn [map emit_unchecked unit_sites run_frames app]. fold (unit_sites r). rewrite IH. reflexivity.
Qed.
Theorem emit_unchecked_valid sid ts :
  forallb is_sess ts = true -> Valid (emit_unchecked sid 0 (map (fun t => (t, true)) ts)).
Proof.
  intros H. rewrite emit_unchecked_all_ok. apply run_counter_valid; [rewrite unit_sites_fst; exact H|apply unit_sites_one].
Qed.
(* one refused write in the middle of a run: the log has a hole *)
Definition w_refused_run : list (etype * bool) := [(ESessionStarted, true); (EOutputTextDelta, false); (ESessionEnded, true)].
Lemma w_refused_invalid :
  validate (emit_unchecked 7 0 w_refused_run) = false /\ map seq (emit_unchecked 7 0 w_refused_run) = [0; 2].
Proof. split; vm_compute; reflexivity. Qed.
