(* C16 — the send gate decides by the validator's verdict alone (Model/ToolLoopGate.v). *)
From Coq Require Import Strings.String Strings.Ascii Lia.
From RipV Require Import Base.Prelude Base.Json Base.Utf8 Model.ToolLoop Model.ToolLoopGate Proofs.ToolLoopProofs.

Lemma filter_map_total_length {A B} (f : A -> option B) (l : list A) :
  (forall x, f x <> None) -> length (filter_map f l) = length l.
Proof.
  intros Ht. induction l as [|x r IH]; cbn [filter_map length]; [reflexivity|].
  destruct (f x) eqn:E; [cbn [length]; now rewrite IH | now elim (Ht x)].
Qed.

Lemma filter_map_keep (l : list str) : filter_map POST_KEEP l = l.
Proof. induction l as [|x r IH]; cbn [filter_map POST_KEEP]; [reflexivity | now rewrite IH]. Qed.

(* a post-processing that never drops a message: as many errors as the validator reported *)
Lemma payload_errors_count post verrs :
  (forall m, post m <> None) -> length (payload_errors post verrs) = length verrs.
Proof. intros Ht. unfold payload_errors. now apply filter_map_total_length. Qed.

Lemma gate_open_total post verrs :
  (forall m, post m <> None) -> gate_open post verrs = is_nil verrs.
Proof.
  intros Ht. unfold gate_open. pose proof (payload_errors_count post verrs Ht) as Hl.
  destruct (payload_errors post verrs), verrs; cbn [length is_nil] in *; try reflexivity; discriminate.
Qed.

Lemma shape_total s post : shape_never_drops s = true -> shape_admits s post -> forall m, post m <> None.
Proof.
  destruct s; cbn [shape_never_drops shape_admits]; intros Hs Ha m; try discriminate.
  - rewrite Ha. discriminate.
  - apply Ha.
Qed.

(* the gate is the validator's verdict, for every shape T1 accepts *)
Lemma gate_is_verdict s post verrs :
  shape_never_drops s = true -> shape_admits s post ->
  gate_open post verrs = is_nil verrs /\ length (payload_errors post verrs) = length verrs.
Proof.
  intros Hs Ha. pose proof (shape_total s post Hs Ha) as Ht. split.
  - now apply gate_open_total.
  - now apply payload_errors_count.
Qed.

(* ... hence independent of the messages themselves (their lengths, what they quote): only their number counts,
   and only whether it is zero *)
Lemma gate_ignores_messages s post verrs verrs' :
  shape_never_drops s = true -> shape_admits s post ->
  (verrs = [] <-> verrs' = []) -> gate_open post verrs = gate_open post verrs'.
Proof.
  intros Hs Ha Hn. pose proof (shape_total s post Hs Ha) as Ht.
  rewrite !gate_open_total by assumption.
  destruct verrs, verrs'; cbn [is_nil]; try reflexivity.
  - destruct Hn as [Hn _]. specialize (Hn eq_refl). discriminate.
  - destruct Hn as [_ Hn]. specialize (Hn eq_refl). discriminate.
Qed.

Lemma gate_keep verrs : gate_open POST_KEEP verrs = is_nil verrs /\ payload_errors POST_KEEP verrs = verrs.
Proof.
  split.
  - apply gate_open_total. intros m. unfold POST_KEEP. discriminate.
  - apply filter_map_keep.
Qed.

Lemma post_keep_admitted : shape_admits POST_SHAPE POST_KEEP /\ shape_never_drops POST_SHAPE = true.
Proof. split; [intros m; reflexivity | reflexivity]. Qed.

Lemma is_nil_true {A} (l : list A) : is_nil l = true <-> l = [].
Proof. destruct l; cbn [is_nil]; split; intros H; try reflexivity; discriminate. Qed.
Lemma is_nil_false {A} (l : list A) : is_nil l = false <-> l <> [].
Proof. destruct l; cbn [is_nil]; split; intros H; try discriminate; try reflexivity; now elim H. Qed.

(* the loop with the gate spelled out: every request that is sent had NO validator message; a request with a message
   is refused and ends the run — whatever the messages are *)
Lemma invalid_never_sent_by_errors s post verrs g tool prompt init script :
  shape_never_drops s = true -> shape_admits s post ->
  (forall i q, nth_error (sent (run g (valid_by post verrs) tool prompt init script)) i = Some q ->
     verrs (N.of_nat i) q = []) /\
  (forall q, res_rejected (run g (valid_by post verrs) tool prompt init script) = Some q ->
     res_reason (run g (valid_by post verrs) tool prompt init script) = InvalidRequest /\
     verrs (nlen (sent (run g (valid_by post verrs) tool prompt init script))) q <> []).
Proof.
  intros Hs Ha. pose proof (shape_total s post Hs Ha) as Ht.
  destruct (invalid_never_sent g (valid_by post verrs) tool prompt init script) as [H1 H2]. split.
  - intros i q Hq. specialize (H1 i q Hq). unfold valid_by in H1.
    rewrite gate_open_total in H1 by assumption. now apply is_nil_true.
  - intros q Hq. destruct (H2 q Hq) as [Hr Hv]. split; [assumption|]. unfold valid_by in Hv.
    rewrite gate_open_total in Hv by assumption. now apply is_nil_false.
Qed.

(* ---------- clipping ---------- *)
Lemma clip_floor_total n m : clip_floor n m <> None.
Proof. unfold clip_floor. destruct (blen m <=? n); discriminate. Qed.

Lemma cp_len_pos c : 1 <= cp_len c.
Proof.
  unfold cp_len, encode_cp, nlen.
  destruct (c <? 128); [cbn; lia|]. destruct (c <? 2048); [cbn; lia|]. destruct (c <? 65536); cbn; lia.
Qed.

(* the clipped message keeps to the bound (plus the ellipsis) and is a prefix of the original *)
Lemma floor_to_bound m : forall n, blen (floor_to m n) <= n.
Proof.
  induction m as [|c r IH]; intros n; cbn [floor_to blen]; [lia|].
  destruct (cp_len c <=? n) eqn:E; cbn [blen]; [|lia].
  apply N.leb_le in E. specialize (IH (n - cp_len c)). lia.
Qed.
Lemma floor_to_prefix m : forall n, exists t, m = floor_to m n ++ t.
Proof.
  induction m as [|c r IH]; intros n; cbn [floor_to]; [now exists []|].
  destruct (cp_len c <=? n); [|now exists (c :: r)].
  destruct (IH (n - cp_len c)) as [t Ht]. exists t. cbn [app]. now rewrite <- Ht.
Qed.

(* `get(..n)` answers None exactly when byte n is not a boundary: for the 2049-byte message, at 2048 *)
Lemma msg_2049_shape : blen MSG_2049 = 2049 /\ get_to MSG_2049 2048 = None /\ get_to MSG_2049 2047 <> None.
Proof. vm_compute. repeat split. discriminate. Qed.

Lemma clip_get_drops : clip_get 2048 MSG_2049 = None.
Proof. vm_compute. reflexivity. Qed.

(* the seeded shape opens the gate for an invalid request *)
Lemma clip_get_gate_refuted :
  exists verrs, verrs <> [] /\ gate_open (clip_get 2048) verrs = true /\ gate_open (clip_floor 2048) verrs = false.
Proof. exists [MSG_2049]. split; [discriminate|]. vm_compute. split; reflexivity. Qed.

(* ... and the loop then SENDS a request the validator has a message for *)
Definition clip_cfg : cfg := {| g_stateless := false; g_choice := JStr (lit "auto"); g_followup := None; g_fixed := true |}.
Definition clip_verrs : N -> request -> list str := fun _ _ => [MSG_2049].
Definition clip_run (post : str -> option str) : result :=
  run clip_cfg (valid_by post clip_verrs) (fun _ _ => lit "o") (lit "p") None [].
Lemma clip_get_sends_invalid_refuted :
  exists q, nth_error (sent (clip_run (clip_get 2048))) 0 = Some q /\ clip_verrs 0 q <> [] /\
            res_rejected (clip_run (clip_get 2048)) = None /\
            sent (clip_run (clip_floor 2048)) = [] /\ res_reason (clip_run (clip_floor 2048)) = InvalidRequest.
Proof.
  eexists. split; [vm_compute; reflexivity|]. split; [discriminate|].
  vm_compute. repeat split; reflexivity.
Qed.

(* example: three messages of very different lengths, the gate stays shut under every admitted post-processing *)
Lemma ex_gate_long_and_short :
  gate_open POST_KEEP [MSG_2049; lit "x"; []] = false /\ gate_open (clip_floor 2048) [MSG_2049; lit "x"; []] = false /\
  gate_open POST_KEEP [] = true.
Proof. vm_compute. repeat split; reflexivity. Qed.
