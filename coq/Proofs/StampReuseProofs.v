(* C14: the size + mtime shortcut of seeded change C14-8 on the model.  Without a previous checkpoint it IS create; with
   one, on a clock that does not advance (or after a tool put the old time back), a second checkpoint taken after an edit
   of the same length records the FIRST checkpoint's bytes, and the rewind to it succeeds with bytes the file did not
   have when that checkpoint was taken. *)
From RipV Require Import Base.Prelude Base.Fs Model.Paths Model.Checkpoint Model.StampReuse Proofs.CheckpointProofs.
Require Import Coq.Strings.String.

Lemma map_res_ext {A B} (g h : A -> res B) : (forall x, g x = h x) -> forall l, map_res g l = map_res h l.
Proof.
  intros E l. induction l as [|x l IH]; [reflexivity|]. cbn [map_res]. rewrite E, IH. reflexivity.
Qed.

(* no previous checkpoint: nothing to reuse *)
Theorem create_reuse_first mt f root raws : create_reuse mt [] f root raws = create f root raws.
Proof.
  unfold create_reuse, create. destruct (map_res (to_relative root) raws) as [rels|e]; [|reflexivity].
  apply map_res_ext. intros rel. unfold save_one_reuse. destruct (save_one f rel) as [[r [b|]]|e]; reflexivity.
Qed.

Definition t_root : str := bs "/r/ws"%string.
Definition t_a : str := bs "config.toml"%string.
Definition t_f1 : fs := [([t_a], File (bs "retries = 3"%string))].
Definition t_f2 : fs := [([t_a], File (bs "retries = 5"%string))].   (* same length *)
Definition t_f3 : fs := [([t_a], File (bs "something else"%string))].
Definition t_frozen : str -> N := fun _ => 1600000000.
Definition t_ck1 : list entry := [(t_a, Some (bs "retries = 3"%string))].

Theorem stamp_reuse_refuted :
  exists mt f1 f2 f3 root raws ck1 ck2 f4 b,
    create_reuse mt [] f1 root raws = Ok ck1
    /\ create_reuse mt (recorded mt ck1) f2 root raws = Ok ck2     (* the second checkpoint, taken from f2 *)
    /\ create f2 root raws <> Ok ck2                                 (* ... is not what reading f2 gives *)
    /\ sane_b f3 = true /\ rewind f3 ck2 = (f4, None)                (* the rewind to it succeeds *)
    /\ os_read f2 (tgt_of t_a) = Ok b /\ os_read f4 (tgt_of t_a) <> Ok b.   (* with other bytes than f2 had *)
Proof.
  exists t_frozen, t_f1, t_f2, t_f3, t_root, [t_a], t_ck1, t_ck1, t_f1, (bs "retries = 5"%string).
  split; [vm_compute; reflexivity|]. split; [vm_compute; reflexivity|]. split; [vm_compute; discriminate|].
  split; [vm_compute; reflexivity|]. split; [vm_compute; reflexivity|]. split; [vm_compute; reflexivity|].
  vm_compute. discriminate.
Qed.
