(* C04 — the seek-index lookup and the full-sidecar window read through it (Model/SeekIndex.v). *)
From RipV Require Import Base.Prelude Model.Compile Proofs.CompileProofs Model.CacheCompile Proofs.CacheCompileProofs Model.SeekIndex.

(* ------------------------------------------------------------------ the lookup *)
Lemma best_entry_some : forall es t b e, best_entry es t b = Some e -> b = Some e \/ In e es.
Proof.
  induction es as [|a r IH]; intros t b e H; cbn [best_entry] in H.
  - left; exact H.
  - destruct (fst a <=? t) eqn:E.
    + apply IH in H. destruct H as [H|H]; [right; left; congruence | right; right; exact H].
    + left; exact H.
Qed.

Lemma best_entry_acc_some : forall es t a, exists e, best_entry es t (Some a) = Some e.
Proof.
  induction es as [|x r IH]; intros t a; cbn [best_entry].
  - eauto.
  - destruct (fst x <=? t); [apply IH | eauto].
Qed.

Lemma best_entry_le : forall es t b e,
  best_entry es t b = Some e -> (forall e0, b = Some e0 -> fst e0 <= t) -> fst e <= t.
Proof.
  induction es as [|a r IH]; intros t b e H Hb; cbn [best_entry] in H.
  - apply Hb; exact H.
  - destruct (fst a <=? t) eqn:E.
    + eapply IH; [exact H|]. intros e0 He0. inversion He0; subst. lia.
    + apply Hb; exact H.
Qed.

Lemma sorted_from_ge : forall es lo e, sorted_from lo es = true -> In e es -> lo <= fst e.
Proof.
  induction es as [|a r IH]; intros lo e Hs Hin; [destruct Hin|].
  cbn [sorted_from] in Hs. apply andb_true_iff in Hs. destruct Hs as [H1 H2].
  destruct Hin as [->|Hin]; [lia|]. specialize (IH _ _ H2 Hin). lia.
Qed.

Lemma sorted_from_weaken : forall es lo lo', lo' <= lo -> sorted_from lo es = true -> sorted_from lo' es = true.
Proof.
  destruct es as [|a r]; intros lo lo' Hle Hs; [reflexivity|].
  cbn [sorted_from] in *. apply andb_true_iff in Hs. destruct Hs as [H1 H2].
  apply andb_true_iff; split; [lia | exact H2].
Qed.

(* the entry found is the GREATEST with seq <= target: every entry at or below the target is at or below it *)
Lemma best_entry_greatest : forall es lo t b e',
  sorted_from lo es = true -> In e' es -> fst e' <= t ->
  exists e, best_entry es t b = Some e /\ In e es /\ fst e' <= fst e.
Proof.
  induction es as [|a r IH]; intros lo t b e' Hs Hin Hle; [destruct Hin|].
  cbn [sorted_from] in Hs. apply andb_true_iff in Hs. destruct Hs as [H1 H2].
  cbn [best_entry].
  destruct Hin as [->|Hin].
  - replace (fst e' <=? t) with true by lia.
    destruct (best_entry_acc_some r t e') as [e He]. exists e. split; [exact He|].
    apply best_entry_some in He. destruct He as [He|He].
    + inversion He; subst. split; [left; reflexivity | lia].
    + split; [right; exact He|]. pose proof (sorted_from_ge _ _ _ H2 He). lia.
  - pose proof (sorted_from_ge _ _ _ H2 Hin) as Hge.
    replace (fst a <=? t) with true by lia.
    destruct (IH (fst a + 1) t (Some a) e' H2 Hin Hle) as [e [He [Hi Hl]]].
    exists e. split; [exact He|]. split; [right; exact Hi | exact Hl].
Qed.

Lemma best_entry_none : forall es lo t e',
  sorted_from lo es = true -> best_entry es t None = None -> In e' es -> t < fst e'.
Proof.
  intros es lo t e' Hs Hn Hin.
  destruct (N.le_gt_cases (fst e') t) as [Hle|Hgt]; [|exact Hgt].
  destruct (best_entry_greatest es lo t None e' Hs Hin Hle) as [e [He _]]. congruence.
Qed.

(* ------------------------------------------------------------------ contiguous logs: position = seq *)
Lemma contig_ge : forall l b f, contig_from b l = true -> In f l -> b <= fseq f.
Proof.
  induction l as [|x r IH]; intros b f Hc Hin; [destruct Hin|].
  cbn [contig_from] in Hc. apply andb_true_iff in Hc. destruct Hc as [H1 H2].
  destruct Hin as [->|Hin]; [lia|]. specialize (IH _ _ H2 Hin). lia.
Qed.

Lemma contig_skipn : forall k l b, contig_from b l = true -> contig_from (b + N.of_nat k) (skipn k l) = true.
Proof.
  induction k as [|k IH]; intros l b Hc.
  - cbn [skipn]. replace (b + N.of_nat 0) with b by lia. exact Hc.
  - destruct l as [|x r]; [reflexivity|]. cbn [skipn].
    cbn [contig_from] in Hc. apply andb_true_iff in Hc. destruct Hc as [H1 H2].
    replace (b + N.of_nat (S k)) with (b + 1 + N.of_nat k) by lia. apply IH. exact H2.
Qed.

Lemma contig_firstn_lt : forall k l b f, contig_from b l = true -> In f (firstn k l) -> fseq f < b + N.of_nat k.
Proof.
  induction k as [|k IH]; intros l b f Hc Hin; [destruct Hin|].
  destruct l as [|x r]; [destruct Hin|]. cbn [firstn] in Hin.
  cbn [contig_from] in Hc. apply andb_true_iff in Hc. destruct Hc as [H1 H2].
  destruct Hin as [->|Hin]; [lia|]. specialize (IH _ _ _ H2 Hin). lia.
Qed.

Lemma in_skipn {A} : forall k (l : list A) x, In x (skipn k l) -> In x l.
Proof.
  intros k l x H. rewrite <- (firstn_skipn k l). apply in_or_app. right. exact H.
Qed.

Lemma filter_beyond_nil : forall l c from (Q : frame -> bool),
  contig_from c l = true -> from < c -> filter (fun f => Q f && (fseq f <=? from)) l = [].
Proof.
  induction l as [|x r IH]; intros c from Q Hc Hlt; [reflexivity|].
  cbn [contig_from] in Hc. apply andb_true_iff in Hc. destruct Hc as [H1 H2].
  cbn [filter]. replace (fseq x <=? from) with false by lia. rewrite andb_false_r.
  apply (IH (c + 1)); [exact H2 | lia].
Qed.

Lemma upto_beyond_nil : forall l c from, contig_from c l = true -> from < c -> upto from l = [].
Proof.
  intros l c from Hc Hlt. unfold upto.
  pose proof (filter_beyond_nil l c from (fun _ => true) Hc Hlt) as H. cbn [andb] in H. exact H.
Qed.

(* ------------------------------------------------------------------ the index of a contiguous sidecar *)
Lemma index_from_in : forall l stride pos b s o,
  contig_from b l = true -> In (s, o) (index_from stride pos l) -> b <= s /\ o = pos + (s - b).
Proof.
  induction l as [|x r IH]; intros stride pos b s o Hc Hin; [destruct Hin|].
  cbn [contig_from] in Hc. apply andb_true_iff in Hc. destruct Hc as [H1 H2].
  cbn [index_from] in Hin. apply in_app_or in Hin. destruct Hin as [Hin|Hin].
  - destruct (fseq x mod stride =? 0); [|destruct Hin].
    destruct Hin as [Hin|[]]. inversion Hin; subst. split; lia.
  - destruct (IH _ _ _ _ _ H2 Hin) as [Ha Hb]. split; lia.
Qed.

Lemma index_from_sorted : forall l stride pos b, contig_from b l = true -> sorted_from b (index_from stride pos l) = true.
Proof.
  induction l as [|x r IH]; intros stride pos b Hc; [reflexivity|].
  cbn [contig_from] in Hc. apply andb_true_iff in Hc. destruct Hc as [H1 H2].
  cbn [index_from]. specialize (IH stride (pos + 1) (b + 1) H2).
  destruct (fseq x mod stride =? 0); cbn [app].
  - cbn [sorted_from fst]. apply andb_true_iff. split; [lia|].
    replace (fseq x + 1) with (b + 1) by lia. exact IH.
  - eapply sorted_from_weaken; [|exact IH]. lia.
Qed.

(* the lookup of the code never starts beyond the target *)
Lemma best_offset_le : forall stride l t, valid_log l = true -> best_offset (seek_index stride l) t <= t.
Proof.
  intros stride l t Hv. unfold best_offset, seek_index.
  destruct (best_entry (index_from stride 0 l) t None) as [[s o]|] eqn:E; cbn [offset_of snd]; [|lia].
  pose proof (best_entry_le _ _ _ _ E) as Hle. cbn [fst] in Hle.
  assert (Hs : s <= t) by (apply Hle; intros e0 He0; discriminate).
  apply best_entry_some in E. destruct E as [E|E]; [discriminate|].
  destruct (index_from_in _ _ _ _ _ _ Hv E) as [_ Ho]. lia.
Qed.

(* ------------------------------------------------------------------ the three reads *)
Lemma boundary_firstn : forall l k c from,
  contig_from c l = true -> c + N.of_nat k <= from + 1 ->
  firstn (k + N.to_nat (lines_upto from (skipn k l))) l = upto from l.
Proof.
  induction l as [|x r IH]; intros k c from Hc Hk.
  - rewrite firstn_nil. reflexivity.
  - cbn [contig_from] in Hc. apply andb_true_iff in Hc. destruct Hc as [H1 H2].
    destruct k as [|k].
    + cbn [skipn lines_upto]. destruct (from <? fseq x) eqn:E.
      * cbn [N.to_nat Nat.add firstn]. symmetry.
        apply (upto_beyond_nil (x :: r) c from); [|lia].
        cbn [contig_from]. apply andb_true_iff. split; assumption.
      * replace (0 + N.to_nat (1 + lines_upto from r))%nat with (S (0 + N.to_nat (lines_upto from (skipn 0 r)))) by (cbn [skipn]; lia).
        cbn [firstn]. unfold upto. cbn [filter]. replace (fseq x <=? from) with true by lia.
        f_equal. apply (IH 0%nat (c + 1)); [exact H2 | lia].
    + cbn [skipn]. replace (S k + N.to_nat (lines_upto from (skipn k r)))%nat with (S (k + N.to_nat (lines_upto from (skipn k r)))) by lia.
      cbn [firstn]. unfold upto. cbn [filter]. replace (fseq x <=? from) with true by lia.
      f_equal. apply (IH k (c + 1)); [exact H2 | lia].
Qed.

Lemma lines_upto_bound : forall l c from f,
  contig_from c l = true -> In f l -> fseq f <= from -> fseq f < c + lines_upto from l.
Proof.
  induction l as [|x r IH]; intros c from f Hc Hin Hle; [destruct Hin|].
  pose proof (contig_ge _ _ _ Hc Hin) as Hge.
  cbn [contig_from] in Hc. apply andb_true_iff in Hc. destruct Hc as [H1 H2].
  cbn [lines_upto]. destruct (from <? fseq x) eqn:E; [lia|].
  destruct Hin as [->|Hin]; [lia|]. specialize (IH _ _ _ H2 Hin Hle). lia.
Qed.

Lemma collect_spec : forall l pos b s from,
  contig_from pos l = true -> (forall f, In f l -> fseq f <= from -> fseq f < b) ->
  collect pos b s from l = filter mr_keep (filter (fun f => (s <=? fseq f) && (fseq f <=? from)) l).
Proof.
  induction l as [|x r IH]; intros pos b s from Hc Hb; [reflexivity|].
  assert (Hcx : contig_from pos (x :: r) = true) by exact Hc.
  cbn [contig_from] in Hc. apply andb_true_iff in Hc. destruct Hc as [H1 H2].
  assert (Hr : forall f, In f r -> fseq f <= from -> fseq f < b) by (intros f Hf; apply Hb; right; exact Hf).
  cbn [collect]. destruct (b <=? pos) eqn:E1.
  - assert (Hgt : from < pos).
    { destruct (N.le_gt_cases (fseq x) from) as [Hle|Hgt]; [|lia].
      specialize (Hb x (or_introl eq_refl) Hle). lia. }
    rewrite (filter_beyond_nil (x :: r) pos from (fun f => s <=? fseq f) Hcx Hgt). reflexivity.
  - destruct (fseq x <? s) eqn:E2.
    + cbn [filter]. replace (s <=? fseq x) with false by lia. cbn [andb]. apply IH; assumption.
    + destruct (from <? fseq x) eqn:E3.
      * assert (Hgt : from < pos) by lia.
        rewrite (filter_beyond_nil (x :: r) pos from (fun f => s <=? fseq f) Hcx Hgt). reflexivity.
      * cbn [filter]. replace (s <=? fseq x) with true by lia. replace (fseq x <=? from) with true by lia.
        cbn [andb filter]. rewrite (IH (pos + 1) b s from H2 Hr).
        destruct (mr_keep x); reflexivity.
Qed.

Lemma filter_skipn_below : forall l k c s (Q : frame -> bool),
  contig_from c l = true -> c + N.of_nat k <= s ->
  filter (fun f => (s <=? fseq f) && Q f) (skipn k l) = filter (fun f => (s <=? fseq f) && Q f) l.
Proof.
  induction l as [|x r IH]; intros k c s Q Hc Hk; [destruct k; reflexivity|].
  destruct k as [|k]; [reflexivity|].
  cbn [contig_from] in Hc. apply andb_true_iff in Hc. destruct Hc as [H1 H2].
  cbn [skipn filter]. replace (s <=? fseq x) with false by lia. cbn [andb].
  apply (IH k (c + 1)); [exact H2 | lia].
Qed.

(* THE WINDOW READ: on an intact full sidecar, with ANY lookup that never starts beyond its target, for every stride,
   limit and cut, the window is the specified one *)
Theorem seek_window_sound : forall (look : list entry -> N -> N) stride limit l from,
  valid_log l = true ->
  (forall t, look (seek_index stride l) t <= t) ->
  seek_window look stride limit l from = window_spec limit l from.
Proof.
  intros look stride limit l from Hv Hlook.
  unfold seek_window, window_spec, boundary_pos, start_seq, from_offset.
  set (es := seek_index stride l).
  set (o1 := look es from).
  assert (Ho1 : o1 <= from) by (apply Hlook).
  assert (HB : firstn (N.to_nat (o1 + lines_upto from (skipn (N.to_nat o1) l))) l = upto from l).
  { rewrite N2Nat.inj_add. apply (boundary_firstn l (N.to_nat o1) 0 from Hv). lia. }
  rewrite HB.
  set (s := start_seq_rev from (rev (upto from l)) limit).
  set (o2 := look es s).
  assert (Ho2 : o2 <= s) by (apply Hlook).
  set (b := o1 + lines_upto from (skipn (N.to_nat o1) l)).
  assert (Hbound : forall f, In f l -> fseq f <= from -> fseq f < b).
  { intros f Hin Hle. rewrite <- (firstn_skipn (N.to_nat o1) l) in Hin. apply in_app_or in Hin.
    destruct Hin as [Hin|Hin].
    - pose proof (contig_firstn_lt _ _ _ _ Hv Hin). unfold b. lia.
    - pose proof (contig_skipn (N.to_nat o1) l 0 Hv) as Hc.
      pose proof (lines_upto_bound _ _ from f Hc Hin Hle). unfold b. lia. }
  pose proof (contig_skipn (N.to_nat o2) l 0 Hv) as Hc2.
  replace (0 + N.of_nat (N.to_nat o2)) with o2 in Hc2 by lia.
  rewrite (collect_spec (skipn (N.to_nat o2) l) o2 b s from Hc2).
  - f_equal. apply (filter_skipn_below l (N.to_nat o2) 0 s (fun f => fseq f <=? from) Hv). lia.
  - intros f Hin. apply Hbound. eapply in_skipn. exact Hin.
Qed.

Theorem seek_window_correct : forall stride limit l from,
  valid_log l = true -> seek_window best_offset stride limit l from = window_spec limit l from.
Proof.
  intros stride limit l from Hv. apply seek_window_sound; [exact Hv|].
  intros t. apply best_offset_le. exact Hv.
Qed.

(* the lookup, stated on its own: on the index of an intact sidecar the entry used is at or below the target, and every entry
   at or below the target is at or below it (so the NEXT entry is beyond the target: the forward read is shorter than a stride) *)
Theorem seek_lookup_spec : forall stride l t,
  valid_log l = true ->
  match best_entry (seek_index stride l) t None with
  | Some e => In e (seek_index stride l) /\ fst e <= t /\ snd e = fst e
              /\ forall e', In e' (seek_index stride l) -> fst e' <= t -> fst e' <= fst e
  | None => forall e', In e' (seek_index stride l) -> t < fst e'
  end.
Proof.
  intros stride l t Hv. unfold seek_index.
  pose proof (index_from_sorted l stride 0 0 Hv) as Hs.
  destruct (best_entry (index_from stride 0 l) t None) as [e|] eqn:E.
  - pose proof (best_entry_some _ _ _ _ E) as Hin. destruct Hin as [Hin|Hin]; [discriminate|].
    split; [exact Hin|]. split.
    + eapply best_entry_le; [exact E|]. intros e0 He0; discriminate.
    + split.
      * destruct e as [s o]. destruct (index_from_in _ _ _ _ _ _ Hv Hin) as [_ Ho]. cbn [fst snd]. lia.
      * intros e' Hin' Hle'.
        destruct (best_entry_greatest _ 0 t None e' Hs Hin' Hle') as [e2 [He2 [_ Hl]]].
        rewrite E in He2. inversion He2; subst. exact Hl.
  - intros e' Hin'. eapply best_entry_none; [exact Hs | exact E | exact Hin'].
Qed.

(* ------------------------------------------------------------------ witnesses (stride 4, thread of 11 messages: entries 0, 4, 8) *)
Definition seqs (l : log) : list N := map fseq l.

(* every offset class relative to the stride: entry - 1, entry, entry + 1, mid-stride, last entry +- 1, the tail *)
Lemma seek_window_positions :
  seek_index 4 sw_thread = [(0, 0); (4, 4); (8, 8)]
  /\ map (fun from => seqs (seek_window best_offset 4 2 sw_thread from)) [3; 4; 5; 6; 7; 8; 9; 10]
     = [[2; 3]; [3; 4]; [4; 5]; [5; 6]; [6; 7]; [7; 8]; [8; 9]; [9; 10]]
  /\ map (fun from => seqs (window_spec 2 sw_thread from)) [3; 4; 5; 6; 7; 8; 9; 10]
     = [[2; 3]; [3; 4]; [4; 5]; [5; 6]; [6; 7]; [7; 8]; [8; 9]; [9; 10]].
Proof. vm_compute. repeat split; reflexivity. Qed.

(* the off-by-one lookup (seed C04-11): for a cut that is not an entry and lies below the last entry the read starts at
   the NEXT entry: the window is empty although the thread holds the two messages (cuts 3, 6, 7); when the cut is an entry
   or just behind one the window's first frame is looked up one entry too far instead and the older message is missing
   (cuts 4, 5, 8); only cuts whose whole window lies beyond the last entry come out right (9, 10) *)
Lemma seek_window_next_entry_refuted :
  valid_log sw_thread = true
  /\ best_offset (seek_index 4 sw_thread) 6 = 4 /\ best_offset_next (seek_index 4 sw_thread) 6 = 8
  /\ seqs (seek_window best_offset_next 4 2 sw_thread 6) = []
  /\ seqs (window_spec 2 sw_thread 6) = [5; 6]
  /\ map (fun from => seqs (seek_window best_offset_next 4 2 sw_thread from)) [3; 4; 5; 7; 8; 9; 10]
     = [[]; [4]; [4; 5]; []; [8]; [8; 9]; [9; 10]].
Proof. vm_compute. repeat split; reflexivity. Qed.

Lemma seek_window_next_entry_exists :
  exists stride limit l from, valid_log l = true
    /\ seek_window best_offset_next stride limit l from <> window_spec limit l from.
Proof.
  exists 4, 2%nat, sw_thread, 6. split; [reflexivity|]. vm_compute. discriminate.
Qed.

(* ------------------------------------------------------------------ the specified window is admissible for the compiler *)
Lemma start_rev_split from : forall rl need,
  (forall f, In f rl -> fseq f <= from) ->
  start_seq_rev from rl need = 0
  \/ exists p f rest, rl = p ++ f :: rest /\ fseq f = start_seq_rev from rl need
       /\ (need <= length (filter is_msg (p ++ [f])))%nat.
Proof.
  induction rl as [|x r IH]; intros need Hle; [left; reflexivity|].
  assert (Hx : fseq x <= from) by (apply Hle; left; reflexivity).
  assert (Hr : forall f, In f r -> fseq f <= from) by (intros f Hf; apply Hle; right; exact Hf).
  cbn [start_seq_rev]. replace (from <? fseq x) with false by lia.
  destruct (is_msg x) eqn:M.
  - destruct need as [|[|n]].
    + right. exists [], x, r. cbn [app filter]. rewrite M. cbn [length]. repeat split; lia.
    + right. exists [], x, r. cbn [app filter]. rewrite M. cbn [length]. repeat split; lia.
    + destruct (IH (S n) Hr) as [H0|[p [f [rest [E [Hs Hn]]]]]]; [left; exact H0|].
      right. exists (x :: p), f, rest. split; [cbn [app]; rewrite E; reflexivity|]. split; [exact Hs|].
      cbn [app filter]. rewrite M. cbn [length]. lia.
  - destruct (IH need Hr) as [H0|[p [f [rest [E [Hs Hn]]]]]]; [left; exact H0|].
    right. exists (x :: p), f, rest. split; [cbn [app]; rewrite E; reflexivity|]. split; [exact Hs|].
    cbn [app filter]. rewrite M. exact Hn.
Qed.

Lemma filter_filter_and {A} (p q : A -> bool) (l : list A) :
  filter p (filter q l) = filter (fun x => p x && q x) l.
Proof.
  induction l as [|x r IH]; [reflexivity|]. cbn [filter].
  destruct (q x) eqn:Q; cbn [filter]; rewrite ?andb_true_r, ?andb_false_r; destruct (p x); rewrite ?IH; reflexivity.
Qed.

Lemma filter_none {A} (p : A -> bool) (l : list A) : (forall x, In x l -> p x = false) -> filter p l = [].
Proof.
  induction l as [|x r IH]; intros H; [reflexivity|]. cbn [filter].
  rewrite (H x (or_introl eq_refl)). apply IH. intros y Hy. apply H. right. exact Hy.
Qed.

Lemma filter_all {A} (p : A -> bool) (l : list A) : (forall x, In x l -> p x = true) -> filter p l = l.
Proof.
  induction l as [|x r IH]; intros H; [reflexivity|]. cbn [filter].
  rewrite (H x (or_introl eq_refl)). f_equal. apply IH. intros y Hy. apply H. right. exact Hy.
Qed.

Lemma filter_msg_keep (x : log) : filter is_msg (filter mr_keep x) = filter is_msg x.
Proof.
  rewrite filter_filter_and. apply filter_ext. intros f. unfold mr_keep. destruct (is_msg f); reflexivity.
Qed.

Theorem window_spec_admissible : forall limit l from,
  incr l -> admissible_input mr_keep limit l from (window_spec limit l from).
Proof.
  intros limit l from Hi. split; [auto|].
  unfold window_spec. set (u := upto from l).
  set (s := start_seq_rev from (rev u) limit).
  assert (Hu : forall f, In f u -> fseq f <= from).
  { intros f Hf. unfold u, upto in Hf. apply filter_In in Hf. destruct Hf as [_ Hf]. lia. }
  assert (Hsel : filter (fun f => (s <=? fseq f) && (fseq f <=? from)) l = filter (fun f => s <=? fseq f) u).
  { unfold u, upto. rewrite filter_filter_and. reflexivity. }
  rewrite Hsel.
  assert (Hiu : incr u) by (apply incr_filter; exact Hi).
  exists u. 
  destruct (start_rev_split from (rev u) limit) as [H0|[p [f [rest [E [Hs Hn]]]]]].
  { intros f Hf. apply Hu. apply in_rev. exact Hf. }
  - exists []. split; [right; reflexivity|]. split; [|left; reflexivity].
    cbn [app]. f_equal. symmetry. apply filter_all. intros x _. fold s in H0. lia.
  - fold s in Hs.
    assert (Eu : u = rev rest ++ f :: rev p).
    { rewrite <- (rev_involutive u), E, rev_app_distr. cbn [rev]. rewrite <- app_assoc. reflexivity. }
    rewrite Eu in Hiu. destruct (incr_app_inv _ _ Hiu) as [_ [Hi2 Hlt]].
    assert (Hp : forall y, In y (rev p) -> fseq f < fseq y).
    { cbn [incr] in Hi2. destruct Hi2 as [F _]. rewrite Forall_forall in F. exact F. }
    assert (Ekeep : filter (fun g => s <=? fseq g) u = f :: rev p).
    { rewrite Eu, filter_app.
      rewrite (filter_none _ (rev rest)).
      - cbn [app]. apply filter_all. intros y [<-|Hy]; [lia|]. specialize (Hp y Hy). lia.
      - intros y Hy. specialize (Hlt y f Hy (or_introl eq_refl)). lia. }
    rewrite Ekeep.
    exists (filter mr_keep (rev rest)). split; [right; reflexivity|]. split.
    + rewrite Eu, filter_app. reflexivity.
    + right. rewrite count_msgs_upto_all.
      * rewrite filter_msg_keep.
        replace (f :: rev p) with (rev (p ++ [f])) by (rewrite rev_app_distr; reflexivity).
        rewrite filter_is_msg_rev. exact Hn.
      * intros g Hg. apply filter_In in Hg. destruct Hg as [Hg _].
        assert (In g u) by (rewrite Eu; apply in_or_app; right; exact Hg).
        specialize (Hu g H). lia.
Qed.

(* the full-sidecar window with the lookup of the code meets the hypothesis the compile-input theorem makes about its window *)
Lemma full_sidecar_window_spec : forall stride limit l a,
  valid_log l = true -> WindowSpec limit l a (full_sidecar_window best_offset stride limit l a).
Proof.
  intros stride limit l a Hv evs from H. unfold full_sidecar_window in H.
  destruct (cut_point l a) as [fr|] eqn:C; [|discriminate].
  inversion H; subst evs from. clear H. split; [reflexivity|]. exists mr_keep.
  rewrite (seek_window_correct stride limit l fr Hv).
  apply window_spec_admissible. apply valid_incr. exact Hv.
Qed.

(* THE COMPILE INPUT THROUGH THE CACHES AS FOUND, with the full-sidecar window read over the seek index as the window: no
   hypothesis about the window is left *)
Theorem compile_input_transparent_seek_window (r : tail_count) (P : params) (texts : N -> N) (l : log) (a : N)
        (ks : list nat) (mr full : cfile) (stride : N) :
  tail_count_sound r = true -> valid_log l = true -> wf_refs l = true ->
  MrFaithful l mr full -> HeadFaithful l full ->
  compile_fast r P texts ks mr full (full_sidecar_window best_offset stride (p_limit P) l a) l a = compile P texts l a.
Proof.
  intros R V W Fm Fh.
  exact (compile_input_transparent r P texts l a R (valid_incr l V) W ks mr full _ Fm Fh
           (full_sidecar_window_spec stride (p_limit P) l a V)).
Qed.

(* ... and with the off-by-one lookup the loader hands the compiler an empty input where the replay has two messages *)
Lemma full_sidecar_window_next_entry_refuted :
  option_map (fun w => seqs (fst w)) (full_sidecar_window best_offset_next 4 2 sw_thread 6) = Some []
  /\ option_map (fun w => seqs (fst w)) (full_sidecar_window best_offset 4 2 sw_thread 6) = Some [5; 6]
  /\ cut_point sw_thread 6 = Some 6.
Proof. vm_compute. repeat split; reflexivity. Qed.
